//go:build verif && (!amd64 || go1.25)
// +build verif
// +build !amd64 go1.25

package verifbridge

const Portable = true

func NativeFlavour() string { return "portable" }
