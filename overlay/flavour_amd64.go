//go:build verif && amd64 && !go1.25
// +build verif,amd64,!go1.25

// Overlaid (go build -overlay) into /repo/internal/native by the /verif harness.
// Never committed to /repo. Re-binds the native stubs to a chosen SIMD flavour.

package native

import "os"

// VerifFlavour is the flavour the stubs are bound to after init.
var VerifFlavour = "default"

func init() {
	switch os.Getenv("VERIF_NATIVE_FLAVOUR") {
	case "avx":
		useAVX()
		VerifFlavour = "avx"
	case "sse":
		useSSE()
		VerifFlavour = "sse"
	case "avx2":
		useAVX2()
		VerifFlavour = "avx2"
	}
}
