//go:build verif && amd64 && !go1.25
// +build verif,amd64,!go1.25

package verifbridge

import "github.com/cloudwego/dynamicgo/internal/native"

const Portable = false

func NativeFlavour() string { return native.VerifFlavour }
