//go:build verif
// +build verif

// Package verifbridge is overlaid (go build -overlay) at /repo/verifbridge by the
// /verif harness; it is never committed to /repo. It re-exports internal
// packages so that monitors can observe them from outside the module.
package verifbridge

import (
	"unsafe"

	"github.com/cloudwego/dynamicgo/internal/caching"
	"github.com/cloudwego/dynamicgo/internal/json"
	"github.com/cloudwego/dynamicgo/internal/primitive"
	"github.com/cloudwego/dynamicgo/internal/util"
)

func EncodeString(buf []byte, s string) []byte   { return json.EncodeString(buf, s) }
func EncodeInt64(buf []byte, v int64) []byte     { return json.EncodeInt64(buf, v) }
func EncodeFloat64(buf []byte, v float64) []byte { return json.EncodeFloat64(buf, v) }
func EncodeBinary(buf []byte, v []byte) []byte   { return json.EncodeBaniry(buf, v) }
func NoQuote(buf *[]byte, s string)              { json.NoQuote(buf, s) }

func DJBHash32(k string) uint32 { return caching.DJBHash32(k) }

type TrieTree = caching.TrieTree
type HashMap = caching.HashMap
type FieldNameMap = util.FieldNameMap
type FieldIDMap = util.FieldIDMap

func NewHashMap(n, lf int) *HashMap { return caching.NewHashMap(n, lf) }

// Box returns a stable non-nil pointer carrying i (index into a side table).
func Box(p *int) unsafe.Pointer { return unsafe.Pointer(p) }

func ToInt64(v interface{}) (int64, error)     { return primitive.ToInt64(v) }
func ToFloat64(v interface{}) (float64, error) { return primitive.ToFloat64(v) }
func ToString(v interface{}) (string, error)   { return primitive.ToString(v) }
func ToBool(v interface{}) (bool, error)       { return primitive.ToBool(v) }
