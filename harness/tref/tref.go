// Package tref is an independent, minimal Thrift binary codec written from the
// Apache Thrift binary protocol specification. It shares no code with dynamicgo.
// It is the reference ("oracle") decoder/encoder for the Thrift properties.
package tref

import (
	"encoding/binary"
	"errors"
	"fmt"
	"math"
	"strings"
)

// Thrift wire type codes.
const (
	STOP   = 0
	BOOL   = 2
	BYTE   = 3
	DOUBLE = 4
	I16    = 6
	I32    = 8
	I64    = 10
	STRING = 11
	STRUCT = 12
	MAP    = 13
	SET    = 14
	LIST   = 15
)

func TypeName(t byte) string {
	switch t {
	case STOP:
		return "STOP"
	case BOOL:
		return "BOOL"
	case BYTE:
		return "BYTE"
	case DOUBLE:
		return "DOUBLE"
	case I16:
		return "I16"
	case I32:
		return "I32"
	case I64:
		return "I64"
	case STRING:
		return "STRING"
	case STRUCT:
		return "STRUCT"
	case MAP:
		return "MAP"
	case SET:
		return "SET"
	case LIST:
		return "LIST"
	}
	return fmt.Sprintf("T%d", t)
}

func ValidType(t byte) bool {
	switch t {
	case BOOL, BYTE, DOUBLE, I16, I32, I64, STRING, STRUCT, MAP, SET, LIST:
		return true
	}
	return false
}

// Field is one struct field of a value.
type Field struct {
	ID int16
	V  *Val
	// HdrStart is the offset of the field header (type byte) when decoded.
	HdrStart int
}

// Val is the model of a Thrift value.
type Val struct {
	T  byte
	B  bool
	I  int64   // BYTE/I16/I32/I64
	F  float64 // DOUBLE (compare by bits)
	S  []byte  // STRING
	ET byte    // LIST/SET element type, MAP value type
	KT byte    // MAP key type
	L  []*Val  // LIST/SET elements, MAP values
	K  []*Val  // MAP keys
	Fs []Field // STRUCT fields in wire order

	// Spans, filled by Decode / Encode (offsets in the top-level buffer).
	Start, End int
}

func Bool(b bool) *Val             { return &Val{T: BOOL, B: b} }
func Byte(v int8) *Val             { return &Val{T: BYTE, I: int64(v)} }
func Int16(v int16) *Val           { return &Val{T: I16, I: int64(v)} }
func Int32(v int32) *Val           { return &Val{T: I32, I: int64(v)} }
func Int64(v int64) *Val           { return &Val{T: I64, I: v} }
func Double(v float64) *Val        { return &Val{T: DOUBLE, F: v} }
func Str(s string) *Val            { return &Val{T: STRING, S: []byte(s)} }
func Bin(s []byte) *Val            { return &Val{T: STRING, S: append([]byte{}, s...)} }
func List(et byte, l ...*Val) *Val { return &Val{T: LIST, ET: et, L: l} }
func Set(et byte, l ...*Val) *Val  { return &Val{T: SET, ET: et, L: l} }
func Struct(fs ...Field) *Val      { return &Val{T: STRUCT, Fs: fs} }

func (v *Val) FieldByID(id int16) *Val {
	for i := range v.Fs {
		if v.Fs[i].ID == id {
			return v.Fs[i].V
		}
	}
	return nil
}

// Clone is a deep copy (spans dropped).
func (v *Val) Clone() *Val {
	if v == nil {
		return nil
	}
	n := &Val{T: v.T, B: v.B, I: v.I, F: v.F, ET: v.ET, KT: v.KT}
	if v.S != nil {
		n.S = append([]byte{}, v.S...)
	}
	for _, e := range v.L {
		n.L = append(n.L, e.Clone())
	}
	for _, e := range v.K {
		n.K = append(n.K, e.Clone())
	}
	for _, f := range v.Fs {
		n.Fs = append(n.Fs, Field{ID: f.ID, V: f.V.Clone()})
	}
	return n
}

// Equal compares two models structurally (doubles by bit pattern, order-sensitive).
func Equal(a, b *Val) bool {
	if a == nil || b == nil {
		return a == b
	}
	if a.T != b.T {
		return false
	}
	switch a.T {
	case BOOL:
		return a.B == b.B
	case BYTE, I16, I32, I64:
		return a.I == b.I
	case DOUBLE:
		return math.Float64bits(a.F) == math.Float64bits(b.F)
	case STRING:
		return string(a.S) == string(b.S)
	case LIST, SET:
		if a.ET != b.ET || len(a.L) != len(b.L) {
			return false
		}
		for i := range a.L {
			if !Equal(a.L[i], b.L[i]) {
				return false
			}
		}
		return true
	case MAP:
		if a.ET != b.ET || a.KT != b.KT || len(a.L) != len(b.L) {
			return false
		}
		for i := range a.L {
			if !Equal(a.K[i], b.K[i]) || !Equal(a.L[i], b.L[i]) {
				return false
			}
		}
		return true
	case STRUCT:
		if len(a.Fs) != len(b.Fs) {
			return false
		}
		for i := range a.Fs {
			if a.Fs[i].ID != b.Fs[i].ID || !Equal(a.Fs[i].V, b.Fs[i].V) {
				return false
			}
		}
		return true
	}
	return false
}

// EqualUnordered is Equal but struct fields and map entries may be in any
// order (both are unordered collections in the Thrift data model).
func EqualUnordered(a, b *Val) bool {
	if a == nil || b == nil {
		return a == b
	}
	if a.T != b.T {
		return false
	}
	switch a.T {
	case LIST, SET:
		if a.ET != b.ET || len(a.L) != len(b.L) {
			return false
		}
		for i := range a.L {
			if !EqualUnordered(a.L[i], b.L[i]) {
				return false
			}
		}
		return true
	case MAP:
		if a.ET != b.ET || a.KT != b.KT || len(a.L) != len(b.L) {
			return false
		}
		used := make([]bool, len(b.L))
	outer:
		for i := range a.L {
			for j := range b.L {
				if !used[j] && EqualUnordered(a.K[i], b.K[j]) && EqualUnordered(a.L[i], b.L[j]) {
					used[j] = true
					continue outer
				}
			}
			return false
		}
		return true
	case STRUCT:
		if len(a.Fs) != len(b.Fs) {
			return false
		}
		used := make([]bool, len(b.Fs))
	outer2:
		for i := range a.Fs {
			for j := range b.Fs {
				if !used[j] && a.Fs[i].ID == b.Fs[j].ID && EqualUnordered(a.Fs[i].V, b.Fs[j].V) {
					used[j] = true
					continue outer2
				}
			}
			return false
		}
		return true
	}
	return Equal(a, b)
}

// String renders a compact description.
func (v *Val) String() string {
	var sb strings.Builder
	v.str(&sb, 0)
	return sb.String()
}

func (v *Val) str(sb *strings.Builder, d int) {
	if v == nil {
		sb.WriteString("<nil>")
		return
	}
	if sb.Len() > 6000 {
		sb.WriteString("…")
		return
	}
	switch v.T {
	case BOOL:
		fmt.Fprintf(sb, "%v", v.B)
	case BYTE:
		fmt.Fprintf(sb, "%db", v.I)
	case I16:
		fmt.Fprintf(sb, "%ds", v.I)
	case I32:
		fmt.Fprintf(sb, "%di", v.I)
	case I64:
		fmt.Fprintf(sb, "%dl", v.I)
	case DOUBLE:
		fmt.Fprintf(sb, "%v(0x%x)", v.F, math.Float64bits(v.F))
	case STRING:
		if len(v.S) > 40 {
			fmt.Fprintf(sb, "%q…(%d)", v.S[:40], len(v.S))
		} else {
			fmt.Fprintf(sb, "%q", v.S)
		}
	case LIST, SET:
		if v.T == LIST {
			sb.WriteString("list<")
		} else {
			sb.WriteString("set<")
		}
		sb.WriteString(TypeName(v.ET))
		sb.WriteString(">[")
		for i, e := range v.L {
			if i > 0 {
				sb.WriteString(",")
			}
			e.str(sb, d+1)
		}
		sb.WriteString("]")
	case MAP:
		fmt.Fprintf(sb, "map<%s,%s>{", TypeName(v.KT), TypeName(v.ET))
		for i := range v.L {
			if i > 0 {
				sb.WriteString(",")
			}
			v.K[i].str(sb, d+1)
			sb.WriteString(":")
			v.L[i].str(sb, d+1)
		}
		sb.WriteString("}")
	case STRUCT:
		sb.WriteString("{")
		for i, f := range v.Fs {
			if i > 0 {
				sb.WriteString(",")
			}
			fmt.Fprintf(sb, "%d:", f.ID)
			f.V.str(sb, d+1)
		}
		sb.WriteString("}")
	default:
		fmt.Fprintf(sb, "<T%d>", v.T)
	}
}

// Encode appends the standard Thrift binary encoding of v and records spans.
func Encode(v *Val) []byte {
	return AppendVal(nil, v)
}

func AppendVal(b []byte, v *Val) []byte {
	v.Start = len(b)
	switch v.T {
	case BOOL:
		if v.B {
			b = append(b, 1)
		} else {
			b = append(b, 0)
		}
	case BYTE:
		b = append(b, byte(v.I))
	case I16:
		b = append(b, byte(uint16(v.I)>>8), byte(v.I))
	case I32:
		var t [4]byte
		binary.BigEndian.PutUint32(t[:], uint32(v.I))
		b = append(b, t[:]...)
	case I64:
		var t [8]byte
		binary.BigEndian.PutUint64(t[:], uint64(v.I))
		b = append(b, t[:]...)
	case DOUBLE:
		var t [8]byte
		binary.BigEndian.PutUint64(t[:], math.Float64bits(v.F))
		b = append(b, t[:]...)
	case STRING:
		var t [4]byte
		binary.BigEndian.PutUint32(t[:], uint32(len(v.S)))
		b = append(b, t[:]...)
		b = append(b, v.S...)
	case LIST, SET:
		var t [4]byte
		b = append(b, v.ET)
		binary.BigEndian.PutUint32(t[:], uint32(len(v.L)))
		b = append(b, t[:]...)
		for _, e := range v.L {
			b = AppendVal(b, e)
		}
	case MAP:
		var t [4]byte
		b = append(b, v.KT, v.ET)
		binary.BigEndian.PutUint32(t[:], uint32(len(v.L)))
		b = append(b, t[:]...)
		for i := range v.L {
			b = AppendVal(b, v.K[i])
			b = AppendVal(b, v.L[i])
		}
	case STRUCT:
		for i := range v.Fs {
			f := &v.Fs[i]
			f.HdrStart = len(b)
			b = append(b, f.V.T, byte(uint16(f.ID)>>8), byte(f.ID))
			b = AppendVal(b, f.V)
		}
		b = append(b, 0)
	default:
		panic(fmt.Sprintf("tref: cannot encode type %d", v.T))
	}
	v.End = len(b)
	return b
}

var ErrShort = errors.New("tref: truncated")

// Decode strictly decodes one value of type t from b at offset 0 and requires
// all bytes to be consumed.
func Decode(b []byte, t byte) (*Val, error) {
	v, n, err := DecodeAt(b, 0, t, 0)
	if err != nil {
		return nil, err
	}
	if n != len(b) {
		return nil, fmt.Errorf("tref: %d trailing bytes", len(b)-n)
	}
	return v, nil
}

const maxDepth = 5000

// DecodeAt decodes a value of type t at offset p; returns the value and the
// offset after it.
func DecodeAt(b []byte, p int, t byte, depth int) (*Val, int, error) {
	if depth > maxDepth {
		return nil, p, errors.New("tref: too deep")
	}
	v := &Val{T: t, Start: p}
	need := func(n int) error {
		if n < 0 || p+n > len(b) {
			return ErrShort
		}
		return nil
	}
	switch t {
	case BOOL:
		if err := need(1); err != nil {
			return nil, p, err
		}
		if b[p] > 1 {
			return nil, p, fmt.Errorf("tref: bool byte %d", b[p])
		}
		v.B = b[p] == 1
		p++
	case BYTE:
		if err := need(1); err != nil {
			return nil, p, err
		}
		v.I = int64(int8(b[p]))
		p++
	case I16:
		if err := need(2); err != nil {
			return nil, p, err
		}
		v.I = int64(int16(binary.BigEndian.Uint16(b[p:])))
		p += 2
	case I32:
		if err := need(4); err != nil {
			return nil, p, err
		}
		v.I = int64(int32(binary.BigEndian.Uint32(b[p:])))
		p += 4
	case I64:
		if err := need(8); err != nil {
			return nil, p, err
		}
		v.I = int64(binary.BigEndian.Uint64(b[p:]))
		p += 8
	case DOUBLE:
		if err := need(8); err != nil {
			return nil, p, err
		}
		v.F = math.Float64frombits(binary.BigEndian.Uint64(b[p:]))
		p += 8
	case STRING:
		if err := need(4); err != nil {
			return nil, p, err
		}
		n := int(int32(binary.BigEndian.Uint32(b[p:])))
		p += 4
		if err := need(n); err != nil {
			return nil, p, err
		}
		v.S = append([]byte{}, b[p:p+n]...)
		p += n
	case LIST, SET:
		if err := need(5); err != nil {
			return nil, p, err
		}
		v.ET = b[p]
		n := int(int32(binary.BigEndian.Uint32(b[p+1:])))
		p += 5
		if n < 0 {
			return nil, p, errors.New("tref: negative size")
		}
		if !ValidType(v.ET) {
			return nil, p, fmt.Errorf("tref: bad elem type %d", v.ET)
		}
		if n > len(b)-p {
			return nil, p, ErrShort
		}
		for i := 0; i < n; i++ {
			e, np, err := DecodeAt(b, p, v.ET, depth+1)
			if err != nil {
				return nil, p, err
			}
			v.L = append(v.L, e)
			p = np
		}
	case MAP:
		if err := need(6); err != nil {
			return nil, p, err
		}
		v.KT, v.ET = b[p], b[p+1]
		n := int(int32(binary.BigEndian.Uint32(b[p+2:])))
		p += 6
		if n < 0 {
			return nil, p, errors.New("tref: negative size")
		}
		if !ValidType(v.ET) || !ValidType(v.KT) {
			return nil, p, fmt.Errorf("tref: bad map types %d,%d", v.KT, v.ET)
		}
		if n > len(b)-p {
			return nil, p, ErrShort
		}
		for i := 0; i < n; i++ {
			k, np, err := DecodeAt(b, p, v.KT, depth+1)
			if err != nil {
				return nil, p, err
			}
			p = np
			e, np, err := DecodeAt(b, p, v.ET, depth+1)
			if err != nil {
				return nil, p, err
			}
			p = np
			v.K = append(v.K, k)
			v.L = append(v.L, e)
		}
	case STRUCT:
		for {
			if err := need(1); err != nil {
				return nil, p, err
			}
			ft := b[p]
			if ft == STOP {
				p++
				break
			}
			if !ValidType(ft) {
				return nil, p, fmt.Errorf("tref: bad field type %d", ft)
			}
			if err := need(3); err != nil {
				return nil, p, err
			}
			id := int16(binary.BigEndian.Uint16(b[p+1:]))
			hs := p
			p += 3
			e, np, err := DecodeAt(b, p, ft, depth+1)
			if err != nil {
				return nil, p, err
			}
			p = np
			v.Fs = append(v.Fs, Field{ID: id, V: e, HdrStart: hs})
		}
	default:
		return nil, p, fmt.Errorf("tref: bad type %d", t)
	}
	v.End = p
	return v, p, nil
}

// Walk visits every node (pre-order).
func Walk(v *Val, f func(n *Val, depth int)) { walk(v, 0, f) }
func walk(v *Val, d int, f func(n *Val, depth int)) {
	f(v, d)
	for _, e := range v.K {
		walk(e, d+1, f)
	}
	for _, e := range v.L {
		walk(e, d+1, f)
	}
	for _, fl := range v.Fs {
		walk(fl.V, d+1, f)
	}
}

// WrapMessage builds the strict binary message envelope
// (version|type, name, seqid) + struct{ id: body } + STOP around a struct body.
func WrapMessage(name string, mtype byte, seq int32, structID int16, body []byte) []byte {
	var b []byte
	var t [4]byte
	binary.BigEndian.PutUint32(t[:], 0x80010000|uint32(mtype))
	b = append(b, t[:]...)
	binary.BigEndian.PutUint32(t[:], uint32(len(name)))
	b = append(b, t[:]...)
	b = append(b, name...)
	binary.BigEndian.PutUint32(t[:], uint32(seq))
	b = append(b, t[:]...)
	b = append(b, STRUCT, byte(uint16(structID)>>8), byte(structID))
	b = append(b, body...)
	b = append(b, 0)
	return b
}
