//go:build !verifportable

package h

// Portable is true in the worker built with the go1.25 tag (dynamicgo's pure-Go fallbacks).
const Portable = false
