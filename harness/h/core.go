// Package h is the monitoring core shared by all property workers:
// write-ahead journal, panic/fault recorder, coverage and evidence counters,
// deterministic per-case PRNG.
package h

import (
	"bufio"
	"crypto/sha256"
	"encoding/hex"
	"encoding/json"
	"flag"
	"fmt"
	"os"
	"runtime"
	"runtime/debug"
	"sort"
	"strings"
	"time"
)

// Rand is splitmix64.
type Rand struct{ s uint64 }

func NewRand(seed uint64) *Rand { return &Rand{s: seed} }

func (r *Rand) U64() uint64 {
	r.s += 0x9e3779b97f4a7c15
	z := r.s
	z = (z ^ (z >> 30)) * 0xbf58476d1ce4e5b9
	z = (z ^ (z >> 27)) * 0x94d049bb133111eb
	return z ^ (z >> 31)
}
func (r *Rand) Intn(n int) int {
	if n <= 0 {
		return 0
	}
	return int(r.U64() % uint64(n))
}
func (r *Rand) Bool() bool        { return r.U64()&1 == 1 }
func (r *Rand) Chance(p int) bool { return r.Intn(100) < p } // p percent
func (r *Rand) Pick(n int) int    { return r.Intn(n) }
func (r *Rand) Range(lo, hi int) int { // inclusive
	if hi <= lo {
		return lo
	}
	return lo + r.Intn(hi-lo+1)
}
func (r *Rand) Bytes(n int) []byte {
	b := make([]byte, n)
	for i := range b {
		b[i] = byte(r.U64())
	}
	return b
}

func HashStr(s string) uint64 {
	h := uint64(1469598103934665603)
	for i := 0; i < len(s); i++ {
		h ^= uint64(s[i])
		h *= 1099511628211
	}
	return h
}

// Ctx is one worker run (one property, one shard).
type Ctx struct {
	Prop    string
	Tier    string
	Seed    int64
	Shard   int
	NShard  int
	From    int
	Only    int
	Flavour string

	out      *bufio.Writer
	outf     *os.File
	journal  *os.File
	base     int
	evals    int
	cover    map[string]int
	distinct map[string]struct{}
	samples  []interface{}
	perSig   map[string]int
	nviol    int
	notes    map[string]interface{}
}

type Case struct {
	*Ctx
	Idx   int
	I     int
	Phase string
	R     *Rand
	info  map[string]interface{}
}

func (c *Ctx) Quick() bool { return c.Tier != "thorough" }

// N picks a tier-dependent count.
func (c *Ctx) N(quick, thorough int) int {
	if c.Quick() {
		return quick
	}
	return thorough
}

type event map[string]interface{}

func (c *Ctx) emit(e event) {
	b, err := json.Marshal(e)
	if err != nil {
		b, _ = json.Marshal(event{"t": "harness-error", "msg": err.Error()})
	}
	c.out.Write(b)
	c.out.WriteByte('\n')
	c.out.Flush()
}

// Run executes cases [0,n) of a named phase; the case index is global across
// phases. f is run under the panic/fault recorder.
func (c *Ctx) Run(phase string, n int, f func(cs *Case)) {
	base := c.base
	c.base += n
	for i := 0; i < n; i++ {
		idx := base + i
		if c.Only >= 0 {
			if idx != c.Only {
				continue
			}
		} else {
			if idx%c.NShard != c.Shard || idx < c.From {
				continue
			}
		}
		cs := &Case{Ctx: c, Idx: idx, Phase: phase,
			R: NewRand(uint64(c.Seed)*0x9e3779b97f4a7c15 ^ HashStr(c.Prop+"/"+phase) ^ uint64(i)*0xd1342543de82ef95)}
		cs.I = i
		fmt.Fprintf(c.journal, "B %d %s\n", idx, phase)
		c.evals++
		c.runOne(cs, f)
	}
}

// I is the index within the phase.
func (cs *Case) Local() int { return cs.I }

func (c *Ctx) runOne(cs *Case, f func(cs *Case)) {
	defer func() {
		if r := recover(); r != nil {
			site := PanicSite(2)
			msg := fmt.Sprint(r)
			cls := "panic"
			if re, ok := r.(runtime.Error); ok {
				if _, ok := re.(interface{ Addr() uintptr }); ok {
					cls = "fault"
				}
			}
			if len(msg) > 300 {
				msg = msg[:300]
			}
			cs.Viol(cls+":"+site, "msg", msg, "stack", shortStack())
		}
	}()
	f(cs)
}

// PanicSite returns the innermost dynamicgo (non-harness) function on the
// panicking stack.
func PanicSite(skip int) string {
	pcs := make([]uintptr, 64)
	n := runtime.Callers(skip, pcs)
	fr := runtime.CallersFrames(pcs[:n])
	for {
		f, more := fr.Next()
		if strings.Contains(f.Function, "cloudwego/dynamicgo") {
			fn := f.Function
			fn = strings.TrimPrefix(fn, "github.com/cloudwego/dynamicgo/")
			return fn
		}
		if !more {
			break
		}
	}
	return "unknown"
}

func shortStack() string {
	s := string(debug.Stack())
	lines := strings.Split(s, "\n")
	var out []string
	for _, l := range lines {
		if strings.Contains(l, "dynamicgo") && !strings.HasPrefix(l, "\t") {
			out = append(out, strings.TrimSpace(l))
			if len(out) >= 8 {
				break
			}
		}
	}
	if len(out) == 0 {
		// no library frame: a harness-side panic; keep the top of the raw stack for debugging
		for _, l := range lines {
			if !strings.HasPrefix(l, "\t") && !strings.HasPrefix(l, "goroutine") && !strings.Contains(l, "runtime/") && l != "" {
				out = append(out, strings.TrimSpace(l))
				if len(out) >= 10 {
					break
				}
			}
		}
	}
	return strings.Join(out, " <- ")
}

// Info attaches replay-relevant data to the case (shown in witnesses).
func (cs *Case) Info(k string, v interface{}) {
	if cs.info == nil {
		cs.info = map[string]interface{}{}
	}
	cs.info[k] = v
}

// Viol records a violation. sig must be a stable class (no varying values);
// kv are alternating key/value details for the witness.
func (cs *Case) Viol(sig string, kv ...interface{}) {
	c := cs.Ctx
	c.nviol++
	c.perSig[sig]++
	if c.perSig[sig] > 3 {
		return // counted at end; keep at most 3 witnesses per class per shard
	}
	d := map[string]interface{}{}
	for k, v := range cs.info {
		d[k] = v
	}
	for i := 0; i+1 < len(kv); i += 2 {
		d[fmt.Sprint(kv[i])] = jsonable(kv[i+1])
	}
	c.emit(event{"t": "viol", "sig": sig, "idx": cs.Idx, "phase": cs.Phase, "detail": d})
}

func jsonable(v interface{}) interface{} {
	switch x := v.(type) {
	case []byte:
		if len(x) > 4096 {
			return fmt.Sprintf("hex(%d bytes, sha=%s):%s...", len(x), Sha(x), hex.EncodeToString(x[:2048]))
		}
		return "hex:" + hex.EncodeToString(x)
	case error:
		if x == nil {
			return nil
		}
		return x.Error()
	case string:
		if len(x) > 8192 {
			return x[:8192] + "...(truncated)"
		}
		return x
	}
	return v
}

func Sha(b []byte) string {
	s := sha256.Sum256(b)
	return hex.EncodeToString(s[:8])
}

// WriteAhead stores data the next library call is about to see in <journal>.wa (replaced per call), so that
// the driver can attach it to a crash that kills the process (fatal errors are not recoverable).
func (cs *Case) WriteAhead(label string, data []byte) {
	name := cs.journal.Name() + ".wa"
	f, err := os.OpenFile(name, os.O_CREATE|os.O_WRONLY|os.O_TRUNC, 0644)
	if err != nil {
		return
	}
	fmt.Fprintf(f, "%d %s\n", cs.Idx, label)
	f.Write([]byte(hex.EncodeToString(data)))
	f.Close()
}

// Guarded runs f with a per-call watchdog. If f has not returned after the budget, a "hang-suspect" event is
// flushed and the process exits with status 4: the driver re-runs the case alone to confirm (a wall-clock
// limit that fires only under load is inconclusive, never a violation).
func (cs *Case) Guarded(label string, budget time.Duration, f func()) {
	done := make(chan struct{})
	go func() {
		select {
		case <-done:
		case <-time.After(budget):
			d := map[string]interface{}{"label": label, "budget_s": budget.Seconds()}
			for k, v := range cs.info {
				d[k] = v
			}
			cs.Ctx.emit(event{"t": "hang-suspect", "sig": "hang:" + label, "idx": cs.Idx, "phase": cs.Phase, "detail": d})
			os.Exit(4)
		}
	}()
	defer close(done)
	f()
}

// Res records a result to be joined across build flavours by the driver (key must be flavour independent).
func (cs *Case) Res(kind string, value string) {
	cs.Ctx.emit(event{"t": "res", "k": fmt.Sprintf("%s#%d", kind, cs.Idx), "v": value})
}

func (c *Ctx) Cover(key string)         { c.cover[key]++ }
func (c *Ctx) CoverN(key string, n int) { c.cover[key] += n }

// CoverCount returns the current value of a coverage counter (of this worker).
func (c *Ctx) CoverCount(key string) int { return c.cover[key] }

// Distinct records a distinct non-trivial case key.
func (c *Ctx) Distinct(key string) {
	if len(c.distinct) < 2000000 {
		c.distinct[key] = struct{}{}
	}
}

func (c *Ctx) Sample(v interface{}) {
	if len(c.samples) < 4 {
		c.samples = append(c.samples, jsonable(v))
	}
}

// Note sets a free-form evidence value (last write wins across shards unless numeric: summed by driver under "sum:" prefix).
func (c *Ctx) Note(k string, v interface{}) { c.notes[k] = v }

func (c *Ctx) finish() {
	keys := make([]string, 0, len(c.distinct))
	for k := range c.distinct {
		h := sha256.Sum256([]byte(k))
		keys = append(keys, hex.EncodeToString(h[:6]))
	}
	sort.Strings(keys)
	c.emit(event{"t": "end", "evals": c.evals, "cover": c.cover, "distinct": keys,
		"samples": c.samples, "nviol": c.nviol, "persig": c.perSig, "notes": c.notes})
	c.outf.Close()
	c.journal.Close()
}

type PropFunc func(c *Ctx)

var registry = map[string]PropFunc{}

func Register(id string, f PropFunc) { registry[id] = f }

// Main is the worker entry point.
func Main() {
	prop := flag.String("prop", "", "property id")
	tier := flag.String("tier", "quick", "")
	seed := flag.Int64("seed", 1, "")
	shard := flag.Int("shard", 0, "")
	nshard := flag.Int("nshard", 1, "")
	from := flag.Int("from", 0, "")
	only := flag.Int("only", -1, "")
	out := flag.String("out", "", "")
	journal := flag.String("journal", "", "")
	flag.Parse()
	f, ok := registry[*prop]
	if !ok {
		fmt.Fprintln(os.Stderr, "unknown property", *prop)
		os.Exit(3)
	}
	debug.SetPanicOnFault(true)
	of, err := os.OpenFile(*out, os.O_CREATE|os.O_WRONLY|os.O_APPEND, 0644)
	if err != nil {
		fmt.Fprintln(os.Stderr, err)
		os.Exit(3)
	}
	jf, err := os.OpenFile(*journal, os.O_CREATE|os.O_WRONLY|os.O_APPEND, 0644)
	if err != nil {
		fmt.Fprintln(os.Stderr, err)
		os.Exit(3)
	}
	c := &Ctx{Prop: *prop, Tier: *tier, Seed: *seed, Shard: *shard, NShard: *nshard, From: *from, Only: *only,
		Flavour: os.Getenv("VERIF_FLAVOUR"),
		out:     bufio.NewWriter(of), outf: of, journal: jf,
		cover: map[string]int{}, distinct: map[string]struct{}{}, perSig: map[string]int{}, notes: map[string]interface{}{}}
	f(c)
	c.finish()
}
