package h

import (
	"syscall"
	"unsafe"
)

const pageSize = 4096

// Trap is a copy of an input placed flush against an inaccessible guard page.
type Trap struct {
	region []byte
	B      []byte
}

// TrapCopy maps len(b) rounded up to pages plus two guard pages (before and after).
// endAligned: the last byte of the data is the last byte before the trailing
// PROT_NONE page; otherwise the first byte follows the leading PROT_NONE page.
// readonly: the data pages are PROT_READ (any write faults).
func TrapCopy(b []byte, endAligned bool, readonly bool) *Trap {
	n := len(b)
	pages := (n + pageSize - 1) / pageSize
	if pages == 0 {
		pages = 1
	}
	total := (pages + 2) * pageSize
	region, err := syscall.Mmap(-1, 0, total, syscall.PROT_READ|syscall.PROT_WRITE, syscall.MAP_ANON|syscall.MAP_PRIVATE)
	if err != nil {
		panic("harness: mmap: " + err.Error())
	}
	data := region[pageSize : pageSize+pages*pageSize]
	var s []byte
	if endAligned {
		s = data[len(data)-n : len(data) : len(data)]
	} else {
		s = data[0:n:n]
	}
	copy(s, b)
	if err := syscall.Mprotect(region[:pageSize], syscall.PROT_NONE); err != nil {
		panic("harness: mprotect: " + err.Error())
	}
	if err := syscall.Mprotect(region[pageSize+pages*pageSize:], syscall.PROT_NONE); err != nil {
		panic("harness: mprotect: " + err.Error())
	}
	if readonly {
		if err := syscall.Mprotect(data, syscall.PROT_READ); err != nil {
			panic("harness: mprotect: " + err.Error())
		}
	}
	return &Trap{region: region, B: s}
}

func (t *Trap) Free() {
	if t.region != nil {
		syscall.Munmap(t.region)
		t.region = nil
		t.B = nil
	}
}

// Off returns the offset of p's first byte inside base, or -1.
func Off(base, p []byte) int {
	if len(p) == 0 || len(base) == 0 {
		if len(p) == 0 && cap(p) > 0 && len(base) > 0 {
			// zero-length window: use the data pointer
			d := uintptr(unsafe.Pointer(&p[:1][0])) - uintptr(unsafe.Pointer(&base[0]))
			if d <= uintptr(len(base)) {
				return int(d)
			}
		}
		return -1
	}
	d := uintptr(unsafe.Pointer(&p[0])) - uintptr(unsafe.Pointer(&base[0]))
	if d > uintptr(len(base)) {
		return -1
	}
	return int(d)
}

// TrapSpare places b so that it ends gap bytes in front of a page boundary and gives the slice spare capacity
// that reaches over that boundary to the end of the following (mapped) page. readonly: every write - into the
// data or into the spare capacity - faults. The bytes behind len(b) are 0xa5.
func TrapSpare(b []byte, gap int, readonly bool) *Trap {
	n := len(b) + gap
	pages := (n + pageSize - 1) / pageSize
	if pages == 0 {
		pages = 1
	}
	total := (pages + 3) * pageSize // guard, data pages, one spare page, guard
	region, err := syscall.Mmap(-1, 0, total, syscall.PROT_READ|syscall.PROT_WRITE, syscall.MAP_ANON|syscall.MAP_PRIVATE)
	if err != nil {
		panic("harness: mmap: " + err.Error())
	}
	data := region[pageSize : pageSize+(pages+1)*pageSize]
	for i := range data {
		data[i] = 0xa5
	}
	end := pages*pageSize - gap
	s := data[end-len(b) : end : len(data)]
	copy(s, b)
	if err := syscall.Mprotect(region[:pageSize], syscall.PROT_NONE); err != nil {
		panic("harness: mprotect: " + err.Error())
	}
	if err := syscall.Mprotect(region[pageSize+(pages+1)*pageSize:], syscall.PROT_NONE); err != nil {
		panic("harness: mprotect: " + err.Error())
	}
	if readonly {
		if err := syscall.Mprotect(data, syscall.PROT_READ); err != nil {
			panic("harness: mprotect: " + err.Error())
		}
	}
	return &Trap{region: region, B: s}
}
