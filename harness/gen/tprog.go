package gen

import (
	"fmt"
	"strings"

	"verifharness/h"
	"verifharness/tref"
)

// Multi-file Thrift programs for the descriptor property (C14): includes, typedefs, enums, unions,
// exceptions, recursive structs, constants, defaults, several services and service inheritance.
// The model below is the oracle: it is what the IDL text denotes.

type TFile struct {
	Path     string // as given to the parser and as written in include statements
	Ref      string // reference name = base name without extension
	Includes []*TFile
	Enums    []*TEnum
	Typedefs []*TTypedef
	Consts   []*TConst
	Structs  []*TStruct
	Services []*TService
}

type TEnum struct {
	Name  string
	Names []string
	Vals  []int64
	File  *TFile
}

type TTypedef struct {
	Name string
	T    *TType
	File *TFile
}

type TConst struct {
	Name string
	T    *TType
	Expr string    // rendered value
	Val  *tref.Val // what it denotes
	File *TFile
}

type TStruct struct {
	Name   string
	Kind   string // struct | union | exception
	Fields []*TField
	File   *TFile
}

type TField struct {
	ID    int16
	Name  string
	Alias string // api.key, "" = none
	T     *TType
	Req   int
	Bare  bool // rendered without a requiredness keyword although Req is ReqOptional (union members)
	// default
	DefExpr string
	DefVal  *tref.Val // nil: no default (or one the library does not support: lists/maps)
	DefKind string    // literal | const | const-included | enum | enum-included | int-for-double | unsupported
}

// TType kinds: builtin names ("bool".."binary"), "list", "set", "map", "struct", "enum", "typedef"
type TType struct {
	Kind string
	Elem *TType
	Key  *TType
	S    *TStruct
	E    *TEnum
	TD   *TTypedef
}

type TFunc struct {
	Name    string
	ArgID   int16
	ArgName string
	Arg     *TType
	Ret     *TType // nil = void
	Oneway  bool
	ExcID   int16
	ExcName string
	Exc     *TStruct // nil = none
}

type TService struct {
	Name    string
	Extends *TService
	Funcs   []*TFunc
	File    *TFile
}

type TProgram struct {
	Main  *TFile
	Files []*TFile // all, main first
}

// Resolved returns the type with typedefs removed.
func (t *TType) Resolved() *TType {
	for t.Kind == "typedef" {
		t = t.TD.T
	}
	return t
}

func refName(from *TFile, target *TFile, name string) string {
	if from == target {
		return name
	}
	return target.Ref + "." + name
}

func (t *TType) Text(from *TFile) string {
	switch t.Kind {
	case "list":
		return "list<" + t.Elem.Text(from) + ">"
	case "set":
		return "set<" + t.Elem.Text(from) + ">"
	case "map":
		return "map<" + t.Key.Text(from) + "," + t.Elem.Text(from) + ">"
	case "struct":
		return refName(from, t.S.File, t.S.Name)
	case "enum":
		return refName(from, t.E.File, t.E.Name)
	case "typedef":
		return refName(from, t.TD.File, t.TD.Name)
	}
	return t.Kind
}

func (f *TFile) Text() string {
	var sb strings.Builder
	fmt.Fprintf(&sb, "namespace go verif.%s\n", f.Ref)
	for _, i := range f.Includes {
		fmt.Fprintf(&sb, "include %q\n", i.Path)
	}
	sb.WriteString("\n")
	for _, e := range f.Enums {
		fmt.Fprintf(&sb, "enum %s {\n", e.Name)
		for i := range e.Names {
			fmt.Fprintf(&sb, "  %s = %d,\n", e.Names[i], e.Vals[i])
		}
		sb.WriteString("}\n\n")
	}
	for _, t := range f.Typedefs {
		fmt.Fprintf(&sb, "typedef %s %s\n", t.T.Text(f), t.Name)
	}
	sb.WriteString("\n")
	for _, c := range f.Consts {
		fmt.Fprintf(&sb, "const %s %s = %s\n", c.T.Text(f), c.Name, c.Expr)
	}
	sb.WriteString("\n")
	for _, st := range f.Structs {
		fmt.Fprintf(&sb, "%s %s {\n", st.Kind, st.Name)
		for _, fd := range st.Fields {
			req := ""
			switch fd.Req {
			case ReqRequired:
				req = "required "
			case ReqOptional:
				if !fd.Bare {
					req = "optional "
				}
			}
			fmt.Fprintf(&sb, "  %d: %s%s %s", fd.ID, req, fd.T.Text(f), fd.Name)
			if fd.DefExpr != "" {
				fmt.Fprintf(&sb, " = %s", fd.DefExpr)
			}
			if fd.Alias != "" {
				fmt.Fprintf(&sb, " (api.key=%q)", fd.Alias)
			}
			sb.WriteString(",\n")
		}
		sb.WriteString("}\n\n")
	}
	for _, s := range f.Services {
		fmt.Fprintf(&sb, "service %s", s.Name)
		if s.Extends != nil {
			fmt.Fprintf(&sb, " extends %s", refName(f, s.Extends.File, s.Extends.Name))
		}
		sb.WriteString(" {\n")
		for _, fn := range s.Funcs {
			ret := "void"
			if fn.Ret != nil {
				ret = fn.Ret.Text(f)
			}
			ow := ""
			if fn.Oneway {
				ow = "oneway "
			}
			fmt.Fprintf(&sb, "  %s%s %s(%d: %s %s)", ow, ret, fn.Name, fn.ArgID, fn.Arg.Text(f), fn.ArgName)
			if fn.Exc != nil {
				fmt.Fprintf(&sb, " throws (%d: %s %s)", fn.ExcID, refName(f, fn.Exc.File, fn.Exc.Name), fn.ExcName)
			}
			sb.WriteString(",\n")
		}
		sb.WriteString("}\n\n")
	}
	return sb.String()
}

type TCfg struct {
	Includes  int  // number of included files (0..2)
	SameNames bool // reuse struct names across files
	HashKeys  bool // add a struct whose keys force the hash-map (not the trie) lookup structure
	NonASCII  bool // aliases with multi-byte characters
	Base      bool // include base.thrift and add base.Base / base.BaseResp fields to root structs
	MaxFields int
}

type tgen struct {
	r    *h.Rand
	cfg  TCfg
	p    *TProgram
	n    int
	all  []*TStruct
	excs []*TStruct
}

var tBuiltins = []string{"bool", "byte", "i8", "i16", "i32", "i64", "double", "string", "binary"}

func BuiltinT(name string) byte {
	switch name {
	case "bool":
		return tref.BOOL
	case "byte", "i8":
		return tref.BYTE
	case "i16":
		return tref.I16
	case "i32":
		return tref.I32
	case "i64":
		return tref.I64
	case "double":
		return tref.DOUBLE
	case "string", "binary":
		return tref.STRING
	}
	return 0
}

// visible files from f: itself and its direct includes
func (g *tgen) visible(f *TFile) []*TFile { return append([]*TFile{f}, f.Includes...) }

func (g *tgen) structsVisible(f *TFile, kind string) []*TStruct {
	var out []*TStruct
	for _, v := range g.visible(f) {
		for _, s := range v.Structs {
			if (kind == "exception") == (s.Kind == "exception") {
				out = append(out, s)
			}
		}
	}
	return out
}

func (g *tgen) genType(f *TFile, depth int, key bool) *TType {
	x := g.r.Intn(100)
	switch {
	case key:
		return &TType{Kind: []string{"string", "string", "i32", "i64", "i16", "byte"}[g.r.Intn(6)]}
	case x < 40 || depth <= 0 && x < 75:
		return &TType{Kind: tBuiltins[g.r.Intn(len(tBuiltins))]}
	case x < 48:
		var es []*TEnum
		for _, v := range g.visible(f) {
			es = append(es, v.Enums...)
		}
		if len(es) > 0 {
			return &TType{Kind: "enum", E: es[g.r.Intn(len(es))]}
		}
		return &TType{Kind: "i32"}
	case x < 56:
		var ts []*TTypedef
		for _, v := range g.visible(f) {
			ts = append(ts, v.Typedefs...)
		}
		if len(ts) > 0 {
			return &TType{Kind: "typedef", TD: ts[g.r.Intn(len(ts))]}
		}
		return &TType{Kind: "string"}
	case x < 66:
		return &TType{Kind: "list", Elem: g.genType(f, depth-1, false)}
	case x < 70:
		return &TType{Kind: "set", Elem: &TType{Kind: []string{"string", "i32", "i64"}[g.r.Intn(3)]}}
	case x < 80:
		return &TType{Kind: "map", Key: g.genType(f, 0, true), Elem: g.genType(f, depth-1, false)}
	default:
		ss := g.structsVisible(f, "struct")
		if len(ss) > 0 && (depth <= 0 || g.r.Chance(50)) {
			return &TType{Kind: "struct", S: ss[g.r.Intn(len(ss))]} // includes self / mutual recursion
		}
		if depth <= 0 {
			return &TType{Kind: "i64"}
		}
		return &TType{Kind: "struct", S: g.newStruct(f, depth-1, "")}
	}
}

var tNamePool = []string{"Item", "Data", "Info", "Node", "Base"}

func (g *tgen) newStruct(f *TFile, depth int, kind string) *TStruct {
	g.n++
	name := fmt.Sprintf("S%d", g.n)
	if g.cfg.SameNames && g.r.Chance(40) {
		name = tNamePool[g.r.Intn(len(tNamePool))]
		for _, s := range f.Structs {
			if s.Name == name {
				name = fmt.Sprintf("S%d", g.n)
			}
		}
	}
	if kind == "" {
		kind = "struct"
		if g.r.Chance(12) {
			kind = "union"
		}
	}
	st := &TStruct{Name: name, Kind: kind, File: f}
	f.Structs = append(f.Structs, st) // registered first: fields may refer back to it
	g.all = append(g.all, st)
	nf := 1 + g.r.Intn(g.cfg.MaxFields)
	used := map[int16]bool{}
	names := map[string]bool{}
	for i := 0; i < nf; i++ {
		var id int16
		for {
			if g.r.Chance(25) {
				id = []int16{63, 64, 65, 127, 128, 255, 256, 257, 1000, 32767}[g.r.Intn(10)]
			} else {
				id = int16(1 + g.r.Intn(30))
			}
			if !used[id] {
				break
			}
		}
		used[id] = true
		fd := &TField{ID: id, Name: fmt.Sprintf("f%d_%d", g.n, i)}
		if g.r.Chance(30) {
			// short and similar names: prefixes of each other, one-letter differences
			fd.Name = []string{"a", "ab", "abc", "abd", "b", "ba", "id", "ID", "Id", "name", "names", "nam"}[g.r.Intn(12)]
		}
		if names[fd.Name] {
			fd.Name = fmt.Sprintf("f%d_%d", g.n, i)
		}
		names[fd.Name] = true
		fd.T = g.genType(f, depth, false)
		if kind == "union" {
			// the members of a union are optional whether the IDL says so or not
			fd.Req = ReqOptional
			fd.Bare = g.r.Bool()
		} else {
			fd.Req = g.r.Intn(3)
			if fd.T.Resolved().Kind == "struct" {
				fd.Req = ReqOptional
			}
		}
		st.Fields = append(st.Fields, fd)
	}
	// aliases: unique among names and aliases of this struct
	for _, fd := range st.Fields {
		if !g.r.Chance(30) {
			continue
		}
		var a string
		if g.cfg.NonASCII && g.r.Bool() {
			a = []string{"é", "ü", "名", "é-" + fd.Name, "ключ", "éé"}[g.r.Intn(6)]
		} else {
			a = []string{"x-" + fd.Name, strings.ToUpper(fd.Name), fd.Name + "_", "k " + fd.Name, "$" + fd.Name, fd.Name + fd.Name}[g.r.Intn(6)]
		}
		if names[a] {
			continue
		}
		names[a] = true
		fd.Alias = a
	}
	g.defaults(f, st)
	return st
}

func (g *tgen) defaults(f *TFile, st *TStruct) {
	for _, fd := range st.Fields {
		if !g.r.Chance(35) {
			continue
		}
		rt := fd.T.Resolved()
		switch rt.Kind {
		case "bool":
			b := g.r.Bool()
			fd.DefExpr, fd.DefVal, fd.DefKind = fmt.Sprint(b), &tref.Val{T: tref.BOOL, B: b}, "literal"
		case "byte", "i8", "i16", "i32", "i64":
			// a constant of the same resolved kind, local or included
			var cs []*TConst
			for _, v := range g.visible(f) {
				for _, c := range v.Consts {
					if c.T.Resolved().Kind == rt.Kind {
						cs = append(cs, c)
					}
				}
			}
			if len(cs) > 0 && g.r.Chance(50) {
				c := cs[g.r.Intn(len(cs))]
				fd.DefExpr, fd.DefVal, fd.DefKind = refName(f, c.File, c.Name), c.Val.Clone(), "const"
				if c.File != f {
					fd.DefKind = "const-included"
				}
				break
			}
			lim := map[string]int64{"byte": 127, "i8": 127, "i16": 32767, "i32": 2147483647, "i64": 9007199254740991}[rt.Kind]
			v := []int64{0, 1, -1, lim, -lim, 42}[g.r.Intn(6)]
			fd.DefExpr, fd.DefVal, fd.DefKind = fmt.Sprint(v), &tref.Val{T: BuiltinT(rt.Kind), I: v}, "literal"
		case "double":
			if g.r.Chance(25) {
				fd.DefExpr, fd.DefVal, fd.DefKind = "3", tref.Double(3), "int-for-double"
				break
			}
			v := []float64{0.5, -1.25, 1024, 3.141592653589793}[g.r.Intn(4)] // no exponent spellings: thriftgo mis-parses 1e+10
			fd.DefExpr, fd.DefVal, fd.DefKind = idlDefault(tref.Double(v)), tref.Double(v), "literal"
		case "string":
			var cs []*TConst
			for _, v := range g.visible(f) {
				for _, c := range v.Consts {
					if c.T.Resolved().Kind == "string" {
						cs = append(cs, c)
					}
				}
			}
			if len(cs) > 0 && g.r.Chance(50) {
				c := cs[g.r.Intn(len(cs))]
				fd.DefExpr, fd.DefVal, fd.DefKind = refName(f, c.File, c.Name), c.Val.Clone(), "const"
				if c.File != f {
					fd.DefKind = "const-included"
				}
				break
			}
			s := []string{"", "x", "hello world", "q'uote", "ünï cödé"}[g.r.Intn(5)] // no escape sequences: their treatment is the IDL parser's
			fd.DefExpr, fd.DefVal, fd.DefKind = "\""+s+"\"", tref.Str(s), "literal"
		case "enum":
			i := g.r.Intn(len(rt.E.Names))
			fd.DefExpr = refName(f, rt.E.File, rt.E.Name) + "." + rt.E.Names[i]
			fd.DefVal = &tref.Val{T: tref.I32, I: rt.E.Vals[i]} // I64 under ParseEnumAsInt64: fixed up by the oracle
			fd.DefKind = "enum"
			if rt.E.File != f {
				fd.DefKind = "enum-included"
			}
		case "list":
			if rt.Elem.Resolved().Kind == "i32" {
				fd.DefExpr, fd.DefKind = "[1, 2, 3]", "unsupported"
			}
		}
	}
}

func (g *tgen) newFile(path string, includes []*TFile) *TFile {
	ref := path[strings.LastIndex(path, "/")+1:]
	ref = strings.TrimSuffix(ref, ".thrift")
	f := &TFile{Path: path, Ref: ref, Includes: includes}
	g.p.Files = append(g.p.Files, f)
	// enums
	for k := g.r.Intn(3); k > 0; k-- {
		g.n++
		e := &TEnum{Name: fmt.Sprintf("E%d", g.n), File: f}
		if g.cfg.SameNames && g.r.Chance(40) {
			e.Name = "Color"
			for _, o := range f.Enums {
				if o.Name == e.Name {
					e.Name = fmt.Sprintf("E%d", g.n)
				}
			}
		}
		vals := []int64{0, 1, 2, 7, -1, 1000, 2147483647}
		for i := 0; i < 2+g.r.Intn(4); i++ {
			e.Names = append(e.Names, fmt.Sprintf("V%d_%d", g.n, i))
			e.Vals = append(e.Vals, vals[(i+g.n)%len(vals)])
		}
		f.Enums = append(f.Enums, e)
	}
	// constants: literals, constants naming other constants, enum-valued constants
	for k := g.r.Intn(5); k > 0; k-- {
		g.n++
		c := &TConst{Name: fmt.Sprintf("C%d", g.n), File: f}
		switch g.r.Intn(5) {
		case 0:
			c.T, c.Expr, c.Val = &TType{Kind: "i32"}, "12345", tref.Int32(12345)
		case 1:
			c.T, c.Expr, c.Val = &TType{Kind: "i64"}, "-9007199254740991", tref.Int64(-9007199254740991)
		case 2:
			c.T, c.Expr, c.Val = &TType{Kind: "string"}, `"const text"`, tref.Str("const text")
		case 3:
			// another constant of this file (second hop resolves only inside this file)
			var cs []*TConst
			for _, o := range f.Consts {
				if o.T.Kind == "i32" || o.T.Kind == "string" || o.T.Kind == "i64" {
					cs = append(cs, o)
				}
			}
			if len(cs) == 0 {
				c.T, c.Expr, c.Val = &TType{Kind: "i16"}, "77", &tref.Val{T: tref.I16, I: 77}
				break
			}
			o := cs[g.r.Intn(len(cs))]
			c.T, c.Expr, c.Val = &TType{Kind: o.T.Kind}, o.Name, o.Val.Clone()
		default:
			if len(f.Enums) == 0 {
				c.T, c.Expr, c.Val = &TType{Kind: "byte"}, "7", &tref.Val{T: tref.BYTE, I: 7}
				break
			}
			e := f.Enums[g.r.Intn(len(f.Enums))]
			i := g.r.Intn(len(e.Names))
			c.T, c.Expr, c.Val = &TType{Kind: "enum", E: e}, e.Name+"."+e.Names[i], &tref.Val{T: tref.I32, I: e.Vals[i]}
		}
		f.Consts = append(f.Consts, c)
	}
	return f
}

func (g *tgen) typedefs(f *TFile) {
	for k := g.r.Intn(4); k > 0; k-- {
		g.n++
		td := &TTypedef{Name: fmt.Sprintf("T%d", g.n), File: f}
		switch g.r.Intn(5) {
		case 0:
			td.T = &TType{Kind: tBuiltins[g.r.Intn(len(tBuiltins))]}
		case 1:
			td.T = &TType{Kind: "list", Elem: &TType{Kind: "string"}}
		case 2:
			ss := g.structsVisible(f, "struct")
			if len(ss) > 0 {
				td.T = &TType{Kind: "struct", S: ss[g.r.Intn(len(ss))]}
			} else {
				td.T = &TType{Kind: "i64"}
			}
		case 3:
			if len(f.Typedefs) > 0 { // typedef of a typedef
				td.T = &TType{Kind: "typedef", TD: f.Typedefs[g.r.Intn(len(f.Typedefs))]}
			} else {
				td.T = &TType{Kind: "binary"}
			}
		default:
			var es []*TEnum
			for _, v := range g.visible(f) {
				es = append(es, v.Enums...)
			}
			if len(es) > 0 {
				td.T = &TType{Kind: "enum", E: es[g.r.Intn(len(es))]}
			} else {
				td.T = &TType{Kind: "map", Key: &TType{Kind: "string"}, Elem: &TType{Kind: "double"}}
			}
		}
		f.Typedefs = append(f.Typedefs, td)
	}
}

// hashStruct: many equal-length keys over a tiny alphabet, so that no position separates them well
// and FieldNameMap.Build picks the open-addressing hash map instead of the trie.
func (g *tgen) hashStruct(f *TFile) *TStruct {
	g.n++
	st := &TStruct{Name: fmt.Sprintf("H%d", g.n), Kind: "struct", File: f}
	f.Structs = append(f.Structs, st)
	g.all = append(g.all, st)
	n := 41 + g.r.Intn(30)
	if g.r.Chance(25) {
		n += 60 + g.r.Intn(60) // long probe runs: look-alike names hash to neighbouring slots
	}
	alpha := []string{"a", "b", "c"}
	nonASCII := g.cfg.NonASCII && g.r.Bool()
	if nonASCII {
		alpha = []string{"é", "ü", "à"} // all 0xc3 0x??: bytes >= 0x80 on every position
	}
	// long names: some structs give (some of) their fields names far beyond any fixed-size hashing window,
	// alike over their first 70..110 bytes
	longPrefix := ""
	if g.r.Chance(30) {
		longPrefix = strings.Repeat(alpha[0], 70+g.r.Intn(40)/len(alpha[0]))
	}
	seen := map[string]bool{}
	for i := 0; i < n; i++ {
		var k string
		for {
			var sb strings.Builder
			if longPrefix != "" && i%2 == 0 {
				sb.WriteString(longPrefix)
			}
			for j := 0; j < 8; j++ {
				sb.WriteString(alpha[g.r.Intn(3)])
			}
			k = sb.String()
			if !seen[k] {
				break
			}
		}
		seen[k] = true
		fd := &TField{ID: int16(1 + i), T: &TType{Kind: []string{"i32", "string", "bool", "i64"}[g.r.Intn(4)]}, Req: ReqOptional}
		if nonASCII {
			fd.Name = fmt.Sprintf("h%d_%d", g.n, i)
			fd.Alias = k
		} else {
			fd.Name = k
		}
		st.Fields = append(st.Fields, fd)
	}
	return st
}

func baseSvcName(b *TService) string {
	if b == nil {
		return ""
	}
	return b.Name
}

const TBaseIDL = `namespace go base
struct TrafficEnv { 1: bool Open = false, 2: string Env = "" }
struct Base { 1: string LogID = "", 2: string Caller = "", 3: string Addr = "", 4: string Client = "", 5: optional TrafficEnv TrafficEnv, 6: optional map<string,string> Extra }
struct BaseResp { 1: string StatusMessage = "", 2: i32 StatusCode = 0, 3: optional map<string,string> Extra }
`

func GenTProgram(r *h.Rand, cfg TCfg) *TProgram {
	if cfg.MaxFields <= 0 {
		cfg.MaxFields = 6
	}
	g := &tgen{r: r, cfg: cfg, p: &TProgram{}}
	// files are created dependency-first; main is moved to the front afterwards
	var incs []*TFile
	paths := []string{"inc/dep.thrift", "other/util.thrift"}
	for i := 0; i < cfg.Includes && i < 2; i++ {
		var sub []*TFile
		if i == 1 && r.Bool() {
			sub = []*TFile{incs[0]} // util includes dep: two-hop include chain
		}
		f := g.newFile(paths[i], sub)
		for k := 1 + r.Intn(3); k > 0; k-- {
			g.newStruct(f, 1, "")
		}
		if r.Bool() {
			g.excs = append(g.excs, g.newStruct(f, 0, "exception"))
		}
		g.typedefs(f)
		incs = append(incs, f)
	}
	main := g.newFile("main.thrift", incs)
	g.p.Main = main
	for k := 1 + r.Intn(3); k > 0; k-- {
		g.newStruct(main, 2, "")
	}
	g.excs = append(g.excs, g.newStruct(main, 0, "exception"))
	g.typedefs(main)
	// a few more structs that may use main's typedefs
	g.newStruct(main, 1, "")
	if cfg.HashKeys {
		g.hashStruct(main)
	}
	// services: included files may carry a base service that main's services extend
	var baseSvc *TService
	fid := 0
	mkFuncs := func(f *TFile, n int) []*TFunc {
		var out []*TFunc
		for ; n > 0; n-- {
			fid++
			fn := &TFunc{Name: fmt.Sprintf("Call%d", fid), ArgID: int16(1 + r.Intn(3)), ArgName: []string{"req", "request", "arg"}[r.Intn(3)]}
			ss := g.structsVisible(f, "struct")
			fn.Arg = &TType{Kind: "struct", S: ss[r.Intn(len(ss))]}
			if r.Chance(15) {
				fn.Arg = g.genType(f, 1, false) // non-struct argument
			}
			switch x := r.Intn(10); {
			case x < 6:
				fn.Ret = &TType{Kind: "struct", S: ss[r.Intn(len(ss))]}
			case x < 8:
				fn.Ret = g.genType(f, 1, false)
			default:
				fn.Ret = nil
				fn.Oneway = r.Chance(30)
			}
			if !fn.Oneway && r.Chance(30) {
				es := g.structsVisible(f, "exception")
				if len(es) > 0 {
					fn.Exc = es[r.Intn(len(es))]
					fn.ExcID = int16(1 + r.Intn(5))
					fn.ExcName = []string{"err", "e", "ex"}[r.Intn(3)]
				}
			}
			out = append(out, fn)
		}
		return out
	}
	if len(incs) > 0 && r.Chance(60) {
		f := incs[r.Intn(len(incs))]
		baseSvc = &TService{Name: "BaseSvc", File: f, Funcs: mkFuncs(f, 1+r.Intn(2))}
		f.Services = append(f.Services, baseSvc)
	}
	for k := 0; k < 1+r.Intn(3); k++ {
		s := &TService{Name: fmt.Sprintf("Svc%c", 'A'+k), File: main, Funcs: mkFuncs(main, 1+r.Intn(3))}
		if baseSvc != nil && r.Bool() {
			s.Extends = baseSvc
			// service names are file scoped: a derived service may carry the name of its base in another file
			taken := false
			for _, o := range main.Services {
				taken = taken || o.Name == baseSvc.Name
			}
			if !taken && r.Chance(35) {
				s.Name = baseSvc.Name
			}
		} else if k > 0 && r.Chance(30) {
			s.Extends = main.Services[0] // same-file inheritance
		}
		if k > 0 && s.Name != baseSvcName(baseSvc) && r.Chance(25) {
			// names are case sensitive: svca / SVCA next to SvcA are services of their own
			prev := main.Services[r.Intn(len(main.Services))].Name
			cand := strings.ToLower(prev)
			if r.Bool() {
				cand = strings.ToUpper(prev)
			}
			taken := false
			for _, o := range main.Services {
				taken = taken || o.Name == cand
			}
			if !taken {
				s.Name = cand
			}
		}
		main.Services = append(main.Services, s)
	}
	// main first
	files := []*TFile{main}
	for _, f := range g.p.Files {
		if f != main {
			files = append(files, f)
		}
	}
	g.p.Files = files
	return g.p
}

// AllFuncs returns the functions of s including inherited ones.
func (s *TService) AllFuncs() []*TFunc {
	out := append([]*TFunc{}, s.Funcs...)
	if s.Extends != nil {
		out = append(out, s.Extends.AllFuncs()...)
	}
	return out
}
