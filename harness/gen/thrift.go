// Package gen holds the deterministic workload generators: Thrift schemas,
// conforming values, IDL text.
package gen

import (
	"fmt"
	"math"
	"sort"
	"strings"

	"verifharness/h"
	"verifharness/tref"
)

const (
	ReqDefault  = 0
	ReqRequired = 1
	ReqOptional = 2
)

type Type struct {
	T    byte
	Bin  bool   // STRING declared as "binary"
	TD   string // when set, the type is spelled through `typedef <base> <TD>`
	Elem *Type
	Key  *Type
	S    *StructT
}

type FieldT struct {
	ID    int16
	Name  string
	Alias string // api.key value, "" if none
	GoTag int    // when > 0 the alias is spelled through go.tag='json:"..."' (variant 1..3) instead of api.key
	T     *Type
	Req   int
	// Default, when non-nil, is the declared IDL default (scalar / string only).
	Default *tref.Val
	Annos   []string // extra raw annotations, e.g. `api.js_conv=""`
}

type StructT struct {
	Name   string
	Fields []*FieldT
}

func (s *StructT) Field(id int16) *FieldT {
	for _, f := range s.Fields {
		if f.ID == id {
			return f
		}
	}
	return nil
}
func (s *StructT) FieldByName(n string) *FieldT {
	for _, f := range s.Fields {
		if f.Name == n {
			return f
		}
	}
	return nil
}

type Schema struct {
	Structs []*StructT
	Root    *StructT
	// ExtraRoots get methods M1, M2, ... (request and response type = the root).
	ExtraRoots []*StructT
}

func (t *Type) String() string {
	if t.TD != "" {
		return t.TD
	}
	return t.base()
}

func (t *Type) base() string {
	switch t.T {
	case tref.BOOL:
		return "bool"
	case tref.BYTE:
		return "byte"
	case tref.I16:
		return "i16"
	case tref.I32:
		return "i32"
	case tref.I64:
		return "i64"
	case tref.DOUBLE:
		return "double"
	case tref.STRING:
		if t.Bin {
			return "binary"
		}
		return "string"
	case tref.STRUCT:
		return t.S.Name
	case tref.LIST:
		return "list<" + t.Elem.String() + ">"
	case tref.SET:
		return "set<" + t.Elem.String() + ">"
	case tref.MAP:
		return "map<" + t.Key.String() + "," + t.Elem.String() + ">"
	}
	return "?"
}

func idlDefault(v *tref.Val) string {
	switch v.T {
	case tref.BOOL:
		if v.B {
			return "true"
		}
		return "false"
	case tref.BYTE, tref.I16, tref.I32, tref.I64:
		return fmt.Sprint(v.I)
	case tref.DOUBLE:
		s := fmt.Sprintf("%v", v.F)
		if !strings.ContainsAny(s, ".e") {
			s += ".0"
		}
		return s
	case tref.STRING:
		if s := string(v.S); strings.Contains(s, `"`) && !strings.ContainsAny(s, "'\\") {
			return "'" + s + "'" // a literal with double quotes inside is written in single quotes
		}
		return fmt.Sprintf("%q", string(v.S))
	}
	return ""
}

// IDL renders the schema with a service whose method M takes and returns Root.
func (s *Schema) IDL() string {
	var sb strings.Builder
	sb.WriteString("namespace go verif\n\n")
	tds := map[string]string{}
	var collect func(t *Type)
	collect = func(t *Type) {
		if t == nil {
			return
		}
		if t.TD != "" {
			tds[t.TD] = t.base()
		}
		collect(t.Elem)
		collect(t.Key)
	}
	for _, st := range s.Structs {
		for _, f := range st.Fields {
			collect(f.T)
		}
	}
	var tdn []string
	for n := range tds {
		tdn = append(tdn, n)
	}
	sort.Strings(tdn)
	for _, n := range tdn {
		fmt.Fprintf(&sb, "typedef %s %s\n", tds[n], n)
	}
	if len(tdn) > 0 {
		sb.WriteString("\n")
	}
	for _, st := range s.Structs {
		fmt.Fprintf(&sb, "struct %s {\n", st.Name)
		for _, f := range st.Fields {
			req := ""
			switch f.Req {
			case ReqRequired:
				req = "required "
			case ReqOptional:
				req = "optional "
			}
			fmt.Fprintf(&sb, "  %d: %s%s %s", f.ID, req, f.T.String(), f.Name)
			if f.Default != nil {
				fmt.Fprintf(&sb, " = %s", idlDefault(f.Default))
			}
			var an []string
			if f.Alias != "" {
				switch f.GoTag {
				case 1:
					an = append(an, fmt.Sprintf(`go.tag='json:"%s"'`, f.Alias))
				case 2:
					an = append(an, fmt.Sprintf(`go.tag='json:"%s,omitempty"'`, f.Alias))
				case 3:
					an = append(an, fmt.Sprintf(`go.tag='protobuf:"bytes,1,opt,name=x" json:"%s,string"'`, f.Alias))
				default:
					// IDL literals are taken as they are (no escape processing): choose the quote the alias lacks
					if strings.Contains(f.Alias, `"`) {
						an = append(an, "api.key='"+f.Alias+"'")
					} else {
						an = append(an, `api.key="`+f.Alias+`"`)
					}
				}
			}
			an = append(an, f.Annos...)
			if len(an) > 0 {
				fmt.Fprintf(&sb, " (%s)", strings.Join(an, ", "))
			}
			sb.WriteString(",\n")
		}
		sb.WriteString("}\n\n")
	}
	sb.WriteString("service Svc {\n")
	fmt.Fprintf(&sb, "  %s M(1: %s req),\n", s.Root.Name, s.Root.Name)
	for i, r := range s.ExtraRoots {
		fmt.Fprintf(&sb, "  %s M%d(1: %s req),\n", r.Name, i+1, r.Name)
	}
	sb.WriteString("}\n")
	return sb.String()
}

// Cfg bounds schema generation.
type Cfg struct {
	MaxDepth     int  // container/struct nesting below root
	MaxFields    int  // per struct
	StructKeys   bool // allow struct / double map keys
	Recursive    bool // allow self-referencing optional fields
	Defaults     bool // emit IDL defaults on some scalar fields
	SharedNames  bool // field names recur in different structs (with unrelated ids)
	Requiredness bool // mix required/optional/default; else all default-requiredness... (optional for recursive)
	BigIDs       bool // ids from {255..257, 32767, random}
	Aliases      bool // api.key aliases on some fields
	NoBinary     bool // never declare binary
	NoSet        bool
	Typedefs     bool // spell some scalar types through typedefs (incl. aliases of binary and of string)
}

var scalarTypes = []byte{tref.BOOL, tref.BYTE, tref.I16, tref.I32, tref.I64, tref.DOUBLE, tref.STRING}

type sgen struct {
	r   *h.Rand
	cfg Cfg
	sc  *Schema
	n   int
}

func (g *sgen) scalar() *Type {
	t := scalarTypes[g.r.Intn(len(scalarTypes))]
	ty := &Type{T: t}
	if t == tref.STRING && !g.cfg.NoBinary && g.r.Chance(25) {
		ty.Bin = true
	}
	if g.cfg.Typedefs && g.r.Chance(30) {
		switch {
		case ty.Bin:
			ty.TD = []string{"Blob", "binaryAlias"}[g.r.Intn(2)]
		case t == tref.STRING:
			// an alias of string whose name begins like the build-in binary type
			ty.TD = []string{"Text", "binary_label"}[g.r.Intn(2)]
		case t == tref.I64:
			ty.TD = "UserID"
		case t == tref.I32:
			ty.TD = "Count"
		case t == tref.DOUBLE:
			ty.TD = "Ratio"
		}
	}
	return ty
}

func (g *sgen) keyType(depth int) *Type {
	ks := []byte{tref.STRING, tref.STRING, tref.BYTE, tref.I16, tref.I32, tref.I64}
	if g.cfg.StructKeys && g.r.Chance(15) {
		if g.r.Bool() {
			return &Type{T: tref.DOUBLE}
		}
		if depth > 0 {
			return &Type{T: tref.STRUCT, S: g.newStruct(0)}
		}
	}
	kt := &Type{T: ks[g.r.Intn(len(ks))]}
	if kt.T == tref.STRING && !g.cfg.NoBinary && g.cfg.Typedefs && g.r.Chance(25) {
		kt.Bin = true // map<binary, V>: the key text travels verbatim in JSON (no base64 for keys)
	}
	return kt
}

func (g *sgen) typ(depth int) *Type {
	if depth <= 0 || g.r.Chance(45) {
		return g.scalar()
	}
	switch g.r.Intn(5) {
	case 0:
		return &Type{T: tref.STRUCT, S: g.newStruct(depth - 1)}
	case 1:
		return &Type{T: tref.LIST, Elem: g.typ(depth - 1)}
	case 2:
		if g.cfg.NoSet {
			return &Type{T: tref.LIST, Elem: g.typ(depth - 1)}
		}
		// sets of scalars / strings only keep "distinct elements" easy to guarantee
		return &Type{T: tref.SET, Elem: g.scalarNoBoolDouble()}
	case 3:
		return &Type{T: tref.MAP, Key: g.keyType(depth - 1), Elem: g.typ(depth - 1)}
	default:
		if len(g.sc.Structs) > 0 && g.r.Bool() {
			// reuse an already defined struct (shared sub-descriptor)
			return &Type{T: tref.STRUCT, S: g.sc.Structs[g.r.Intn(len(g.sc.Structs))]}
		}
		return &Type{T: tref.STRUCT, S: g.newStruct(depth - 1)}
	}
}

func (g *sgen) scalarNoBoolDouble() *Type {
	ts := []byte{tref.BYTE, tref.I16, tref.I32, tref.I64, tref.STRING}
	return &Type{T: ts[g.r.Intn(len(ts))]}
}

var idPool = []int16{1, 2, 3, 4, 5, 6, 7, 8, 9, 10, 11, 12}

func (g *sgen) newStruct(depth int) *StructT {
	g.n++
	sn := g.n
	st := &StructT{Name: fmt.Sprintf("S%d", sn)}
	nf := 1 + g.r.Intn(g.cfg.MaxFields)
	used := map[int16]bool{}
	for i := 0; i < nf; i++ {
		var id int16
		for {
			if g.cfg.BigIDs && g.r.Chance(25) {
				c := []int16{255, 256, 257, 63, 64, 65, 127, 128, 32767, 1000, int16(1 + g.r.Intn(32766))}
				id = c[g.r.Intn(len(c))]
			} else {
				id = int16(1 + g.r.Intn(16))
			}
			if !used[id] {
				break
			}
		}
		used[id] = true
		f := &FieldT{ID: id, Name: fmt.Sprintf("f%d_%d", sn, i)}
		if g.cfg.SharedNames && g.r.Chance(40) {
			f.Name = fmt.Sprintf("sh_%d", i) // the same name in several structs, under different ids
		}
		if g.cfg.Recursive && depth > 0 && g.r.Chance(8) {
			f.T = &Type{T: tref.STRUCT, S: st}
			f.Req = ReqOptional
			if g.r.Bool() {
				f.T = &Type{T: tref.LIST, Elem: &Type{T: tref.STRUCT, S: st}}
			}
		} else {
			f.T = g.typ(depth)
			if g.cfg.Requiredness {
				f.Req = g.r.Intn(3)
			}
		}
		if g.cfg.Aliases && g.r.Chance(25) {
			// aliases exercise bytes below '.' (which wrap in the name trie), spaces and upper case
			pats := []string{"k%d_%d", "k%d_%d", "k-%d-%d", "k %d.%d", "+k%d%d", "k$%d,%d", "K%d_%d", "-%d%d", "k%d-%d",
				// member names that need JSON escaping: quote, backslash, control character
				"k\"%d_%d", "k\\%d_%d", "k\t%d_%d", "k'%d_%d"}
			f.Alias = fmt.Sprintf(pats[g.r.Intn(len(pats))], sn, i)
			if !strings.ContainsAny(f.Alias, ",\"\\'") && g.r.Chance(35) {
				f.GoTag = 1 + g.r.Intn(3)
			}
		}
		if g.cfg.Defaults && g.r.Chance(35) && f.T.T != tref.STRUCT && f.T.T != tref.LIST && f.T.T != tref.SET && f.T.T != tref.MAP && !f.T.Bin {
			f.Default = defaultFor(g.r, f.T)
		}
		st.Fields = append(st.Fields, f)
	}
	if g.r.Bool() {
		sort.Slice(st.Fields, func(i, j int) bool { return st.Fields[i].ID < st.Fields[j].ID })
	}
	g.sc.Structs = append(g.sc.Structs, st)
	return st
}

func defaultFor(r *h.Rand, t *Type) *tref.Val {
	if r.Chance(25) {
		// the ends of the type's range (and their neighbours)
		pick := func(min, max int64) int64 { return []int64{min, max, min + 1, max - 1, 0, -1}[r.Intn(6)] }
		switch t.T {
		case tref.BYTE:
			return tref.Byte(int8(pick(math.MinInt8, math.MaxInt8)))
		case tref.I16:
			return tref.Int16(int16(pick(math.MinInt16, math.MaxInt16)))
		case tref.I32:
			return tref.Int32(int32(pick(math.MinInt32, math.MaxInt32)))
		case tref.I64:
			return tref.Int64(pick(math.MinInt64, math.MaxInt64))
		}
	}
	switch t.T {
	case tref.BOOL:
		return tref.Bool(true)
	case tref.BYTE:
		return tref.Byte(int8(r.Range(-100, 100)))
	case tref.I16:
		return tref.Int16(int16(r.Range(-30000, 30000)))
	case tref.I32:
		return tref.Int32(int32(r.Range(-1000000, 1000000)))
	case tref.I64:
		return tref.Int64(int64(r.Range(-1000000, 1000000)) * 1000003)
	case tref.DOUBLE:
		return tref.Double(float64(r.Range(-1000, 1000)) + 0.5)
	case tref.STRING:
		return tref.Str(fmt.Sprintf("dflt%d", r.Intn(1000)))
	}
	return nil
}

// GenSchema generates a schema; structs are emitted so that a struct is
// defined before the struct that uses it (except recursive self references).
func GenSchema(r *h.Rand, cfg Cfg) *Schema {
	g := &sgen{r: r, cfg: cfg, sc: &Schema{}}
	if cfg.MaxFields <= 0 {
		g.cfg.MaxFields = 6
	}
	root := g.newStruct(cfg.MaxDepth)
	g.sc.Root = root
	return g.sc
}

// ---------------------------------------------------------------- values ----

var i64Bounds = []int64{0, 1, -1, 2, -2, 127, 128, -128, -129, 255, 256, 32767, 32768, -32768, -32769, 65535, 65536,
	math.MaxInt32, math.MaxInt32 + 1, math.MinInt32, math.MinInt32 - 1, math.MaxUint32, 1 << 53, 1<<53 + 1, -(1 << 53) - 1,
	math.MaxInt64, math.MinInt64, math.MaxInt64 - 1, math.MinInt64 + 1, 1000000007, 9007199254740993}

var f64Specials = []uint64{
	0x0000000000000000, 0x8000000000000000, // +-0
	0x0000000000000001, 0x000fffffffffffff, // subnormals
	0x0010000000000000, 0x7fefffffffffffff, 0xffefffffffffffff, // min normal, max
	0x3ff0000000000000, 0xbff0000000000000, 0x3fb999999999999a, 0x4340000000000000, 0x4340000000000001,
	0x3fd5555555555555, 0x400921fb54442d18, 0x7e37e43c8800759c, 0x01a56e1fc2f8f359,
}

// ValCfg steers value generation.
type ValCfg struct {
	NonFinite   bool // allow NaN/Inf doubles
	InvalidUTF8 bool // allow invalid UTF-8 in strings
	BinKeys     bool // string/binary map keys may be arbitrary bytes too (readers only: no JSON spelling)
	MaxElems    int
	MaxStr      int
	AllFields   bool // every struct field present
	ShuffleFlds bool // struct fields in random wire order
	PlainStr    bool // strings restricted to printable ASCII without escapes
	NegByteKeys bool // allow negative byte map keys (only where the key's denotation is well defined, e.g. JSON)
}

func GenInt(r *h.Rand, t byte) int64 {
	var v int64
	if r.Chance(40) {
		v = i64Bounds[r.Intn(len(i64Bounds))]
	} else {
		switch r.Intn(4) {
		case 0:
			v = int64(r.Intn(200)) - 100
		case 1:
			v = int64(int32(r.U64()))
		default:
			v = int64(r.U64())
			v >>= uint(r.Intn(64))
		}
	}
	switch t {
	case tref.BYTE:
		return int64(int8(v))
	case tref.I16:
		return int64(int16(v))
	case tref.I32:
		return int64(int32(v))
	}
	return v
}

func GenDouble(r *h.Rand, nonFinite bool) float64 {
	for {
		var bits uint64
		switch r.Intn(5) {
		case 0:
			bits = f64Specials[r.Intn(len(f64Specials))]
		case 1:
			return float64(int64(r.Intn(2001)-1000)) / float64([]int{1, 2, 4, 10, 100, 1000, 3}[r.Intn(7)])
		case 2:
			return float64(GenInt(r, tref.I64))
		default:
			bits = r.U64()
			if r.Bool() {
				// exponent near 1.0
				bits = bits&0x800fffffffffffff | uint64(1023-60+r.Intn(120))<<52
			}
		}
		f := math.Float64frombits(bits)
		if !nonFinite && (math.IsNaN(f) || math.IsInf(f, 0)) {
			continue
		}
		return f
	}
}

func GenNonFinite(r *h.Rand) float64 {
	switch r.Intn(4) {
	case 0:
		return math.Inf(1)
	case 1:
		return math.Inf(-1)
	case 2:
		return math.NaN()
	}
	return math.Float64frombits(0x7ff0000000000001 | r.U64()&0x800fffffffffffff)
}

var strLens = []int{0, 0, 1, 2, 3, 5, 7, 8, 15, 16, 17, 31, 32, 33, 63, 64, 65}
var bigStrLens = []int{127, 128, 129, 255, 256, 1000, 4095, 4096, 4097}

var escAlphabet = []string{"\"", "\\", "/", "\b", "\f", "\n", "\r", "\t", "\x00", "\x01", "\x1f", "\x7f", " ", "a", "Z", "0", "\v", "\x0e", "\x1b", "\x10",
	"\u00e9", "\u00df", "\u20ac", "\u4e2d", "\u2028", "\u2029", "\U0001f600", "\U0001d11e", "\ufffd", "<", ">", "&", "'", "\u00a0", "\uffff", "\U0010ffff"}

func GenStr(r *h.Rand, cfg ValCfg) []byte {
	n := strLens[r.Intn(len(strLens))]
	if r.Chance(6) {
		n = bigStrLens[r.Intn(len(bigStrLens))]
	}
	if cfg.MaxStr > 0 && n > cfg.MaxStr {
		n = r.Intn(cfg.MaxStr + 1)
	}
	var b []byte
	mode := r.Intn(4)
	if cfg.PlainStr {
		mode = 0
	}
	for len(b) < n {
		switch mode {
		case 0:
			b = append(b, byte('a'+r.Intn(26)))
		case 1:
			b = append(b, escAlphabet[r.Intn(len(escAlphabet))]...)
		case 2:
			if r.Chance(15) {
				b = append(b, escAlphabet[r.Intn(len(escAlphabet))]...)
			} else {
				b = append(b, byte('a'+r.Intn(26)))
			}
		default:
			if cfg.InvalidUTF8 {
				b = append(b, byte(r.U64()))
			} else {
				b = append(b, byte(32+r.Intn(95)))
			}
		}
	}
	if len(b) > n && mode != 3 {
		// trim at a rune boundary
		for len(b) > n {
			i := len(b) - 1
			for i > 0 && b[i]&0xc0 == 0x80 {
				i--
			}
			b = b[:i]
		}
	}
	if cfg.InvalidUTF8 && r.Chance(10) && len(b) > 0 {
		b[r.Intn(len(b))] = []byte{0xff, 0xc0, 0x80, 0xed, 0xf8}[r.Intn(5)]
	}
	return b
}

var elemCounts = []int{0, 0, 1, 1, 2, 2, 3, 4, 5, 8, 16, 17, 33}

func nElems(r *h.Rand, cfg ValCfg, depth int) int {
	n := elemCounts[r.Intn(len(elemCounts))]
	if depth > 1 && n > 4 {
		n = r.Intn(4)
	}
	if cfg.MaxElems > 0 && n > cfg.MaxElems {
		n = r.Intn(cfg.MaxElems + 1)
	}
	return n
}

// GenVal generates a value conforming to t.
func GenVal(r *h.Rand, t *Type, cfg ValCfg, depth int) *tref.Val {
	switch t.T {
	case tref.BOOL:
		return tref.Bool(r.Bool())
	case tref.BYTE, tref.I16, tref.I32, tref.I64:
		return &tref.Val{T: t.T, I: GenInt(r, t.T)}
	case tref.DOUBLE:
		if cfg.NonFinite && r.Chance(10) {
			return tref.Double(GenNonFinite(r))
		}
		return tref.Double(GenDouble(r, false))
	case tref.STRING:
		c := cfg
		if t.Bin {
			c.InvalidUTF8 = true
			c.PlainStr = false
		}
		if t.Bin && r.Bool() {
			n := strLens[r.Intn(len(strLens))]
			return &tref.Val{T: tref.STRING, S: r.Bytes(n)}
		}
		return &tref.Val{T: tref.STRING, S: GenStr(r, c)}
	case tref.LIST:
		n := nElems(r, cfg, depth)
		v := &tref.Val{T: tref.LIST, ET: t.Elem.T}
		for i := 0; i < n; i++ {
			v.L = append(v.L, GenVal(r, t.Elem, cfg, depth+1))
		}
		return v
	case tref.SET:
		n := nElems(r, cfg, depth)
		v := &tref.Val{T: tref.SET, ET: t.Elem.T}
		seen := map[string]bool{}
		for i := 0; i < n; i++ {
			e := GenVal(r, t.Elem, cfg, depth+1)
			k := string(tref.Encode(e))
			if seen[k] {
				continue
			}
			seen[k] = true
			v.L = append(v.L, e)
		}
		return v
	case tref.MAP:
		n := nElems(r, cfg, depth)
		v := &tref.Val{T: tref.MAP, KT: t.Key.T, ET: t.Elem.T}
		seen := map[string]bool{}
		for i := 0; i < n; i++ {
			kc := cfg
			kc.InvalidUTF8 = cfg.InvalidUTF8 && cfg.BinKeys
			kc.NonFinite = false
			if kc.MaxStr == 0 || kc.MaxStr > 40 {
				kc.MaxStr = 40
			}
			kt := t.Key
			if kt.T == tref.STRING && kt.Bin && !cfg.BinKeys {
				// binary map keys travel verbatim as JSON member names: text, not arbitrary bytes
				kt = &Type{T: tref.STRING}
			}
			k := GenVal(r, kt, kc, depth+1)
			if k.T == tref.BYTE && k.I < 0 && !cfg.NegByteKeys {
				// an int derived from a BYTE is unsigned in dynamicgo (pinned by the repo's TestCastInt8),
				// so negative byte keys have no single int denotation: keep byte keys in 0..127
				k.I = -(k.I + 1)
			}
			if k.T == tref.DOUBLE && k.F == 0 {
				k.F = 0 // +0 and -0 are one key in a Go map: keep only +0
			}
			ks := string(tref.Encode(k))
			if seen[ks] {
				continue
			}
			seen[ks] = true
			v.K = append(v.K, k)
			v.L = append(v.L, GenVal(r, t.Elem, cfg, depth+1))
		}
		return v
	case tref.STRUCT:
		v := &tref.Val{T: tref.STRUCT}
		for _, f := range t.S.Fields {
			present := cfg.AllFields || f.Req == ReqRequired || r.Chance(75)
			if f.T.T == tref.STRUCT && depth > 5 && f.Req != ReqRequired {
				present = false
			}
			if (f.T.T == tref.LIST) && f.T.Elem.T == tref.STRUCT && f.T.Elem.S == t.S && depth > 3 {
				present = false
			}
			if f.T.T == tref.STRUCT && f.T.S == t.S && (depth > 3 || r.Chance(50)) {
				present = false
			}
			if !present {
				continue
			}
			v.Fs = append(v.Fs, tref.Field{ID: f.ID, V: GenVal(r, f.T, cfg, depth+1)})
		}
		if cfg.ShuffleFlds {
			for i := len(v.Fs) - 1; i > 0; i-- {
				j := r.Intn(i + 1)
				v.Fs[i], v.Fs[j] = v.Fs[j], v.Fs[i]
			}
		}
		return v
	}
	panic("gen: bad type")
}
