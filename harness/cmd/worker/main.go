package main

import (
	"verifharness/h"
	_ "verifharness/props"
)

func main() { h.Main() }
