package main

import (
	"context"
	"encoding/hex"
	"fmt"

	dproto "github.com/cloudwego/dynamicgo/proto"
	pg "github.com/cloudwego/dynamicgo/proto/generic"
)

const text = `syntax = "proto3";
option go_package = "verif/pb";
message M1 {
  sint32 f_1_0 = 5;
  float f_1_1 = 9;
  fixed64 f_1_2 = 4;
  repeated .M2 f_1_3 = 13;
  sfixed64 f_2_4 = 1;
}
message M2 {
  sint64 f_2_0 = 14;
  int32 f_2_1 = 16;
}
service Svc { rpc M(.M1) returns (.M1); }
`

func main() {
	svc, err := dproto.NewDescritorFromContent(context.Background(), "a.proto", text, nil)
	if err != nil {
		panic(err)
	}
	desc := svc.LookupMethodByName("M").Input()
	b, _ := hex.DecodeString("09ff0000000000000021882800000000000028e7a2164dbbe9a7ef6a078001d9f7f2ec066a006a0c8001e09ef2eff8ffffffff016a1070f88605800181ffffffffffffffff01")
	root := pg.NewRootValue(desc, b)
	path := []pg.Path{pg.NewPathFieldId(13), pg.NewPathIndex(3), pg.NewPathFieldId(14)}
	v, addr := root.GetByPathWithAddress(path...)
	fmt.Println(v.IsError(), v.Error(), addr)
	fmt.Println(hex.EncodeToString(b[28:]))
	ex, e := root.SetByPath(pg.NewNodeSint64(-885073302), path...)
	fmt.Println(ex, e, hex.EncodeToString(root.Raw()[28:]))
}
