package main

import (
	"context"
	"fmt"

	"github.com/cloudwego/dynamicgo/conv"
	"github.com/cloudwego/dynamicgo/conv/j2t"
	"github.com/cloudwego/dynamicgo/thrift"
)

const idl = `namespace go verif
struct S1 { 1: list<string> l, 2: i32 n, 3: string s, 4: map<string,i32> m, 5: double d, 6: list<i32> li }
service Svc { S1 M(1: S1 req), }
`

func main() {
	svc, err := thrift.NewDefaultOptions().NewDescritorFromContent(context.Background(), "a.thrift", idl, nil, false)
	if err != nil {
		panic(err)
	}
	fn, _ := svc.LookupFunctionByMethod("M")
	desc := fn.Request().Struct().FieldById(1).Type()
	for _, doc := range []string{
`{"s":"a"}`,
`{"s":"abc"}`,
`{"l":["ab","c"]}`,
`{"l":["xa", "c"]}`,
`{"l":["xa" ,"c"]}`,
`{"l":["a" , "c"]}`,
`{"s":"\n"}`,
`{"s":"𝄞"}`,
`{"s":"a\/b"}`,
`{"n":1}`,
`{"s":"a"  }`,
`{"m":{"a":1}}`,
`{"m":{"ab" : 1 , "c":2}}`,
	} {
		func() {
			defer func() {
				if r := recover(); r != nil {
					fmt.Println("PANIC:", fmt.Sprint(r)[:80])
				}
			}()
			cv := j2t.NewBinaryConv(conv.Options{})
			out, err := cv.Do(context.Background(), desc, []byte(doc))
			es := ""
			if err != nil {
				es = "ERR"
			}
			fmt.Printf("%-30q -> %x %s\n", doc, out, es)
		}()
	}
}
