package props

import (
	"bytes"
	"fmt"
	"math"
	"reflect"

	"github.com/cloudwego/dynamicgo/thrift"
	"github.com/cloudwego/dynamicgo/thrift/generic"

	"verifharness/gen"
	"verifharness/h"
	"verifharness/tref"
)

func init() { h.Register("C01", runC01) }

// nref is one addressable node of a model value.
type nref struct {
	m      *tref.Val
	t      *gen.Type // may be nil below unknown territory
	parent *nref
	path   []generic.Path // id-addressed
	npath  []generic.Path // name-addressed where a struct field is crossed
	step   generic.Path   // last path element
	nstep  generic.Path
	depth  int
	pos    int // position inside the parent container
	key    *tref.Val
	named  bool // npath differs from path
}

func keyPath(k *tref.Val) generic.Path {
	switch k.T {
	case tref.STRING:
		return generic.NewPathStrKey(string(k.S))
	case tref.BYTE, tref.I16, tref.I32, tref.I64:
		return generic.NewPathIntKey(int(k.I))
	}
	return generic.NewPathBinKey(tref.Encode(k.Clone()))
}

func enumNodes(v *tref.Val, t *gen.Type) []*nref {
	var out []*nref
	var rec func(n *nref)
	rec = func(n *nref) {
		out = append(out, n)
		add := func(c *tref.Val, ct *gen.Type, step, nstep generic.Path, pos int, key *tref.Val) {
			ch := &nref{m: c, t: ct, parent: n, step: step, nstep: nstep, depth: n.depth + 1, pos: pos, key: key}
			ch.path = append(append([]generic.Path{}, n.path...), step)
			ch.npath = append(append([]generic.Path{}, n.npath...), nstep)
			ch.named = n.named || step.Type() != nstep.Type()
			rec(ch)
		}
		switch n.m.T {
		case tref.STRUCT:
			for i, f := range n.m.Fs {
				step := generic.NewPathFieldId(thrift.FieldID(f.ID))
				nstep := step
				var ft *gen.Type
				if n.t != nil && n.t.S != nil {
					if fd := n.t.S.Field(f.ID); fd != nil {
						ft = fd.T
						nstep = generic.NewPathFieldName(fd.Name)
					}
				}
				add(f.V, ft, step, nstep, i, nil)
			}
		case tref.LIST, tref.SET:
			var et *gen.Type
			if n.t != nil {
				et = n.t.Elem
			}
			for i, e := range n.m.L {
				p := generic.NewPathIndex(i)
				add(e, et, p, p, i, nil)
			}
		case tref.MAP:
			var et *gen.Type
			if n.t != nil {
				et = n.t.Elem
			}
			for i, e := range n.m.L {
				p := keyPath(n.m.K[i])
				add(e, et, p, p, i, n.m.K[i])
			}
		}
	}
	rec(&nref{m: v, t: t})
	return out
}

func isContainer(t byte) bool {
	return t == tref.LIST || t == tref.SET || t == tref.MAP || t == tref.STRUCT
}

// checkNode compares a returned node with the model element: type, span, value.
func checkNode(cs *h.Case, api string, base []byte, n generic.Node, m *tref.Val) bool {
	if n.IsError() {
		cs.Viol("read:"+api+":error-on-present", "err", n.Error(), "model", m.String(), "span", fmt.Sprint(m.Start, m.End))
		return false
	}
	if byte(n.Type()) != m.T {
		cs.Viol("read:"+api+":type", "got", int(n.Type()), "want", int(m.T), "model", m.String())
		return false
	}
	raw := n.Raw()
	off := h.Off(base, raw)
	if m.End > m.Start && (off != m.Start || len(raw) != m.End-m.Start) {
		cs.Viol("read:"+api+":span", "got-off", off, "got-len", len(raw), "want-off", m.Start, "want-len", m.End-m.Start, "model", m.String())
		return false
	}
	ok := true
	switch m.T {
	case tref.BOOL:
		v, e := n.Bool()
		ok = e == nil && v == m.B
	case tref.BYTE:
		v, e := n.Byte()
		ok = e == nil && int8(v) == int8(m.I)
		if ok {
			i, e := n.Int()
			ok = e == nil && i == int(uint8(m.I)) // unsigned by the repo's own TestCastInt8
			if !ok {
				cs.Viol("read:"+api+":value:Int-of-BYTE", "got", i, "want", m.I)
				return false
			}
		}
	case tref.I16, tref.I32, tref.I64:
		v, e := n.Int()
		ok = e == nil && int64(v) == m.I
	case tref.DOUBLE:
		v, e := n.Float64()
		ok = e == nil && math.Float64bits(v) == math.Float64bits(m.F)
	case tref.STRING:
		v, e := n.String()
		b, e2 := n.Binary()
		ok = e == nil && e2 == nil && v == string(m.S) && bytes.Equal(b, m.S)
	case tref.LIST, tref.SET:
		l, e := n.Len()
		ok = e == nil && l == len(m.L) && byte(n.ElemType()) == m.ET
	case tref.MAP:
		l, e := n.Len()
		ok = e == nil && l == len(m.L) && byte(n.ElemType()) == m.ET && byte(n.KeyType()) == m.KT
	}
	if !ok {
		cs.Viol("read:"+api+":value", "model", m.String(), "node-type", int(n.Type()), "et", int(n.ElemType()), "kt", int(n.KeyType()))
	}
	return ok
}

func pathStr(p []generic.Path) string {
	s := ""
	for _, x := range p {
		s += "/" + x.String()
	}
	return s
}

func pathEq(a, b generic.Path) bool {
	if a.Type() != b.Type() {
		return false
	}
	switch a.Type() {
	case generic.PathFieldId:
		return a.Id() == b.Id()
	case generic.PathFieldName, generic.PathStrKey:
		return a.Str() == b.Str()
	case generic.PathIndex, generic.PathIntKey:
		return a.Int() == b.Int()
	case generic.PathBinKey:
		return bytes.Equal(a.Bin(), b.Bin())
	}
	return false
}

func children(n *nref, all []*nref) []*nref {
	var out []*nref
	for _, c := range all {
		if c.parent == n {
			out = append(out, c)
		}
	}
	return out
}

func c01Schema(cs *h.Case) (*gen.Schema, *tref.Val) {
	depth := 3
	if cs.R.Chance(25) {
		depth = 4
	}
	sc := gen.GenSchema(cs.R, gen.Cfg{MaxDepth: depth, MaxFields: 6, StructKeys: true, BigIDs: true, Recursive: true, Requiredness: cs.R.Bool(), SharedNames: cs.R.Bool()})
	v := gen.GenVal(cs.R, structType(sc.Root), gen.ValCfg{NonFinite: true, InvalidUTF8: true, BinKeys: true, ShuffleFlds: cs.R.Chance(60), MaxElems: 0}, 0)
	return sc, v
}

// c01RootContainers: a list, set or map taken out of a message is the root value itself
// (generic.NewNode(LIST|SET|MAP, bytes) / generic.NewValue(<field type descriptor>, bytes)): path lookups start
// with an index or a key, and the whole-value conversions run on a container root.
func c01RootContainers(c *h.Ctx) {
	c.Run("root-containers", c.N(2000, 50000), func(cs *h.Case) {
		sc, v := c01Schema(cs)
		root := structType(sc.Root)
		cs.Info("idl", sc.IDL())
		desc, _, err := ParseRoot(sc, thrift.NewDefaultOptions())
		if err != nil {
			cs.Viol("read:parse-idl", "err", err)
			return
		}
		var cand []tref.Field
		for _, f := range v.Fs {
			if f.V.T == tref.LIST || f.V.T == tref.SET || f.V.T == tref.MAP {
				cand = append(cand, f)
			}
		}
		if len(cand) == 0 {
			cs.Cover("root_containers_none")
			return
		}
		f := cand[cs.R.Intn(len(cand))]
		ft := root.S.Field(f.ID)
		fd := desc.Struct().FieldById(thrift.FieldID(f.ID))
		if ft == nil || fd == nil {
			return
		}
		x := f.V.Clone()
		b := tref.Encode(x)
		cs.Info("container", trunc(x.String()))
		cs.Info("bytes", hexs(b))
		optBits := cs.R.Intn(8)
		opts := &generic.Options{UseNativeSkip: optBits&1 != 0, MapStructById: optBits&2 != 0, CastStringAsBinary: optBits&4 != 0}
		generic.UseNativeSkipForGet = cs.R.Bool()
		defer func() { generic.UseNativeSkipForGet = false }()
		tr := h.TrapCopy(b, cs.R.Bool(), true)
		defer tr.Free()
		base := tr.B
		rootNode := generic.NewNode(thrift.Type(x.T), base)
		rootVal := generic.NewValue(fd.Type(), base)
		nodes := enumNodes(x, ft.T)
		if len(nodes) > 200 {
			nodes = nodes[:200]
		}
		for _, n := range nodes {
			if n.parent == nil {
				checkNode(cs, "root-container:Node", base, rootNode, n.m)
				checkNode(cs, "root-container:Value", base, rootVal.Node, n.m)
				c01Interface(cs, rootNode, n, opts)
				c01Interface(cs, rootVal.Node, n, opts)
				continue
			}
			cs.Info("path", pathStr(n.path))
			xn := rootNode.GetByPath(n.path...)
			if checkNode(cs, "root-container:Node.GetByPath", base, xn, n.m) && isContainer(n.m.T) && n.depth <= 2 {
				c01Interface(cs, xn, n, opts)
			}
			xv := rootVal.GetByPath(n.path...)
			checkNode(cs, "root-container:Value.GetByPath", base, xv.Node, n.m)
			if n.named {
				checkNode(cs, "root-container:Value.GetByPath(name)", base, rootVal.GetByPath(n.npath...).Node, n.m)
			}
			if n.depth == 1 {
				// single-step accessors of the root itself
				switch n.step.Type() {
				case generic.PathIndex:
					checkNode(cs, "root-container:Node.Index", base, rootNode.Index(n.pos), n.m)
					checkNode(cs, "root-container:Value.Index", base, rootVal.Index(n.pos).Node, n.m)
				case generic.PathStrKey:
					checkNode(cs, "root-container:Node.GetByStr", base, rootNode.GetByStr(string(n.key.S)), n.m)
					checkNode(cs, "root-container:Value.GetByStr", base, rootVal.GetByStr(string(n.key.S)).Node, n.m)
				case generic.PathIntKey:
					checkNode(cs, "root-container:Node.GetByInt", base, rootNode.GetByInt(int(n.key.I)), n.m)
					checkNode(cs, "root-container:Value.GetByInt", base, rootVal.GetByInt(int(n.key.I)).Node, n.m)
				}
			}
			cs.CoverN("root_container_lookups", 1)
		}
		// absent: one past the end / an absent key
		switch x.T {
		case tref.LIST, tref.SET:
			for _, i := range []int{len(x.L), len(x.L) + 5, -1} {
				if y := rootNode.GetByPath(generic.NewPathIndex(i)); !y.IsError() {
					cs.Viol("read:root-container:found-absent:index", "index", i, "len", len(x.L))
				}
				if y := rootVal.Index(i); !y.IsError() {
					cs.Viol("read:root-container:found-absent:Value.Index", "index", i, "len", len(x.L))
				}
			}
		case tref.MAP:
			if x.KT == tref.STRING {
				if y := rootNode.GetByStr("no-such-key-\x01"); !y.IsError() || !y.IsErrNotFound() {
					cs.Viol("read:root-container:absent-key", "err", y.Error())
				}
			}
		}
		cs.Cover("root_containers_ok")
		cs.Distinct(fmt.Sprintf("rc-%s-%s-%s-%d", tref.TypeName(x.T), tref.TypeName(x.KT), tref.TypeName(x.ET), len(x.L)))
	})
}

// c01WideSiblings: reads behind (and into) a struct with more than a thousand variable-size members - every
// lookup that has to step over the wide struct as a whole (a later field, a later list element) still finds its
// element.
func c01WideSiblings(c *h.Ctx) {
	c.Run("wide-siblings", c.N(12, 60), func(cs *h.Case) {
		n := []int{1021, 1022, 1023, 1024, 1100, 5000}[cs.I%6]
		wide := func(tag int) *tref.Val {
			w := tref.Struct()
			for i := 0; i < n; i++ {
				var x *tref.Val
				switch (i + cs.I) % 3 {
				case 0:
					x = tref.Str(fmt.Sprintf("s%d_%d", tag, i))
				case 1:
					x = tref.Struct(tref.Field{ID: 1, V: tref.Int32(int32(i))})
				default:
					x = tref.List(tref.BYTE, tref.Byte(int8(i)))
				}
				w.Fs = append(w.Fs, tref.Field{ID: int16(i + 1), V: x})
			}
			return w
		}
		root := tref.Struct(tref.Field{ID: 1, V: wide(1)}, tref.Field{ID: 2, V: tref.Int32(77)},
			tref.Field{ID: 3, V: tref.List(tref.STRUCT, wide(2), wide(3), tref.Struct(tref.Field{ID: 5, V: tref.Str("last")}))},
			tref.Field{ID: 4, V: tref.Str("tail")})
		b := tref.Encode(root)
		tr := h.TrapCopy(b, cs.R.Bool(), true)
		defer tr.Free()
		for _, native := range []bool{false, true} {
			generic.UseNativeSkipForGet = native
			rn := generic.NewNode(thrift.STRUCT, tr.B)
			tail, _ := rn.Field(4).String()
			mid, _ := rn.Field(2).Int()
			last, _ := rn.GetByPath(generic.NewPathFieldId(3), generic.NewPathIndex(2), generic.NewPathFieldId(5)).String()
			in, _ := rn.GetByPath(generic.NewPathFieldId(3), generic.NewPathIndex(1), generic.NewPathFieldId(int16ID(n))).Raw(), 0
			kids := 0
			var out []generic.PathNode
			if err := rn.Children(&out, false, &generic.Options{}); err == nil {
				kids = len(out)
			}
			if tail != "tail" || mid != 77 || last != "last" || len(in) == 0 || kids != 4 {
				cs.Viol("read:wide-siblings", "members", n, "native-skip", native, "tail", tail, "mid", mid, "last", last, "inner-raw-len", len(in), "children", kids)
			}
			v, err := rn.Interface(&generic.Options{})
			if rv := reflect.ValueOf(v); err != nil || rv.Kind() != reflect.Map || rv.Len() != 4 {
				cs.Viol("read:wide-siblings:Interface", "members", n, "native-skip", native, "err", err)
			}
			cs.Cover("wide_sibling_reads")
		}
		generic.UseNativeSkipForGet = false
		cs.Distinct(fmt.Sprintf("wides-%d", n))
	})
}

func int16ID(n int) thrift.FieldID { return thrift.FieldID(n) }

// c01HighByteKeys: map<byte,i32> with keys whose top bit is set. An int derived from a BYTE is unsigned in this
// library (pinned by the repo's TestCastInt8), so such a key is addressed as 128..255 - by every API alike: GetByInt,
// GetByPath(IntKey), IntMap, Interface and the paths Foreach hands out (which GetByPath must find again).
func c01HighByteKeys(c *h.Ctx) {
	c.Run("high-byte-keys", c.N(300, 6000), func(cs *h.Case) {
		m := &tref.Val{T: tref.MAP, KT: tref.BYTE, ET: tref.I32}
		want := map[int]int32{}
		for i := 1 + cs.R.Intn(12); i > 0; i-- {
			k := cs.R.Intn(256)
			if cs.R.Chance(70) {
				k = 128 + cs.R.Intn(128)
			}
			if _, dup := want[k]; dup {
				continue
			}
			v := int32(cs.R.Intn(1 << 20))
			want[k] = v
			m.K = append(m.K, tref.Byte(int8(uint8(k))))
			m.L = append(m.L, tref.Int32(v))
		}
		b := tref.Encode(m)
		tr := h.TrapCopy(b, cs.R.Bool(), true)
		defer tr.Free()
		n := generic.NewNode(thrift.MAP, tr.B)
		cs.Info("bytes", hexs(b))
		for k, v := range want {
			if g, err := n.GetByInt(k).Int(); err != nil || int32(g) != v {
				cs.Viol("read:high-byte-key:GetByInt", "key", k, "got", g, "err", err, "want", v)
				return
			}
			if g, err := n.GetByPath(generic.NewPathIntKey(k)).Int(); err != nil || int32(g) != v {
				cs.Viol("read:high-byte-key:GetByPath", "key", k, "got", g, "err", err, "want", v)
				return
			}
			cs.Cover("high_byte_key_lookups")
		}
		im, err := n.IntMap(&generic.Options{})
		if err != nil || len(im) != len(want) {
			cs.Viol("read:high-byte-key:IntMap", "err", err, "got", fmt.Sprint(im))
			return
		}
		for k, v := range want {
			if g, ok := im[k]; !ok || fmt.Sprint(g) != fmt.Sprint(v) {
				cs.Viol("read:high-byte-key:IntMap", "key", k, "got", fmt.Sprint(im))
				return
			}
		}
		seen := 0
		ferr := n.Foreach(func(p generic.Path, x generic.Node) bool {
			v, ok := want[p.Int()]
			g, err := n.GetByPath(p).Int()
			if !ok || err != nil || int32(g) != v {
				cs.Viol("read:high-byte-key:Foreach-path", "path", p.String(), "declared", ok, "err", err)
				return false
			}
			seen++
			return true
		}, &generic.Options{})
		if ferr != nil || seen != len(want) {
			cs.Viol("read:high-byte-key:Foreach", "err", ferr, "seen", seen, "want", len(want))
			return
		}
		cs.Cover("high_byte_key_maps_ok")
	})
}

func runC01(c *h.Ctx) {
	defer c01RootContainers(c)
	defer c01WideSiblings(c)
	defer c01HighByteKeys(c)
	c.Run("reads", c.N(5000, 100000), func(cs *h.Case) {
		sc, v := c01Schema(cs)
		root := structType(sc.Root)
		idl := sc.IDL()
		cs.Info("idl", idl)
		b := tref.Encode(v)
		cs.Info("bytes", hexs(b))
		cs.Info("model", v.String())
		// oracle self-check
		if dv, err := tref.Decode(b, tref.STRUCT); err != nil || !tref.Equal(dv, v) {
			cs.Cover("oracle_selfcheck_failed")
			return
		}
		desc, _, err := ParseRoot(sc, thrift.NewDefaultOptions())
		if err != nil {
			cs.Viol("read:parse-idl", "err", err)
			return
		}
		optBits := cs.R.Intn(32)
		opts := &generic.Options{
			UseNativeSkip:       optBits&1 != 0,
			MapStructById:       optBits&2 != 0,
			CastStringAsBinary:  optBits&4 != 0,
			ClearDirtyValues:    optBits&8 != 0,
			IterateStructByName: optBits&16 != 0,
		}
		generic.UseNativeSkipForGet = cs.R.Bool()
		defer func() { generic.UseNativeSkipForGet = false }()
		cs.Info("opts", fmt.Sprintf("%+v nativeGet=%v", *opts, generic.UseNativeSkipForGet))
		cs.Cover(fmt.Sprintf("optvec_%02d", optBits))

		tr := h.TrapCopy(b, cs.R.Bool(), true)
		defer tr.Free()
		base := tr.B
		rootNode := generic.NewNode(thrift.STRUCT, base)
		rootVal := generic.NewValue(desc, base)
		nodes := enumNodes(v, root)
		if len(nodes) > 400 {
			nodes = nodes[:400]
		}
		cs.Info("nodes", len(nodes))

		got := map[*nref]generic.Node{}
		for _, n := range nodes {
			cs.Info("path", pathStr(n.path))
			// longitudinal
			x := rootNode.GetByPath(n.path...)
			if checkNode(cs, "Node.GetByPath", base, x, n.m) {
				got[n] = x
			}
			xv := rootVal.GetByPath(n.path...)
			checkNode(cs, "Value.GetByPath", base, xv.Node, n.m)
			if n.named {
				xn := rootVal.GetByPath(n.npath...)
				checkNode(cs, "Value.GetByPath(name)", base, xn.Node, n.m)
			}
			cs.Cover("getbypath_present")
			if n.parent == nil {
				continue
			}
			pn, ok := got[n.parent]
			if !ok {
				continue
			}
			pv := rootVal.GetByPath(n.parent.path...)
			// one-step APIs
			switch n.step.Type() {
			case generic.PathFieldId:
				checkNode(cs, "Node.Field", base, pn.Field(n.step.Id()), n.m)
				if !pv.IsError() {
					checkNode(cs, "Value.Field", base, pv.Field(n.step.Id()).Node, n.m)
					if n.nstep.Type() == generic.PathFieldName {
						checkNode(cs, "Value.FieldByName", base, pv.FieldByName(n.nstep.Str()).Node, n.m)
					}
				}
				cs.Cover("api_Field")
			case generic.PathIndex:
				checkNode(cs, "Node.Index", base, pn.Index(n.step.Int()), n.m)
				if !pv.IsError() {
					checkNode(cs, "Value.Index", base, pv.Index(n.step.Int()).Node, n.m)
				}
				cs.Cover("api_Index")
			case generic.PathStrKey:
				checkNode(cs, "Node.GetByStr", base, pn.GetByStr(n.step.Str()), n.m)
				checkNode(cs, "Node.GetByRaw", base, pn.GetByRaw(tref.Encode(n.key.Clone())), n.m)
				if !pv.IsError() {
					checkNode(cs, "Value.GetByStr", base, pv.GetByStr(n.step.Str()).Node, n.m)
				}
				cs.Cover("api_GetByStr")
			case generic.PathIntKey:
				checkNode(cs, "Node.GetByInt", base, pn.GetByInt(n.step.Int()), n.m)
				checkNode(cs, "Node.GetByRaw", base, pn.GetByRaw(tref.Encode(n.key.Clone())), n.m)
				if !pv.IsError() {
					checkNode(cs, "Value.GetByInt", base, pv.GetByInt(n.step.Int()).Node, n.m)
				}
				cs.Cover("api_GetByInt")
			case generic.PathBinKey:
				checkNode(cs, "Node.GetByRaw", base, pn.GetByRaw(n.step.Bin()), n.m)
				cs.Cover("api_GetByRaw")
			}
		}

		// transversal / iteration APIs on every container
		for _, n := range nodes {
			if !isContainer(n.m.T) {
				continue
			}
			pn, ok := got[n]
			if !ok {
				continue
			}
			cs.Info("path", pathStr(n.path))
			kids := children(n, nodes)
			full := (n.m.T == tref.STRUCT && len(kids) == len(n.m.Fs)) || (n.m.T != tref.STRUCT && len(kids) == len(n.m.L))
			if !full {
				continue // node list was truncated
			}
			c01Iterate(cs, base, pn, rootVal.GetByPath(n.path...), n, kids, opts)
			c01Interface(cs, pn, n, opts)
			c01GetMany(cs, base, pn, n, kids, opts)
			c01Absent(cs, rootNode, rootVal, pn, n, kids)
			cs.Distinct(fmt.Sprintf("%s/%s/%s/n%d/d%d/o%d", tref.TypeName(n.m.T), tref.TypeName(n.m.KT), tref.TypeName(n.m.ET), sizeClass(len(kids)), n.depth, optBits&7))
		}
		c01Tree(cs, base, rootNode, nodes, opts)
		c01Shape(cs, rootNode, rootVal, nodes)
		if cs.I == 5 {
			cs.Sample(map[string]interface{}{"idl": idl, "model": v.String(), "bytes": hexs(b), "nodes": len(nodes)})
		}
	})
}

func c01Iterate(cs *h.Case, base []byte, pn generic.Node, pv generic.Value, n *nref, kids []*nref, opts *generic.Options) {
	// Children (lazy)
	var out []generic.PathNode
	if err := pn.Children(&out, false, opts); err != nil {
		cs.Viol("read:Children:error", "err", err, "model", n.m.String())
	} else if len(out) != len(kids) {
		cs.Viol("read:Children:count", "got", len(out), "want", len(kids), "model", n.m.String())
	} else {
		for i, k := range kids {
			if !pathEq(out[i].Path, k.step) {
				cs.Viol("read:Children:path", "i", i, "got", out[i].Path.String(), "want", k.step.String())
				break
			}
			if !checkNode(cs, "Children", base, out[i].Node, k.m) {
				break
			}
		}
	}
	cs.Cover("api_Children")
	// Foreach (Node)
	i := 0
	bad := false
	err := pn.Foreach(func(p generic.Path, x generic.Node) bool {
		if i >= len(kids) {
			bad = true
			return false
		}
		if !pathEq(p, kids[i].step) {
			cs.Viol("read:Node.Foreach:path", "i", i, "got", p.String(), "want", kids[i].step.String())
			bad = true
			return false
		}
		if !checkNode(cs, "Node.Foreach", base, x, kids[i].m) {
			bad = true
			return false
		}
		i++
		return true
	}, opts)
	if err != nil {
		cs.Viol("read:Node.Foreach:error", "err", err)
	} else if !bad && i != len(kids) {
		cs.Viol("read:Node.Foreach:count", "got", i, "want", len(kids))
	}
	cs.Cover("api_Foreach")
	// Foreach (Value)
	if !pv.IsError() && n.t != nil {
		i = 0
		bad = false
		err = pv.Foreach(func(p generic.Path, x generic.Value) bool {
			if i >= len(kids) {
				bad = true
				return false
			}
			want := kids[i].step
			if opts.IterateStructByName && n.m.T == tref.STRUCT {
				want = kids[i].nstep
			}
			if !pathEq(p, want) {
				cs.Viol("read:Value.Foreach:path", "i", i, "got", p.String(), "want", want.String())
				bad = true
				return false
			}
			if !checkNode(cs, "Value.Foreach", base, x.Node, kids[i].m) {
				bad = true
				return false
			}
			i++
			return true
		}, opts)
		if err != nil {
			cs.Viol("read:Value.Foreach:error", "err", err)
		} else if !bad && i != len(kids) {
			cs.Viol("read:Value.Foreach:count", "got", i, "want", len(kids))
		}
	}
	// ForeachKV
	if n.m.T == tref.MAP {
		i = 0
		bad = false
		err = pn.ForeachKV(func(k, x generic.Node) bool {
			if i >= len(kids) {
				bad = true
				return false
			}
			if !checkNode(cs, "Node.ForeachKV:key", base, k, n.m.K[i]) || !checkNode(cs, "Node.ForeachKV:val", base, x, n.m.L[i]) {
				bad = true
				return false
			}
			i++
			return true
		}, opts)
		if err != nil {
			cs.Viol("read:Node.ForeachKV:error", "err", err)
		} else if !bad && i != len(kids) {
			cs.Viol("read:Node.ForeachKV:count", "got", i, "want", len(kids))
		}
		if !pv.IsError() && n.t != nil {
			i = 0
			bad = false
			err = pv.ForeachKV(func(k, x generic.Value) bool {
				if i >= len(kids) {
					bad = true
					return false
				}
				if !checkNode(cs, "Value.ForeachKV:key", base, k.Node, n.m.K[i]) || !checkNode(cs, "Value.ForeachKV:val", base, x.Node, n.m.L[i]) {
					bad = true
					return false
				}
				i++
				return true
			}, opts)
			if err != nil {
				cs.Viol("read:Value.ForeachKV:error", "err", err)
			} else if !bad && i != len(kids) {
				cs.Viol("read:Value.ForeachKV:count", "got", i, "want", len(kids))
			}
		}
		cs.Cover("api_ForeachKV")
	}
}

func c01Interface(cs *h.Case, pn generic.Node, n *nref, opts *generic.Options) {
	cfg := GoCfg{GenericNode: true, IntAsInt: true, StructByID: opts.MapStructById, StrAsBinary: opts.CastStringAsBinary}
	want := ToGo(n.m, nil, cfg)
	g, err := pn.Interface(opts)
	if err != nil {
		cs.Viol("read:Interface:error", "err", err, "model", n.m.String())
	} else if !GoEq(g, want) {
		cs.Viol("read:Interface:value", "got", GoStr(g), "want", GoStr(want))
	}
	cs.Cover("api_Interface")
	switch n.m.T {
	case tref.LIST, tref.SET:
		l, err := pn.List(opts)
		if err != nil || !GoEq(interface{}(l), want) {
			cs.Viol("read:List", "err", err, "got", GoStr(l), "want", GoStr(want))
		}
	case tref.MAP:
		switch n.m.KT {
		case tref.STRING:
			m, err := pn.StrMap(opts)
			if err != nil || !GoEq(interface{}(m), want) {
				cs.Viol("read:StrMap", "err", err, "got", GoStr(m), "want", GoStr(want))
			}
		case tref.BYTE, tref.I16, tref.I32, tref.I64:
			m, err := pn.IntMap(opts)
			if err != nil || !GoEq(interface{}(m), want) {
				cs.Viol("read:IntMap", "err", err, "got", GoStr(m), "want", GoStr(want))
			}
		default:
			m, err := pn.InterfaceMap(opts)
			if err != nil || !GoEq(interface{}(m), want) {
				cs.Viol("read:InterfaceMap", "err", err, "got", GoStr(m), "want", GoStr(want))
			}
		}
	}
}

func c01GetMany(cs *h.Case, base []byte, pn generic.Node, n *nref, kids []*nref, opts *generic.Options) {
	if len(kids) == 0 {
		return
	}
	// subsets: single, pair, all (permuted)
	sets := [][]int{{cs.R.Intn(len(kids))}}
	if len(kids) >= 2 {
		a := cs.R.Intn(len(kids))
		b := (a + 1 + cs.R.Intn(len(kids)-1)) % len(kids)
		sets = append(sets, []int{a, b})
		all := make([]int, len(kids))
		for i := range all {
			all[i] = i
		}
		for i := len(all) - 1; i > 0; i-- {
			j := cs.R.Intn(i + 1)
			all[i], all[j] = all[j], all[i]
		}
		if len(all) > 12 {
			all = all[:12]
		}
		sets = append(sets, all)
	}
	for _, set := range sets {
		pns := make([]generic.PathNode, len(set))
		for i, k := range set {
			pns[i].Path = kids[k].step
		}
		err := pn.GetMany(pns, opts)
		kind := "GetMany:" + tref.TypeName(n.m.T)
		if len(set) >= 2 {
			kind += ":multi"
		}
		if err != nil {
			cs.Viol("read:"+kind+":error", "err", err, "model", n.m.String())
			continue
		}
		for i, k := range set {
			if pns[i].Node.IsEmpty() || pns[i].Node.IsError() {
				cs.Viol("read:"+kind+":missed-present", "path", kids[k].step.String(), "set", fmt.Sprint(set), "model", n.m.String())
				break
			}
			if !checkNode(cs, kind, base, pns[i].Node, kids[k].m) {
				break
			}
		}
		cs.Cover("api_GetMany")
		// the direct bulk entry points on a REUSED slice: every slot still holds a node of an earlier query, and one
		// more path addresses an absent element; under ClearDirtyValues nothing stale may survive
		stale := generic.NewNodeInt32(0x5a5a5a5a)
		pns2 := make([]generic.PathNode, len(set)+1)
		for i, k := range set {
			pns2[i].Path = kids[k].step
			pns2[i].Node = stale
		}
		var absent generic.Path
		haveAbsent := true
		switch n.m.T {
		case tref.STRUCT:
			id := int16(32001)
			for n.m.FieldByID(id) != nil {
				id++
			}
			absent = generic.NewPathFieldId(thrift.FieldID(id))
		case tref.LIST, tref.SET:
			absent = generic.NewPathIndex(len(n.m.L) + 2)
		case tref.MAP:
			switch n.m.KT {
			case tref.STRING:
				absent = generic.NewPathStrKey("no-such-key-\x01")
			case tref.I32, tref.I64:
				absent = generic.NewPathIntKey(2147480011)
				for _, k := range n.m.K {
					if k.I == 2147480011 {
						haveAbsent = false
					}
				}
			default:
				haveAbsent = false
			}
		}
		if !haveAbsent {
			pns2 = pns2[:len(set)]
		} else {
			pns2[len(set)].Path = absent
			pns2[len(set)].Node = stale
		}
		var derr error
		api := ""
		switch n.m.T {
		case tref.STRUCT:
			api, derr = "Node.Fields", pn.Fields(pns2, opts)
		case tref.LIST, tref.SET:
			api, derr = "Node.Indexes", pn.Indexes(pns2, opts)
		case tref.MAP:
			api, derr = "Node.Gets", pn.Gets(pns2, opts)
		}
		if api == "" || derr != nil {
			continue // an absent element may be reported as an error of the whole call
		}
		for i, k := range set {
			if !checkNode(cs, api+":reused-slice", base, pns2[i].Node, kids[k].m) {
				break
			}
		}
		if haveAbsent && opts.ClearDirtyValues {
			x := pns2[len(set)].Node
			if !x.IsEmpty() && !x.IsError() {
				cs.Viol("read:"+api+":stale-node-for-absent-element", "path", absent.String(), "node-type", int(x.Type()), "raw", hexs(x.Raw()))
			} else {
				cs.Cover("bulk_direct_absent_cleared")
			}
		}
		cs.Cover("api_bulk_direct")
	}
}

// c01ErrChain continues a lookup chain behind a failed step: every further step on the error result of an absent
// or ill-shaped lookup is itself an error result (typed and untyped API), never a panic or a value.
func c01ErrChain(cs *h.Case, pv generic.Value, n *nref) {
	var errs []generic.Value
	if pv.IsError() {
		errs = append(errs, pv)
	} else {
		switch n.m.T {
		case tref.STRUCT:
			errs = append(errs, pv.Field(32767), pv.FieldByName("no-such-field-\x01"), pv.GetByPath(generic.NewPathFieldId(32767)))
		case tref.LIST, tref.SET:
			errs = append(errs, pv.Index(len(n.m.L)+7), pv.GetByPath(generic.NewPathIndex(len(n.m.L)+7)))
		case tref.MAP:
			errs = append(errs, pv.GetByStr("no-such-key-\x01"), pv.GetByInt(-2147480001))
		default:
			errs = append(errs, pv.Field(1), pv.Index(0), pv.GetByStr("k"), pv.GetByInt(1))
		}
	}
	for _, e := range errs {
		if !e.IsError() {
			continue // judged by the absent/shape probes
		}
		next := map[string]generic.Node{
			"Value.Field": e.Field(1).Node, "Value.FieldByName": e.FieldByName("a").Node, "Value.Index": e.Index(0).Node,
			"Value.GetByStr": e.GetByStr("k").Node, "Value.GetByInt": e.GetByInt(1).Node,
			"Value.GetByPath": e.GetByPath(generic.NewPathIndex(0)).Node, "Value.GetByPath(name)": e.GetByPath(generic.NewPathFieldName("a")).Node,
			"Node.Field": e.Node.Field(1), "Node.Index": e.Node.Index(0), "Node.GetByStr": e.Node.GetByStr("k"), "Node.GetByInt": e.Node.GetByInt(1),
			"Node.GetByPath": e.Node.GetByPath(generic.NewPathStrKey("k")),
		}
		for api, x := range next {
			if !x.IsError() {
				cs.Viol("read:"+api+":value-behind-error", "type", int(x.Type()), "model", n.m.String(), "at", pathStr(n.path))
			}
			cs.Cover("error_chain_steps")
		}
	}
}

// absent elements must be reported as not-found; never a panic.
func c01Absent(cs *h.Case, rootNode generic.Node, rootVal generic.Value, pn generic.Node, n *nref, kids []*nref) {
	mustNotFound := func(api string, x generic.Node) {
		if !x.IsError() {
			cs.Viol("read:"+api+":found-absent", "type", int(x.Type()), "raw", hexs(x.Raw()), "model", n.m.String(), "at", pathStr(n.path))
		} else if !x.IsErrNotFound() {
			cs.Viol("read:"+api+":absent-not-notfound", "err", x.Error(), "model", n.m.String())
		}
		cs.Cover("absent_lookups")
	}
	with := func(p generic.Path) []generic.Path { return append(append([]generic.Path{}, n.path...), p) }
	c01ErrChain(cs, rootVal.GetByPath(n.path...), n)
	switch n.m.T {
	case tref.STRUCT:
		used := map[int16]bool{}
		for _, f := range n.m.Fs {
			used[f.ID] = true
		}
		for _, id := range []int16{1, 2, 3, 17, 254, 258, 32766, 9, 500} {
			if used[id] {
				continue
			}
			if n.t != nil && n.t.S != nil && n.t.S.Field(id) == nil {
				// undeclared id: the untyped API must say not-found; the typed API may say any error
				mustNotFound("Node.Field", pn.Field(thrift.FieldID(id)))
				mustNotFound("Node.GetByPath", rootNode.GetByPath(with(generic.NewPathFieldId(thrift.FieldID(id)))...))
				x := rootVal.GetByPath(with(generic.NewPathFieldId(thrift.FieldID(id)))...)
				if !x.IsError() {
					cs.Viol("read:Value.GetByPath:found-undeclared", "id", id)
				}
				continue
			}
			mustNotFound("Node.Field", pn.Field(thrift.FieldID(id)))
			mustNotFound("Node.GetByPath", rootNode.GetByPath(with(generic.NewPathFieldId(thrift.FieldID(id)))...))
			mustNotFound("Value.GetByPath", rootVal.GetByPath(with(generic.NewPathFieldId(thrift.FieldID(id)))...).Node)
		}
		// declared but absent fields by name
		if n.t != nil && n.t.S != nil {
			for _, fd := range n.t.S.Fields {
				if used[fd.ID] {
					continue
				}
				pv := rootVal.GetByPath(n.path...)
				mustNotFound("Value.FieldByName", pv.FieldByName(fd.Name).Node)
				mustNotFound("Value.Field", pv.Field(thrift.FieldID(fd.ID)).Node)
				mustNotFound("Value.GetByPath(name)", rootVal.GetByPath(with(generic.NewPathFieldName(fd.Name))...).Node)
			}
		}
	case tref.LIST, tref.SET:
		for _, i := range []int{len(n.m.L), len(n.m.L) + 1, len(n.m.L) + 1000} {
			if x := pn.Index(i); !x.IsError() {
				cs.Viol("read:Node.Index:found-absent", "i", i, "model", n.m.String())
			}
			mustNotFound("Node.GetByPath", rootNode.GetByPath(with(generic.NewPathIndex(i))...))
			mustNotFound("Value.GetByPath", rootVal.GetByPath(with(generic.NewPathIndex(i))...).Node)
		}
		// negative index: an invalid path -> any error, never an element
		for _, api := range []struct {
			n string
			x generic.Node
		}{{"Node.Index(-1)", pn.Index(-1)}, {"Node.GetByPath(Index(-1))", rootNode.GetByPath(with(generic.NewPathIndex(-1))...)},
			{"Value.GetByPath(Index(-1))", rootVal.GetByPath(with(generic.NewPathIndex(-1))...).Node}} {
			if !api.x.IsError() {
				cs.Viol("read:"+api.n+":returns-element", "model", n.m.String())
			}
			cs.Cover("invalid_path_lookups")
		}
	case tref.MAP:
		switch n.m.KT {
		case tref.STRING:
			have := map[string]bool{}
			for _, k := range n.m.K {
				have[string(k.S)] = true
			}
			for _, k := range []string{"", "absent-key", "a", string(append([]byte("x"), bytes.Repeat([]byte("y"), 40)...))} {
				if have[k] {
					continue
				}
				mustNotFound("Node.GetByStr", pn.GetByStr(k))
				mustNotFound("Node.GetByPath", rootNode.GetByPath(with(generic.NewPathStrKey(k))...))
				mustNotFound("Value.GetByPath", rootVal.GetByPath(with(generic.NewPathStrKey(k))...).Node)
			}
		case tref.BYTE, tref.I16, tref.I32, tref.I64:
			have := map[int64]bool{}
			for _, k := range n.m.K {
				have[k.I] = true
			}
			for _, k := range []int64{0, 1, -1, 5, 100, -100} {
				if have[k] {
					continue
				}
				mustNotFound("Node.GetByInt", pn.GetByInt(int(k)))
				mustNotFound("Node.GetByPath", rootNode.GetByPath(with(generic.NewPathIntKey(int(k)))...))
				mustNotFound("Value.GetByPath", rootVal.GetByPath(with(generic.NewPathIntKey(int(k)))...).Node)
			}
			// keys outside the range of the key type are absent too: k + 2^width of a present key k must not alias it
			if n.m.KT != tref.I64 {
				width := map[byte]uint{tref.BYTE: 8, tref.I16: 16, tref.I32: 32}[n.m.KT]
				for i, k := range n.m.K {
					if i >= 2 {
						break
					}
					for _, far := range []int64{k.I + 1<<width, k.I - 1<<width, k.I + 3<<width} {
						for api, x := range map[string]generic.Node{
							"Node.GetByInt":   pn.GetByInt(int(far)),
							"Node.GetByPath":  rootNode.GetByPath(with(generic.NewPathIntKey(int(far)))...),
							"Value.GetByPath": rootVal.GetByPath(with(generic.NewPathIntKey(int(far)))...).Node,
						} {
							if !x.IsError() {
								cs.Viol("read:"+api+":found-absent:out-of-range-int-key", "key", far, "aliases", k.I, "key-type", tref.TypeName(n.m.KT))
							}
						}
						cs.Cover("out_of_range_int_key_lookups")
					}
				}
			}
		default:
			// an absent raw key of the right type
			var k *tref.Val
			if n.m.KT == tref.DOUBLE {
				k = tref.Double(12345.6789)
			} else if n.m.KT == tref.STRUCT {
				k = tref.Struct(tref.Field{ID: 30000, V: tref.Int32(7)})
			}
			if k != nil {
				raw := tref.Encode(k)
				dup := false
				for _, kk := range n.m.K {
					if bytes.Equal(tref.Encode(kk.Clone()), raw) {
						dup = true
					}
				}
				if !dup {
					mustNotFound("Node.GetByRaw", pn.GetByRaw(raw))
					mustNotFound("Node.GetByPath", rootNode.GetByPath(with(generic.NewPathBinKey(raw))...))
				}
			}
		}
	}
}

// shape-violating paths: error result, never a panic, never an element.
func c01Shape(cs *h.Case, rootNode generic.Node, rootVal generic.Value, nodes []*nref) {
	cnt := 0
	for _, n := range nodes {
		if cnt > 40 {
			break
		}
		var bad []generic.Path
		switch n.m.T {
		case tref.STRUCT:
			bad = []generic.Path{generic.NewPathIndex(0), generic.NewPathStrKey("x"), generic.NewPathIntKey(1)}
		case tref.LIST, tref.SET:
			bad = []generic.Path{generic.NewPathFieldId(1), generic.NewPathStrKey("x")}
		case tref.MAP:
			bad = []generic.Path{generic.NewPathFieldId(1), generic.NewPathIndex(0)}
			if n.m.KT == tref.STRING {
				bad = append(bad, generic.NewPathIntKey(1))
			} else if n.m.KT != tref.DOUBLE && n.m.KT != tref.STRUCT {
				bad = append(bad, generic.NewPathStrKey("x"))
			}
		default:
			// continuing through a scalar
			bad = []generic.Path{generic.NewPathFieldId(1), generic.NewPathIndex(0), generic.NewPathStrKey("x"), generic.NewPathIntKey(0)}
		}
		for _, p := range bad {
			full := append(append([]generic.Path{}, n.path...), p)
			x := rootNode.GetByPath(full...)
			if !x.IsError() {
				cs.Viol("read:Node.GetByPath:shape-violation-accepted", "path", pathStr(full), "node-type", tref.TypeName(n.m.T))
			}
			y := rootVal.GetByPath(full...)
			if !y.IsError() {
				cs.Viol("read:Value.GetByPath:shape-violation-accepted", "path", pathStr(full), "node-type", tref.TypeName(n.m.T))
			}
			cs.Cover("shape_violating_paths")
			cnt++
		}
		if n.m.T == tref.STRUCT {
			y := rootVal.GetByPath(append(append([]generic.Path{}, n.path...), generic.NewPathFieldName("no_such_field"))...)
			if !y.IsError() {
				cs.Viol("read:Value.GetByPath:unknown-name-accepted", "path", pathStr(n.path))
			}
		}
	}
}

// c01Tree: GetTree with a path tree built from a few leaves; recursive Children on the root.
func c01Tree(cs *h.Case, base []byte, rootNode generic.Node, nodes []*nref, opts *generic.Options) {
	// recursive children
	var out []generic.PathNode
	root := nodes[0]
	if err := rootNode.Children(&out, true, opts); err != nil {
		cs.Viol("read:Children(recurse):error", "err", err)
	} else {
		var cmp func(pn []generic.PathNode, n *nref) bool
		cmp = func(pn []generic.PathNode, n *nref) bool {
			kids := children(n, nodes)
			full := (n.m.T == tref.STRUCT && len(kids) == len(n.m.Fs)) || (n.m.T != tref.STRUCT && len(kids) == len(n.m.L))
			if !full {
				return true
			}
			if len(pn) != len(kids) {
				cs.Viol("read:Children(recurse):count", "at", pathStr(n.path), "got", len(pn), "want", len(kids))
				return false
			}
			for i, k := range kids {
				if !pathEq(pn[i].Path, k.step) {
					cs.Viol("read:Children(recurse):path", "at", pathStr(k.path), "got", pn[i].Path.String())
					return false
				}
				if !checkNode(cs, "Children(recurse)", base, pn[i].Node, k.m) {
					return false
				}
				if isContainer(k.m.T) && !cmp(pn[i].Next, k) {
					return false
				}
			}
			return true
		}
		cmp(out, root)
		cs.Cover("api_Children_recurse")
	}
	// GetTree on up to 4 random leaves sharing prefixes
	var leaves []*nref
	for tries := 0; tries < 12 && len(leaves) < 4; tries++ {
		n := nodes[cs.R.Intn(len(nodes))]
		if n.parent == nil {
			continue
		}
		dup := false
		for _, l := range leaves {
			if l == n {
				dup = true
			}
			// avoid one being a prefix of the other: keeps the tree a set of leaves
			for a := l; a != nil; a = a.parent {
				if a == n {
					dup = true
				}
			}
			for a := n; a != nil; a = a.parent {
				if a == l {
					dup = true
				}
			}
		}
		if !dup {
			leaves = append(leaves, n)
		}
	}
	if len(leaves) == 0 {
		return
	}
	tree := generic.PathNode{}
	var insert func(t *generic.PathNode, path []generic.Path)
	insert = func(t *generic.PathNode, path []generic.Path) {
		if len(path) == 0 {
			return
		}
		for i := range t.Next {
			if pathEq(t.Next[i].Path, path[0]) {
				insert(&t.Next[i], path[1:])
				return
			}
		}
		t.Next = append(t.Next, generic.PathNode{Path: path[0]})
		insert(&t.Next[len(t.Next)-1], path[1:])
	}
	mixed := false
	for _, l := range leaves {
		insert(&tree, l.path)
	}
	// GetMany requires one path kind per level; mixed kinds cannot occur below one container, fine.
	_ = mixed
	if err := rootNode.GetTree(&tree, opts); err != nil {
		cs.Viol("read:GetTree:error", "err", err, "leaves", len(leaves))
		return
	}
	for _, l := range leaves {
		t := &tree
		okp := true
		for _, p := range l.path {
			found := false
			for i := range t.Next {
				if pathEq(t.Next[i].Path, p) {
					t = &t.Next[i]
					found = true
					break
				}
			}
			if !found {
				okp = false
				break
			}
		}
		if okp {
			kind := "GetTree"
			if len(leaves) > 1 {
				kind = "GetTree:multi"
			}
			if t.Node.IsEmpty() || t.Node.IsError() {
				cs.Viol("read:"+kind+":missed-present", "path", pathStr(l.path))
			} else {
				checkNode(cs, kind, base, t.Node, l.m)
			}
		}
	}
	cs.Cover("api_GetTree")
}
