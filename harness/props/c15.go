package props

import (
	"context"
	"fmt"
	"math"
	"sort"
	"strings"

	"github.com/cloudwego/dynamicgo/meta"
	dproto "github.com/cloudwego/dynamicgo/proto"
	"google.golang.org/protobuf/reflect/protoreflect"

	"verifharness/gen"
	"verifharness/h"
	"verifharness/pref"
)

func init() { h.Register("C15", runC15) }

type c15Walk struct {
	cs      *h.Case
	seen    map[*dproto.MessageDescriptor]protoreflect.FullName
	msgs    int
	flds    int
	lkups   int
	bad     bool
	foreign []string
}

func (w *c15Walk) viol(sig string, kv ...interface{}) {
	w.bad = true
	w.cs.Viol(sig, kv...)
}

var c15Alphabet = []byte{0, 1, ' ', '-', '.', '/', '0', '9', 'A', 'Z', '_', 'a', 'f', 'z', '{', 0x7f, 0x80, 0xc3, 0xff}

// keyVariants: lookup keys derived from a declared key that are (mostly) not declared.
func keyVariants(r *h.Rand, k string) []string {
	out := []string{k + "x", k + "\x00", k + "_", k + k, "x" + k, strings.ToUpper(k), " " + k}
	if len(k) > 0 {
		out = append(out, k[:len(k)-1], k[1:], k[:len(k)/2])
		// other spellings of the same words: first letter flipped, all lower, snake <-> camel
		out = append(out, strings.ToLower(k[:1])+k[1:], strings.ToUpper(k[:1])+k[1:], strings.ToLower(k), strings.ReplaceAll(k, "_", ""))
		for n := 0; n < 6; n++ {
			b := []byte(k)
			b[r.Intn(len(b))] = c15Alphabet[r.Intn(len(c15Alphabet))]
			out = append(out, string(b))
		}
		b := []byte(k)
		b[len(b)-1]++
		out = append(out, string(b))
		b = []byte(k)
		b[0] ^= 0x80
		out = append(out, string(b))
	}
	return out
}

func (w *c15Walk) msg(d *dproto.MessageDescriptor, ref protoreflect.MessageDescriptor, path string) {
	if d == nil {
		w.viol("desc:message-missing", "path", path, "want", string(ref.FullName()))
		return
	}
	if fn, ok := w.seen[d]; ok {
		if fn != ref.FullName() {
			w.viol("desc:message-identity", "path", path, "descriptor-first-seen-as", string(fn), "schema-names", string(ref.FullName()))
		}
		return
	}
	w.seen[d] = ref.FullName()
	w.msgs++
	if d.Name() != string(ref.Name()) {
		w.viol("desc:message-name", "path", path, "got", d.Name(), "want", string(ref.Name()))
	}
	fds := ref.Fields()
	if d.FieldsCount() != fds.Len() {
		w.viol("desc:fields-count", "path", path, "got", d.FieldsCount(), "want", fds.Len())
	}
	declaredKeys := map[string]protoreflect.FieldDescriptor{}
	for i := 0; i < fds.Len(); i++ {
		rf := fds.Get(i)
		declaredKeys[string(rf.Name())] = rf
		declaredKeys[rf.JSONName()] = rf
	}
	for i := 0; i < fds.Len(); i++ {
		rf := fds.Get(i)
		p := path + "." + string(rf.Name())
		f := d.ByNumber(dproto.FieldNumber(rf.Number()))
		if f == nil {
			w.viol("desc:field-missing-by-number", "path", p, "number", int(rf.Number()))
			continue
		}
		w.flds++
		if int32(f.Number()) != int32(rf.Number()) || f.Name() != string(rf.Name()) || f.JSONName() != rf.JSONName() {
			w.viol("desc:field-identity", "path", p, "got", fmt.Sprintf("%d %s %s", f.Number(), f.Name(), f.JSONName()), "want", fmt.Sprintf("%d %s %s", rf.Number(), rf.Name(), rf.JSONName()))
		}
		if g := d.ByName(string(rf.Name())); g != f {
			w.viol("desc:lookup-by-name", "path", p, "got-nil", g == nil)
		}
		if g := d.ByJSONName(rf.JSONName()); g != f {
			w.viol("desc:lookup-by-json-name", "path", p, "json", rf.JSONName(), "got-nil", g == nil)
		}
		if f.IsList() != rf.IsList() || f.IsMap() != rf.IsMap() {
			w.viol("desc:cardinality", "path", p, "got", fmt.Sprintf("list=%v map=%v", f.IsList(), f.IsMap()), "want", fmt.Sprintf("list=%v map=%v", rf.IsList(), rf.IsMap()))
			continue
		}
		t := f.Type()
		if t == nil {
			w.viol("desc:type-nil", "path", p)
			continue
		}
		wantKind := dproto.ProtoKind(rf.Kind())
		if int(f.Kind()) != int(wantKind) {
			w.viol("desc:kind", "path", p, "got", int(f.Kind()), "want", int(wantKind))
		}
		switch {
		case rf.IsMap():
			if t.Type() != dproto.MAP || int32(t.BaseId()) != int32(rf.Number()) {
				w.viol("desc:map-type", "path", p, "type", t.Type().String(), "baseId", int(t.BaseId()))
			}
			if t.Key() == nil || t.Elem() == nil {
				w.viol("desc:map-key-elem-nil", "path", p)
				continue
			}
			if int(t.Key().Type()) != int(rf.MapKey().Kind()) {
				w.viol("desc:map-key-kind", "path", p, "got", t.Key().Type().String(), "want", rf.MapKey().Kind().String())
			}
			if int(t.Elem().Type()) != int(rf.MapValue().Kind()) {
				w.viol("desc:map-value-kind", "path", p, "got", t.Elem().Type().String(), "want", rf.MapValue().Kind().String())
			}
			if f.MapKey() != t.Key() || f.MapValue() != t.Elem() {
				w.viol("desc:map-accessors", "path", p)
			}
			// entry message: fields 1 (key) and 2 (value)
			w.msg(f.Message(), rf.Message(), p+"{entry}")
			if rf.MapValue().Kind() == protoreflect.MessageKind {
				w.msg(t.Elem().Message(), rf.MapValue().Message(), p+"{value}")
			}
			if t.IsPacked() {
				w.viol("desc:packedness", "path", p, "got", true, "want", false)
			}
		case rf.IsList():
			if t.Type() != dproto.LIST || int32(t.BaseId()) != int32(rf.Number()) || t.Elem() == nil {
				w.viol("desc:list-type", "path", p, "type", t.Type().String(), "baseId", int(t.BaseId()))
				continue
			}
			if int(t.Elem().Type()) != int(rf.Kind()) {
				w.viol("desc:list-elem-kind", "path", p, "got", t.Elem().Type().String(), "want", rf.Kind().String())
			}
			if t.IsPacked() != rf.IsPacked() {
				sig := "desc:packedness"
				if t.IsPacked() && !rf.IsPacked() && rf.Kind() != protoreflect.MessageKind && rf.Kind() != protoreflect.StringKind && rf.Kind() != protoreflect.BytesKind {
					// defect model of known finding C15-K1: a packable kind declared [packed = false]
					sig = "desc:packedness:declared-unpacked-reported-packed"
				}
				w.viol(sig, "path", p, "elem", rf.Kind().String(), "got", t.IsPacked(), "want", rf.IsPacked())
			} else if rf.IsPacked() {
				w.cs.Cover("packed_list_fields_compared")
			}
			if rf.Kind() == protoreflect.MessageKind {
				w.msg(f.Message(), rf.Message(), p+"[]")
				if t.Elem().Message() != f.Message() {
					w.viol("desc:list-elem-message", "path", p)
				}
			}
		default:
			if int(t.Type()) != int(rf.Kind()) {
				w.viol("desc:scalar-type", "path", p, "got", t.Type().String(), "want", rf.Kind().String())
			}
			if t.IsPacked() {
				w.viol("desc:packedness", "path", p, "got", true, "want", false)
			}
			if got, want := int(t.WireType()), int(pKindWire[rf.Kind()]); got != want {
				w.viol("desc:wire-type", "path", p, "got", got, "want", want)
			}
			if rf.Kind() == protoreflect.MessageKind {
				w.msg(f.Message(), rf.Message(), p)
			}
		}
	}
	// ---- lookup sweeps: a field comes back iff it is declared
	nums := []int32{0, 536870911, math.MaxInt32, 19000, 65535, 65536}
	for n := int32(1); n <= 40; n++ {
		nums = append(nums, n)
	}
	for i := 0; i < fds.Len(); i++ {
		n := int32(fds.Get(i).Number())
		nums = append(nums, n-1, n+1, n+256, n<<1)
	}
	nums = append(nums, -1, -2, math.MinInt32)
	for _, n := range nums {
		w.lkups++
		f := d.ByNumber(dproto.FieldNumber(n))
		rf := fds.ByNumber(protoreflect.FieldNumber(n))
		if (f == nil) != (rf == nil) {
			w.viol("desc:lookup-number-iff", "path", path, "number", int(n), "got-nil", f == nil, "declared", rf != nil)
		} else if f != nil && int32(f.Number()) != n {
			w.viol("desc:lookup-number-other-field", "path", path, "number", int(n), "got", int(f.Number()))
		}
	}
	var keys []string
	for k := range declaredKeys {
		keys = append(keys, k)
	}
	sort.Strings(keys)
	probe := []string{"", "f", "J", "f_", "key", "value", strings.Repeat("k", 300), "\x00", "\xff\xfe", "-", " "}
	for _, k := range keys {
		probe = append(probe, keyVariants(w.cs.R, k)...)
	}
	for _, k := range w.foreign {
		probe = append(probe, k)
	}
	for _, k := range probe {
		w.lkups++
		rf := declaredKeys[k]
		for which, f := range []*dproto.FieldDescriptor{d.ByName(k), d.ByJSONName(k)} {
			if (f == nil) != (rf == nil) {
				w.viol("desc:lookup-key-iff", "path", path, "key", k, "by", []string{"name", "json"}[which], "got-nil", f == nil, "declared", rf != nil)
			} else if f != nil && int32(f.Number()) != int32(rf.Number()) {
				w.viol("desc:lookup-key-other-field", "path", path, "key", k, "got", int(f.Number()), "want", int(rf.Number()))
			}
		}
	}
}

// foreign keys: names declared in other messages (filled per case)
func (w *c15Walk) setForeign(ks []string) { w.foreign = ks }

// c15DeepChain: a chain of N distinct message types, each referring to the next (no recursion involved).
func c15DeepChain(c *h.Ctx) {
	c.Run("deep-chain", c.N(10, 30), func(cs *h.Case) {
		n := []int{20, 99, 100, 101, 102, 130, 250, 400, 64, 180}[cs.I%10]
		var sb strings.Builder
		sb.WriteString("syntax = \"proto3\";\noption go_package = \"verif/pb\";\n")
		for i := 0; i < n; i++ {
			if i+1 < n {
				fmt.Fprintf(&sb, "message M%d { int32 v = 1; M%d next = %d; repeated M%d more = %d; }\n", i, i+1, 2+i%5, i+1, 9+i%3)
			} else {
				fmt.Fprintf(&sb, "message M%d { int32 v = 1; string leaf = 2; }\n", i)
			}
		}
		sb.WriteString("service Svc { rpc M(M0) returns (M0); }\n")
		text := sb.String()
		cs.Info("chain-length", n)
		fd, _, err := pref.Compile("verif.proto", map[string]string{"verif.proto": text})
		if err != nil {
			panic("harness: " + err.Error())
		}
		svc, err := dproto.NewDescritorFromContent(context.Background(), "verif.proto", text, nil)
		if err != nil {
			cs.Viol("desc:parse-error-on-valid-schema", "err", err, "chain-length", n)
			return
		}
		md := svc.LookupMethodByName("M")
		if md == nil || md.Input() == nil || md.Input().Type() != dproto.MESSAGE {
			cs.Viol("desc:method-type", "method", "M")
			return
		}
		w := &c15Walk{cs: cs, seen: map[*dproto.MessageDescriptor]protoreflect.FullName{}}
		w.msg(md.Input().Message(), fd.Messages().ByName("M0"), "M:in")
		if w.bad {
			return
		}
		if w.msgs < n {
			cs.Viol("desc:deep-chain:messages-reached", "got", w.msgs, "want", n)
			return
		}
		cs.Cover("deep_chain_ok")
		cs.CoverN("deep_chain_messages", w.msgs)
		cs.Distinct(fmt.Sprintf("chain-%d", n))
	})
}

func runC15(c *h.Ctx) {
	defer c15DeepChain(c)
	c.Run("schemas", c.N(4000, 150000), func(cs *h.Case) {
		pkg := []string{"", "vp", "a.b.c"}[cs.R.Intn(3)]
		cfg := gen.PCfg{Unpacked: true, MaxDepth: 1 + cs.R.Intn(3), MaxFields: 1 + cs.R.Intn(9), Nested: cs.R.Chance(70), SameNames: cs.R.Chance(70), BigNums: cs.R.Chance(50), Enums: true, Package: pkg, JSONNames: cs.R.Bool()}
		sc := gen.GenPSchema(cs.R, cfg)
		files := map[string]string{}
		// an imported file with its own package whose messages share simple names with ours
		var imp *gen.PSchema
		if cs.R.Chance(40) {
			ipkg := []string{"imp", "a.b", "vp.inner"}[cs.R.Intn(3)]
			imp = gen.GenPSchema(cs.R, gen.PCfg{MaxDepth: 1, MaxFields: 4, Nested: true, SameNames: true, Enums: false, Package: ipkg})
			// our names continue after theirs, so rename theirs to collide on purpose: same simple names as ours
			for i, m := range imp.All {
				if i < len(sc.All) && cs.R.Bool() && m.Parent == nil && sc.All[i].Parent == nil {
					m.Name = sc.All[i].Name
				}
			}
			// uniqueness inside the imported file
			seen := map[string]bool{}
			ok := true
			for _, m := range imp.Msgs {
				if seen[m.Name] {
					ok = false
				}
				seen[m.Name] = true
			}
			if !ok {
				imp = nil
			} else {
				imp.NoService = true
				files["imp/dep.proto"] = imp.Proto()
				sc.Imports = []string{"imp/dep.proto"}
				// point some of our message fields at imported messages
				n := 0
				for _, m := range sc.All {
					for _, f := range m.Fields {
						if f.Kind == "message" && cs.R.Chance(40) {
							f.Msg = imp.All[cs.R.Intn(len(imp.All))]
							n++
						}
					}
				}
				if n == 0 {
					f := sc.Root.Fields[0]
					f.Kind, f.Map, f.Repeated, f.Enum = "message", false, cs.R.Bool(), nil
					f.Msg = imp.All[cs.R.Intn(len(imp.All))]
				}
			}
		}
		// services and methods
		nsvc := 1 + cs.R.Intn(3)
		mid := 0
		mode := []meta.ParseServiceMode{meta.LastServiceOnly, meta.FirstServiceOnly, meta.CombineServices}[cs.R.Intn(3)]
		var earlier []string // method names of the services before the current one
		mk := func() []gen.PMethod {
			var ms []gen.PMethod
			used := map[string]bool{}
			defer func() {
				for _, m := range ms {
					earlier = append(earlier, m.Name)
				}
			}()
			k := 1 + cs.R.Intn(3)
			if cs.R.Chance(20) {
				k = 0 // a service without methods is still a service (and can be the first or last one)
				cs.Cover("service_without_methods")
			}
			for ; k > 0; k-- {
				mid++
				name := fmt.Sprintf("Call%d", mid)
				// method names are scoped by their service: two services may both declare e.g. Call1 (only when one
				// service is selected; what the combined service does with the clash is not stated)
				if mode != meta.CombineServices && len(earlier) > 0 && cs.R.Chance(35) {
					if n := earlier[cs.R.Intn(len(earlier))]; !used[n] {
						name = n
						cs.Cover("method_name_shared_between_services")
					}
				}
				used[name] = true
				in, out := sc.All[cs.R.Intn(len(sc.All))], sc.All[cs.R.Intn(len(sc.All))]
				if imp != nil && cs.R.Chance(20) {
					out = imp.All[cs.R.Intn(len(imp.All))]
				}
				ms = append(ms, gen.PMethod{Name: name, In: in, Out: out, ClientStream: cs.R.Chance(25), ServerStream: cs.R.Chance(25)})
			}
			return ms
		}
		sc.Service = "SvcA"
		sc.Methods = mk()
		sc.EmptyFirstService = true
		for k := 1; k < nsvc; k++ {
			sc.MoreServices = append(sc.MoreServices, gen.PService{Name: fmt.Sprintf("Svc%c", 'A'+k), Methods: mk()})
		}
		text := sc.Proto()
		files["verif.proto"] = text
		cs.Info("proto", text)
		if imp != nil {
			cs.Info("import", files["imp/dep.proto"])
		}
		rfd, _, err := pref.Compile("verif.proto", files)
		if err != nil {
			cs.Cover("oracle_schema_rejected")
			cs.Info("oracle-error", err.Error())
			return
		}
		cs.Info("mode", int(mode))
		opts := dproto.Options{ParseServiceMode: mode}
		includes := map[string]string{}
		for k, v := range files {
			includes[k] = v
		}
		if cs.R.Chance(30) {
			// the same includes map served an earlier version of the main file: what counts is the content passed now
			delete(includes, "verif.proto")
			opts.NewDesccriptorFromContent(context.Background(), "verif.proto", "syntax = \"proto3\";\nmessage Old { int32 a = 1; }\nservice OldSvc { rpc OldCall(Old) returns (Old); }\n", includes)
			cs.Cover("includes_map_reused_for_a_new_version")
		}
		svc, err := opts.NewDesccriptorFromContent(context.Background(), "verif.proto", text, includes)
		if err != nil {
			cs.Viol("desc:parse-error-on-valid-schema", "err", err)
			return
		}
		// ---- methods
		rsvcs := rfd.Services()
		want := map[string]protoreflect.MethodDescriptor{}
		wantName := ""
		add := func(i int) {
			ms := rsvcs.Get(i).Methods()
			for k := 0; k < ms.Len(); k++ {
				want[string(ms.Get(k).Name())] = ms.Get(k)
			}
		}
		switch mode {
		case meta.LastServiceOnly:
			add(rsvcs.Len() - 1)
			wantName = string(rsvcs.Get(rsvcs.Len() - 1).Name())
		case meta.FirstServiceOnly:
			add(0)
			wantName = string(rsvcs.Get(0).Name())
		default:
			for i := 0; i < rsvcs.Len(); i++ {
				add(i)
			}
			wantName = "CombinedService"
		}
		if svc.Name() != wantName || svc.IsCombinedServices() != (mode == meta.CombineServices) || svc.PackageName() != string(rfd.Package()) {
			cs.Viol("desc:service-identity", "name", svc.Name(), "want", wantName, "package", svc.PackageName(), "combined", svc.IsCombinedServices())
		}
		got := svc.Methods()
		var gn, wn []string
		for k := range got {
			gn = append(gn, k)
		}
		for k := range want {
			wn = append(wn, k)
		}
		sort.Strings(gn)
		sort.Strings(wn)
		if strings.Join(gn, ",") != strings.Join(wn, ",") {
			cs.Viol("desc:method-set", "got", strings.Join(gn, ","), "want", strings.Join(wn, ","), "mode", int(mode))
			return
		}
		// method lookup: declared iff returned
		for i := 0; i < rsvcs.Len(); i++ {
			ms := rsvcs.Get(i).Methods()
			for k := 0; k < ms.Len(); k++ {
				n := string(ms.Get(k).Name())
				if (svc.LookupMethodByName(n) != nil) != (want[n] != nil) {
					cs.Viol("desc:method-lookup-iff", "method", n, "mode", int(mode))
				}
			}
		}
		for _, n := range []string{"", "Call", "Call0", "call1", "Call1 ", "M"} {
			if svc.LookupMethodByName(n) != nil {
				cs.Viol("desc:method-lookup-iff", "method", n)
			}
		}
		// foreign keys for the lookup sweeps
		var foreign []string
		for _, m := range sc.All {
			for _, f := range m.Fields {
				foreign = append(foreign, f.Name)
				if f.JSONName != "" {
					foreign = append(foreign, f.JSONName)
				}
			}
		}
		if len(foreign) > 40 {
			foreign = foreign[:40]
		}
		w := &c15Walk{cs: cs, seen: map[*dproto.MessageDescriptor]protoreflect.FullName{}}
		w.setForeign(foreign)
		for _, n := range wn {
			md, rm := got[n], want[n]
			if md.Name() != n || md.IsClientStreaming() != rm.IsStreamingClient() || md.IsServerStreaming() != rm.IsStreamingServer() {
				cs.Viol("desc:method-flags", "method", n, "got", fmt.Sprintf("%s c=%v s=%v", md.Name(), md.IsClientStreaming(), md.IsServerStreaming()), "want", fmt.Sprintf("c=%v s=%v", rm.IsStreamingClient(), rm.IsStreamingServer()))
			}
			for which, td := range []*dproto.TypeDescriptor{md.Input(), md.Output()} {
				rmsg := rm.Input()
				if which == 1 {
					rmsg = rm.Output()
				}
				if td == nil || td.Type() != dproto.MESSAGE {
					cs.Viol("desc:method-type", "method", n, "which", which)
					continue
				}
				// request and response trees are parsed separately: identity is checked per tree
				w.seen = map[*dproto.MessageDescriptor]protoreflect.FullName{}
				w.msg(td.Message(), rmsg, n+[]string{":in", ":out"}[which])
			}
		}
		if w.bad {
			return
		}
		cs.CoverN("messages_compared", w.msgs)
		cs.CoverN("fields_compared", w.flds)
		cs.CoverN("lookups_checked", w.lkups)
		cs.Cover("schema_ok")
		if imp != nil {
			cs.Cover("schema_with_import_ok")
		}
		if nsvc > 1 {
			cs.Cover(fmt.Sprintf("multi_service_mode_%d", mode))
		}
		cs.Distinct(fmt.Sprintf("sch-%d-%d-%v-%d-%d-%d", mode, nsvc, imp != nil, len(sc.All), w.msgs, w.flds))
		if cs.I == 5 {
			cs.Sample(map[string]interface{}{"proto": text, "mode": int(mode), "messages": w.msgs, "fields": w.flds, "lookups": w.lkups})
		}
	})
}
