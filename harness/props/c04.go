package props

import (
	"bytes"
	"fmt"

	"github.com/cloudwego/dynamicgo/thrift"
	"github.com/cloudwego/dynamicgo/thrift/generic"

	"verifharness/gen"
	"verifharness/h"
	"verifharness/tref"
)

func init() { h.Register("C04", runC04) }

// ---- model-side paths -------------------------------------------------------

const (
	stField = iota
	stIndex
	stKey
)

type mstep struct {
	Kind int
	ID   int16
	Idx  int
	Key  *tref.Val
}

func (s mstep) String() string {
	switch s.Kind {
	case stField:
		return fmt.Sprintf("field(%d)", s.ID)
	case stIndex:
		return fmt.Sprintf("index(%d)", s.Idx)
	}
	return "key(" + s.Key.String() + ")"
}

func mpathStr(p []mstep) string {
	s := ""
	for _, x := range p {
		s += "/" + x.String()
	}
	return s
}

const (
	mFound = iota
	mAbsentLast
	mAbsentInner
	mWrongKind
)

// mchild returns the child addressed by one step, and whether the step kind fits v.
func mchild(v *tref.Val, s mstep) (child *tref.Val, pos int, fits bool) {
	switch s.Kind {
	case stField:
		if v.T != tref.STRUCT {
			return nil, -1, false
		}
		for i, f := range v.Fs {
			if f.ID == s.ID {
				return f.V, i, true
			}
		}
		return nil, -1, true
	case stIndex:
		if v.T != tref.LIST && v.T != tref.SET {
			return nil, -1, false
		}
		if s.Idx >= 0 && s.Idx < len(v.L) {
			return v.L[s.Idx], s.Idx, true
		}
		return nil, -1, true
	default:
		if v.T != tref.MAP || v.KT != s.Key.T {
			return nil, -1, false
		}
		for i, k := range v.K {
			if tref.Equal(k, s.Key) {
				return v.L[i], i, true
			}
		}
		return nil, -1, true
	}
}

// mresolve walks p in v. Returns the parent of the last step, the element (if found) and the status.
func mresolve(v *tref.Val, p []mstep) (parent *tref.Val, elem *tref.Val, pos int, status int) {
	cur := v
	for i, s := range p {
		c, ps, fits := mchild(cur, s)
		if !fits {
			return nil, nil, -1, mWrongKind
		}
		if c == nil {
			if i == len(p)-1 {
				return cur, nil, -1, mAbsentLast
			}
			return nil, nil, -1, mAbsentInner
		}
		if i == len(p)-1 {
			return cur, c, ps, mFound
		}
		cur = c
	}
	return nil, v, -1, mFound
}

func toGenericPath(p []mstep, t *gen.Type, byName bool) []generic.Path {
	out := make([]generic.Path, 0, len(p))
	cur := t
	for _, s := range p {
		switch s.Kind {
		case stField:
			var fd *gen.FieldT
			if cur != nil && cur.S != nil {
				fd = cur.S.Field(s.ID)
			}
			if byName && fd != nil {
				out = append(out, generic.NewPathFieldName(fd.Name))
			} else {
				out = append(out, generic.NewPathFieldId(thrift.FieldID(s.ID)))
			}
			if fd != nil {
				cur = fd.T
			} else {
				cur = nil
			}
		case stIndex:
			out = append(out, generic.NewPathIndex(s.Idx))
			if cur != nil {
				cur = cur.Elem
			}
		default:
			out = append(out, keyPath(s.Key))
			if cur != nil {
				cur = cur.Elem
			}
		}
	}
	return out
}

// typeAt returns the declared type at the end of p (nil if unknown).
func typeAt(t *gen.Type, p []mstep) *gen.Type {
	cur := t
	for _, s := range p {
		if cur == nil {
			return nil
		}
		switch s.Kind {
		case stField:
			if cur.S == nil {
				return nil
			}
			fd := cur.S.Field(s.ID)
			if fd == nil {
				return nil
			}
			cur = fd.T
		default:
			cur = cur.Elem
		}
	}
	return cur
}

// allPaths lists the model paths of every node (except the root).
func allPaths(v *tref.Val, limit int) [][]mstep {
	var out [][]mstep
	var rec func(n *tref.Val, p []mstep)
	rec = func(n *tref.Val, p []mstep) {
		if len(out) >= limit {
			return
		}
		add := func(c *tref.Val, s mstep) {
			np := append(append([]mstep{}, p...), s)
			out = append(out, np)
			rec(c, np)
		}
		switch n.T {
		case tref.STRUCT:
			for _, f := range n.Fs {
				add(f.V, mstep{Kind: stField, ID: f.ID})
			}
		case tref.LIST, tref.SET:
			for i, e := range n.L {
				add(e, mstep{Kind: stIndex, Idx: i})
			}
		case tref.MAP:
			for i, e := range n.L {
				add(e, mstep{Kind: stKey, Key: n.K[i]})
			}
		}
	}
	rec(v, nil)
	return out
}

// containerPaths lists paths (incl. the root = empty path) of containers.
func containerPaths(v *tref.Val, limit int) [][]mstep {
	out := [][]mstep{{}}
	for _, p := range allPaths(v, limit) {
		_, e, _, _ := mresolve(v, p)
		if e != nil && isContainer(e.T) {
			out = append(out, p)
		}
	}
	return out
}

// mreplace returns a copy of v with the element at p replaced by nv.
func mreplace(v *tref.Val, p []mstep, nv *tref.Val) *tref.Val {
	c := v.Clone()
	parent, _, pos, st := mresolve(c, p)
	if st != mFound || parent == nil {
		return nil
	}
	switch parent.T {
	case tref.STRUCT:
		parent.Fs[pos].V = nv.Clone()
	default:
		parent.L[pos] = nv.Clone()
	}
	return c
}

func mremove(v *tref.Val, p []mstep) *tref.Val {
	c := v.Clone()
	parent, _, pos, st := mresolve(c, p)
	if st != mFound || parent == nil {
		return nil
	}
	switch parent.T {
	case tref.STRUCT:
		parent.Fs = append(parent.Fs[:pos], parent.Fs[pos+1:]...)
	case tref.MAP:
		parent.K = append(parent.K[:pos], parent.K[pos+1:]...)
		parent.L = append(parent.L[:pos], parent.L[pos+1:]...)
	default:
		parent.L = append(parent.L[:pos], parent.L[pos+1:]...)
	}
	return c
}

// minsertAll returns every model obtained by inserting (step,nv) into the container at parentPath at any position.
func minsertAll(v *tref.Val, p []mstep, nv *tref.Val) []*tref.Val {
	last := p[len(p)-1]
	base := v.Clone()
	var parent *tref.Val
	if len(p) == 1 {
		parent = base
	} else {
		_, e, _, st := mresolve(base, p[:len(p)-1])
		if st != mFound {
			return nil
		}
		parent = e
	}
	n := len(parent.L)
	if parent.T == tref.STRUCT {
		n = len(parent.Fs)
	}
	var out []*tref.Val
	for pos := 0; pos <= n; pos++ {
		c := v.Clone()
		var par *tref.Val
		if len(p) == 1 {
			par = c
		} else {
			_, par, _, _ = mresolve(c, p[:len(p)-1])
		}
		switch par.T {
		case tref.STRUCT:
			fs := append([]tref.Field{}, par.Fs[:pos]...)
			fs = append(fs, tref.Field{ID: last.ID, V: nv.Clone()})
			par.Fs = append(fs, par.Fs[pos:]...)
		case tref.MAP:
			ks := append([]*tref.Val{}, par.K[:pos]...)
			ks = append(ks, last.Key.Clone())
			par.K = append(ks, par.K[pos:]...)
			ls := append([]*tref.Val{}, par.L[:pos]...)
			ls = append(ls, nv.Clone())
			par.L = append(ls, par.L[pos:]...)
		default:
			ls := append([]*tref.Val{}, par.L[:pos]...)
			ls = append(ls, nv.Clone())
			par.L = append(ls, par.L[pos:]...)
		}
		out = append(out, c)
	}
	return out
}

// ---- session ----------------------------------------------------------------

type fork struct {
	n    generic.Node
	snap []byte
	step int
}

type c04sess struct {
	cs    *h.Case
	root  *gen.Type
	cur   *tref.Val
	node  generic.Node
	val   generic.Value
	typed bool
	forks []fork
	step  int
	log   []string
}

func (s *c04sess) raw() []byte {
	if s.typed {
		return s.val.Raw()
	}
	return s.node.Raw()
}

func mkNode(cs *h.Case, nv *tref.Val) generic.Node {
	b := tref.Encode(nv.Clone())
	if cs.R.Chance(30) {
		switch nv.T {
		case tref.BOOL:
			return generic.NewNodeBool(nv.B)
		case tref.BYTE:
			return generic.NewNodeByte(byte(nv.I))
		case tref.I16:
			return generic.NewNodeInt16(int16(nv.I))
		case tref.I32:
			return generic.NewNodeInt32(int32(nv.I))
		case tref.I64:
			return generic.NewNodeInt64(nv.I)
		case tref.DOUBLE:
			return generic.NewNodeDouble(nv.F)
		case tref.STRING:
			if cs.R.Bool() {
				return generic.NewNodeString(string(nv.S))
			}
			return generic.NewNodeBinary(nv.S)
		}
	}
	return generic.NewNode(thrift.Type(nv.T), b)
}

// genFor generates a new value for the slot at path p (declared type if known, else same type as old).
func (s *c04sess) genFor(p []mstep, old *tref.Val, wantT byte) *tref.Val {
	t := typeAt(s.root, p)
	cfg := gen.ValCfg{NonFinite: true, InvalidUTF8: true, MaxElems: 4, ShuffleFlds: true}
	if t != nil {
		return gen.GenVal(s.cs.R, t, cfg, 2)
	}
	if old != nil {
		if !isContainer(old.T) {
			return gen.GenVal(s.cs.R, &gen.Type{T: old.T}, cfg, 2)
		}
		c := old.Clone()
		return c
	}
	return gen.GenVal(s.cs.R, &gen.Type{T: wantT}, cfg, 2)
}

func (s *c04sess) check(op string, expect []*tref.Val) bool {
	cs := s.cs
	buf := s.raw()
	dec, err := tref.Decode(buf, tref.STRUCT)
	if err != nil {
		cs.Viol("edit:"+op+":malformed", "decode-error", err, "buf", buf, "log", s.log)
		return false
	}
	for _, e := range expect {
		if tref.Equal(dec, e) {
			s.cur = dec
			return true
		}
	}
	cs.Viol("edit:"+op+":value", "got", dec.String(), "want(one of)", expect[0].String(), "alternatives", len(expect), "log", s.log)
	return false
}

func (s *c04sess) checkForks() bool {
	for _, f := range s.forks {
		if !bytes.Equal(f.n.Raw(), f.snap) {
			s.cs.Viol("edit:fork-changed-by-origin-edit", "fork-step", f.step, "now-step", s.step, "log", s.log)
			return false
		}
	}
	return true
}

func runC04(c *h.Ctx) {
	c.Run("edits", c.N(20000, 400000), func(cs *h.Case) {
		sc := gen.GenSchema(cs.R, gen.Cfg{MaxDepth: 3, MaxFields: 5, StructKeys: cs.R.Chance(30), BigIDs: true, Recursive: true, SharedNames: cs.R.Bool()})
		root := structType(sc.Root)
		idl := sc.IDL()
		cs.Info("idl", idl)
		v := gen.GenVal(cs.R, root, gen.ValCfg{NonFinite: true, InvalidUTF8: true, ShuffleFlds: cs.R.Bool(), MaxElems: 6}, 0)
		b := tref.Encode(v)
		cs.Info("initial", hexs(b))
		s := &c04sess{cs: cs, root: root, cur: v, typed: cs.R.Chance(40)}
		if s.typed {
			desc, _, err := ParseRoot(sc, thrift.NewDefaultOptions())
			if err != nil {
				cs.Viol("edit:parse-idl", "err", err)
				return
			}
			s.val = generic.NewValue(desc, append([]byte{}, b...))
		} else {
			s.node = generic.NewNode(thrift.STRUCT, append([]byte{}, b...))
		}
		cs.Info("typed", s.typed)
		generic.UseNativeSkipForGet = cs.R.Chance(30)
		defer func() { generic.UseNativeSkipForGet = false }()
		nsteps := 1 + cs.R.Intn(12)
		for s.step = 0; s.step < nsteps; s.step++ {
			if !c04Step(s) {
				return
			}
			if !s.checkForks() {
				return
			}
			// occasionally fork and later edit the fork: the origin must not change
			if cs.R.Chance(20) {
				var f generic.Node
				if s.typed {
					f = s.val.Fork().Node
				} else {
					f = s.node.Fork()
				}
				if !bytes.Equal(f.Raw(), s.raw()) {
					cs.Viol("edit:fork-differs", "log", s.log)
					return
				}
				s.forks = append(s.forks, fork{n: f, snap: append([]byte{}, f.Raw()...), step: s.step})
				cs.Cover("forks")
				// edit the fork through a copy of its handle; origin is re-checked by the next step's decode
				paths := allPaths(s.cur, 60)
				if len(paths) > 0 {
					p := paths[cs.R.Intn(len(paths))]
					_, old, _, _ := mresolve(s.cur, p)
					nv := s.genFor(p, old, old.T)
					if nv.T == old.T {
						f2 := f.Fork()
						before := append([]byte{}, s.raw()...)
						f2.SetByPath(mkNode(cs, nv), toGenericPath(p, s.root, false)...)
						if !bytes.Equal(before, s.raw()) {
							cs.Viol("edit:origin-changed-by-fork-edit", "log", s.log)
							return
						}
					}
				}
			}
		}
		cs.Distinct(fmt.Sprintf("sess-%v-%s", s.typed, opsKey(s.log)))
		if cs.I == 7 {
			cs.Sample(map[string]interface{}{"idl": idl, "initial": v.String(), "ops": s.log, "final": s.cur.String()})
		}
	})
	c04SetManyContainers(c)
}

// c04SetManyContainers: SetMany on stand-alone LIST / SET / MAP nodes with a mix of present and absent targets.
func c04SetManyContainers(c *h.Ctx) {
	c.Run("setmany-containers", c.N(6000, 120000), func(cs *h.Case) {
		var t *gen.Type
		elemTs := []*gen.Type{{T: tref.I32}, {T: tref.STRING}, {T: tref.I64}, {T: tref.BOOL}, {T: tref.DOUBLE}, {T: tref.BYTE}, {T: tref.I16}}
		et := elemTs[cs.R.Intn(len(elemTs))]
		if cs.R.Chance(25) {
			sc := gen.GenSchema(cs.R, gen.Cfg{MaxDepth: 1, MaxFields: 3})
			et = structType(sc.Root)
		}
		switch cs.R.Intn(3) {
		case 0:
			t = &gen.Type{T: tref.LIST, Elem: et}
		case 1:
			t = &gen.Type{T: tref.MAP, Key: &gen.Type{T: tref.STRING}, Elem: et}
		default:
			kts := []byte{tref.BYTE, tref.I16, tref.I32, tref.I64}
			t = &gen.Type{T: tref.MAP, Key: &gen.Type{T: kts[cs.R.Intn(4)]}, Elem: et}
		}
		cfg := gen.ValCfg{MaxElems: 6, MaxStr: 20}
		v := gen.GenVal(cs.R, t, cfg, 1)
		// wide calls: more paths in one SetMany than any internal scratch slice holds by default (16)
		wide := cs.R.Chance(8)
		if wide {
			t = &gen.Type{T: tref.LIST, Elem: et}
			v = &tref.Val{T: tref.LIST, ET: et.T}
			for k := 24 + cs.R.Intn(20); k > 0; k-- {
				v.L = append(v.L, gen.GenVal(cs.R, et, cfg, 2))
			}
			cs.Cover("setmany_wide_calls")
		}
		b := tref.Encode(v)
		cs.Info("type", t.String())
		cs.Info("initial", v.String())
		node := generic.NewNode(thrift.Type(t.T), append([]byte{}, b...))
		n := 1 + cs.R.Intn(3)
		if wide {
			n = 17 + cs.R.Intn(10)
		}
		var pns []generic.PathNode
		alts := []*tref.Val{v}
		desc := ""
		inserts, replaces := 0, 0
		type smop struct {
			st mstep
			nv *tref.Val
		}
		var ops []smop
		usedIdx := map[int]bool{}
		usedKey := map[string]bool{}
		for i := 0; i < n; i++ {
			nv := gen.GenVal(cs.R, et, cfg, 2)
			var st mstep
			if t.T == tref.LIST {
				idx := cs.R.Intn(len(v.L) + 1)
				if wide {
					idx = cs.R.Intn(len(v.L)) // replacements only
				}
				if idx == len(v.L) && inserts > 0 {
					continue // only one one-past-the-end insertion per call
				}
				if usedIdx[idx] {
					continue
				}
				usedIdx[idx] = true
				st = mstep{Kind: stIndex, Idx: idx}
				if idx == len(v.L) {
					inserts++
				} else {
					replaces++
				}
			} else {
				var k *tref.Val
				if len(v.K) > 0 && cs.R.Bool() {
					k = v.K[cs.R.Intn(len(v.K))].Clone()
				} else {
					k = gen.GenVal(cs.R, t.Key, cfg, 2)
					if k.T == tref.BYTE && k.I < 0 {
						k.I = -(k.I + 1)
					}
				}
				ks := string(tref.Encode(k.Clone()))
				if usedKey[ks] {
					continue
				}
				usedKey[ks] = true
				st = mstep{Kind: stKey, Key: k}
				if c, _, _ := mchild(v, st); c == nil {
					inserts++
				} else {
					replaces++
				}
			}
			pns = append(pns, generic.PathNode{Path: toGenericPath([]mstep{st}, nil, false)[0], Node: mkNode(cs, nv)})
			desc += " " + st.String() + ":=" + nv.String()
			ops = append(ops, smop{st, nv})
		}
		// model: replacements address the original positions, so they are applied first; then the insertion(s)
		for pass := 0; pass < 2; pass++ {
			for _, o := range ops {
				c, _, _ := mchild(v, o.st)
				if (pass == 0) != (c != nil) {
					continue
				}
				var next []*tref.Val
				for _, m := range alts {
					if c != nil {
						next = append(next, mreplace(m, []mstep{o.st}, o.nv))
					} else {
						next = append(next, minsertAll(m, []mstep{o.st}, o.nv)...)
					}
				}
				alts = next
				if len(alts) > 300 {
					return
				}
			}
		}
		if len(pns) == 0 {
			return
		}
		cs.Info("setmany", desc)
		err := node.SetMany(pns, &generic.Options{})
		kind := tref.TypeName(t.T)
		if inserts > 0 && replaces > 0 {
			kind += ":mixed"
		} else if inserts > 0 {
			kind += ":insert"
		} else {
			kind += ":replace"
		}
		if err != nil {
			cs.Viol("edit:setmany:"+kind+":error", "err", err)
			return
		}
		dec, derr := tref.Decode(node.Raw(), t.T)
		if derr != nil {
			cs.Viol("edit:setmany:"+kind+":malformed", "decode-error", derr, "buf", node.Raw())
			return
		}
		ok := false
		for _, a := range alts {
			if tref.Equal(a, dec) {
				ok = true
				break
			}
		}
		if !ok {
			cs.Viol("edit:setmany:"+kind+":value", "got", dec.String(), "want(one of)", alts[0].String(), "alternatives", len(alts))
		}
		cs.Cover("op_setmany_" + kind)
		cs.Distinct(fmt.Sprintf("smc-%s-%s-%d-%d-%d", kind, et.String()[:1], sizeClass(len(v.L)), inserts, replaces))
	})
}

func opsKey(log []string) string {
	k := ""
	for _, l := range log {
		for i := 0; i < len(l); i++ {
			if l[i] == ' ' {
				k += l[:i] + ","
				break
			}
		}
	}
	return k
}

// c04Step performs one random edit and checks it against the model. Returns false to stop the session.
func c04Step(s *c04sess) bool {
	cs := s.cs
	paths := allPaths(s.cur, 150)
	conts := containerPaths(s.cur, 150)
	kind := cs.R.Intn(100)
	byName := s.typed && cs.R.Bool()
	apply := func(op string, p []mstep, nv *tref.Val) (bool, error) {
		gp := toGenericPath(p, s.root, byName)
		switch op {
		case "set":
			if s.typed {
				t := typeAt(s.root, p)
				var d *thrift.TypeDescriptor
				if t != nil {
					dd, err := generic.GetDescByPath(s.val.Desc, toGenericPath(p, s.root, false)...)
					if err == nil {
						d = dd
					}
				}
				sub := generic.Value{Node: mkNode(cs, nv), Desc: d}
				return s.val.SetByPath(sub, gp...)
			}
			return s.node.SetByPath(mkNode(cs, nv), gp...)
		case "replace":
			f := func(generic.Node) generic.Node { return mkNode(cs, nv) }
			if s.typed {
				return s.val.Node.ReplaceByPath(f, toGenericPath(p, s.root, false)...)
			}
			return s.node.ReplaceByPath(f, gp...)
		case "unset":
			if s.typed {
				return false, s.val.UnsetByPath(gp...)
			}
			return false, s.node.UnsetByPath(gp...)
		}
		panic("op")
	}
	logf := func(f string, a ...interface{}) { s.log = append(s.log, fmt.Sprintf(f, a...)) }

	switch {
	case kind < 30 && len(paths) > 0: // set / replace an existing element
		p := paths[cs.R.Intn(len(paths))]
		if len(s.log) > 0 && cs.R.Chance(25) {
			// repeated edit of a recently edited element, if still present
		}
		_, old, _, _ := mresolve(s.cur, p)
		nv := s.genFor(p, old, old.T)
		if nv.T != old.T {
			return true
		}
		if nv.T == tref.LIST || nv.T == tref.SET || nv.T == tref.MAP {
			if (nv.ET != old.ET || nv.KT != old.KT) && typeAt(s.root, p) == nil {
				return true
			}
		}
		op := "set"
		if cs.R.Chance(35) {
			op = "replace"
		}
		if op == "replace" && cs.R.Chance(15) {
			// a replacement of another thrift type is refused and leaves the value as it was
			wrong := tref.Str("wrong-type")
			if old.T == tref.STRING {
				wrong = tref.Int32(7)
			}
			logf("replace-wrong-type %s := %s (element is %s)", mpathStr(p), wrong.String(), tref.TypeName(old.T))
			_, err := apply("replace", p, wrong)
			if err == nil {
				cs.Viol("edit:replace-wrong-type:accepted", "element-type", tref.TypeName(old.T), "log", s.log)
				return false
			}
			cs.Cover("op_replace_wrong_type_rejected")
			return s.check("replace-wrong-type", []*tref.Val{s.cur})
		}
		logf("%s-present %s := %s", op, mpathStr(p), nv.String())
		exist, err := apply(op, p, nv)
		if err != nil || !exist {
			cs.Viol("edit:"+op+"-present:flag", "exist", exist, "err", err, "log", s.log)
			return false
		}
		cs.Cover("op_" + op + "_present")
		return s.check(op+"-present", []*tref.Val{mreplace(s.cur, p, nv)})

	case kind < 55: // insert absent-last
		cp := conts[cs.R.Intn(len(conts))]
		var cont *tref.Val
		if len(cp) == 0 {
			cont = s.cur
		} else {
			_, cont, _, _ = mresolve(s.cur, cp)
		}
		var st mstep
		var wantT byte
		ct := typeAt(s.root, cp)
		switch cont.T {
		case tref.STRUCT:
			// declared-but-absent field, else an undeclared id (untyped only)
			var cands []*gen.FieldT
			if ct != nil && ct.S != nil {
				for _, fd := range ct.S.Fields {
					if cont.FieldByID(fd.ID) == nil {
						cands = append(cands, fd)
					}
				}
			}
			if len(cands) > 0 {
				fd := cands[cs.R.Intn(len(cands))]
				st = mstep{Kind: stField, ID: fd.ID}
				wantT = fd.T.T
			} else if !s.typed {
				id := int16(20000 + cs.R.Intn(1000))
				if cont.FieldByID(id) != nil {
					return true
				}
				st = mstep{Kind: stField, ID: id}
				wantT = []byte{tref.I32, tref.STRING, tref.BOOL, tref.DOUBLE}[cs.R.Intn(4)]
			} else {
				return true
			}
		case tref.LIST, tref.SET:
			st = mstep{Kind: stIndex, Idx: len(cont.L)}
			wantT = cont.ET
		case tref.MAP:
			var k *tref.Val
			for tries := 0; tries < 5; tries++ {
				kt := &gen.Type{T: cont.KT}
				if ct != nil && ct.Key != nil {
					kt = ct.Key
				}
				k = gen.GenVal(cs.R, kt, gen.ValCfg{MaxStr: 20, MaxElems: 2}, 3)
				if k.T == tref.BYTE && k.I < 0 {
					k.I = -(k.I + 1)
				}
				if k.T == tref.DOUBLE && k.F == 0 {
					k.F = 0
				}
				dup := false
				for _, kk := range cont.K {
					if tref.Equal(kk, k) {
						dup = true
					}
				}
				if !dup {
					break
				}
				k = nil
			}
			if k == nil {
				return true
			}
			st = mstep{Kind: stKey, Key: k}
			wantT = cont.ET
		}
		p := append(append([]mstep{}, cp...), st)
		nv := s.genFor(p, nil, wantT)
		if nv.T != wantT {
			return true
		}
		if (cont.T == tref.LIST || cont.T == tref.SET || cont.T == tref.MAP) && isContainer(nv.T) && typeAt(s.root, p) == nil {
			return true // element shape unknown: cannot build a conforming element
		}
		if cont.T == tref.SET {
			for _, e := range cont.L {
				if tref.Equal(e, nv) {
					return true
				}
			}
		}
		logf("set-absent %s := %s", mpathStr(p), nv.String())
		exist, err := apply("set", p, nv)
		if err != nil || exist {
			cs.Viol("edit:set-absent:flag:"+tref.TypeName(cont.T), "exist", exist, "err", err, "log", s.log)
			return false
		}
		cs.Cover("op_insert_" + tref.TypeName(cont.T))
		if len(cont.L)+len(cont.Fs) == 0 {
			cs.Cover("op_insert_into_empty")
		}
		return s.check("set-absent:"+tref.TypeName(cont.T), minsertAll(s.cur, p, nv))

	case kind < 75 && len(paths) > 0: // unset present
		p := paths[cs.R.Intn(len(paths))]
		logf("unset-present %s", mpathStr(p))
		_, err := apply("unset", p, nil)
		if err != nil {
			cs.Viol("edit:unset-present:error", "err", err, "log", s.log)
			return false
		}
		cs.Cover("op_unset_present")
		return s.check("unset-present", []*tref.Val{mremove(s.cur, p)})

	case kind < 85: // unset absent: nothing changes
		cp := conts[cs.R.Intn(len(conts))]
		var cont *tref.Val
		if len(cp) == 0 {
			cont = s.cur
		} else {
			_, cont, _, _ = mresolve(s.cur, cp)
		}
		var st mstep
		switch cont.T {
		case tref.STRUCT:
			id := int16(20000 + cs.R.Intn(1000))
			ct := typeAt(s.root, cp)
			if s.typed {
				// typed: use a declared-but-absent field if there is one
				found := false
				if ct != nil && ct.S != nil {
					for _, fd := range ct.S.Fields {
						if cont.FieldByID(fd.ID) == nil {
							id = fd.ID
							found = true
							break
						}
					}
				}
				if !found {
					return true
				}
			}
			if cont.FieldByID(id) != nil {
				return true
			}
			st = mstep{Kind: stField, ID: id}
		case tref.LIST, tref.SET:
			st = mstep{Kind: stIndex, Idx: len(cont.L) + cs.R.Intn(3)}
		case tref.MAP:
			var k *tref.Val
			switch cont.KT {
			case tref.STRING:
				k = tref.Str("absent-key-" + fmt.Sprint(cs.R.Intn(1000)))
			case tref.BYTE:
				k = tref.Byte(int8(cs.R.Intn(128)))
			case tref.I16:
				k = tref.Int16(int16(cs.R.Intn(30000)))
			case tref.I32:
				k = tref.Int32(int32(cs.R.U64()))
			case tref.I64:
				k = tref.Int64(int64(cs.R.U64()))
			case tref.DOUBLE:
				k = tref.Double(float64(cs.R.Intn(1000)) + 0.25)
			default:
				return true
			}
			for _, kk := range cont.K {
				if tref.Equal(kk, k) {
					return true
				}
			}
			st = mstep{Kind: stKey, Key: k}
		}
		p := append(append([]mstep{}, cp...), st)
		logf("unset-absent %s", mpathStr(p))
		_, _ = apply("unset", p, nil) // error or nil are both acceptable; the value must not change
		cs.Cover("op_unset_absent_" + tref.TypeName(cont.T))
		return s.check("unset-absent:"+tref.TypeName(cont.T), []*tref.Val{s.cur})

	case kind < 93 && len(paths) > 0: // failing ops: absent-inner / wrong-kind / replace absent
		p := append([]mstep{}, paths[cs.R.Intn(len(paths))]...)
		_, el, _, _ := mresolve(s.cur, p)
		var bad []mstep
		what := ""
		switch cs.R.Intn(3) {
		case 0: // absent-inner: go through an absent child then one more step
			if !isContainer(el.T) {
				return true
			}
			switch el.T {
			case tref.STRUCT:
				if s.typed {
					return true
				}
				bad = append(p, mstep{Kind: stField, ID: 31000}, mstep{Kind: stField, ID: 1})
			case tref.LIST, tref.SET:
				bad = append(p, mstep{Kind: stIndex, Idx: len(el.L) + 2}, mstep{Kind: stField, ID: 1})
				if s.typed && (typeAt(s.root, p) == nil || typeAt(s.root, p).Elem.T != tref.STRUCT) {
					return true
				}
			default:
				return true
			}
			what = "absent-inner"
		case 1: // wrong kind for the node
			switch el.T {
			case tref.STRUCT:
				bad = append(p, mstep{Kind: stIndex, Idx: 0})
			case tref.LIST, tref.SET, tref.MAP:
				bad = append(p, mstep{Kind: stField, ID: 1})
			default:
				bad = append(p, mstep{Kind: stIndex, Idx: 0})
			}
			what = "wrong-kind"
		default: // replace on an absent element
			if el.T != tref.LIST && el.T != tref.SET {
				return true
			}
			bad = append(p, mstep{Kind: stIndex, Idx: len(el.L)})
			what = "replace-absent"
		}
		nv := tref.Int32(5)
		logf("fail-%s %s", what, mpathStr(bad))
		var err error
		var exist bool
		if what == "replace-absent" {
			exist, err = apply("replace", bad, nv)
		} else if cs.R.Bool() {
			exist, err = apply("set", bad, nv)
		} else {
			_, _ = apply("unset", bad, nil)
			// unsetting something that is not there (absent parent, or a kind that cannot have
			// such a child) may report nil or an error: only "changes nothing" is asserted
			err = fmt.Errorf("n/a")
		}
		if err == nil || exist {
			cs.Viol("edit:fail-"+what+":no-error", "exist", exist, "err", err, "log", s.log)
			return false
		}
		cs.Cover("op_fail_" + what)
		return s.check("fail-"+what, []*tref.Val{s.cur})

	default: // SetMany on the root struct: mix of present and absent declared fields
		if s.typed {
			return true
		}
		ct := s.root
		var pns []generic.PathNode
		exp := [][]*tref.Val{{s.cur}}
		used := map[int16]bool{}
		n := 1 + cs.R.Intn(4)
		desc := ""
		inserts := 0
		for i := 0; i < n; i++ {
			fd := ct.S.Fields[cs.R.Intn(len(ct.S.Fields))]
			if used[fd.ID] {
				continue
			}
			used[fd.ID] = true
			nv := gen.GenVal(cs.R, fd.T, gen.ValCfg{MaxElems: 3, NonFinite: true}, 2)
			pns = append(pns, generic.PathNode{Path: generic.NewPathFieldId(thrift.FieldID(fd.ID)), Node: mkNode(cs, nv)})
			p := []mstep{{Kind: stField, ID: fd.ID}}
			var next [][]*tref.Val
			for _, alts := range exp {
				for _, m := range alts {
					if m.FieldByID(fd.ID) != nil {
						next = append(next, []*tref.Val{mreplace(m, p, nv)})
					} else {
						next = append(next, minsertAll(m, p, nv))
					}
				}
			}
			if s.cur.FieldByID(fd.ID) == nil {
				inserts++
			}
			// flatten, bounded
			var flat []*tref.Val
			for _, a := range next {
				flat = append(flat, a...)
			}
			if len(flat) > 400 {
				return true
			}
			exp = [][]*tref.Val{flat}
			desc += fmt.Sprintf(" %d:=%s", fd.ID, nv.String())
		}
		if len(pns) == 0 {
			return true
		}
		logf("setmany%s", desc)
		err := s.node.SetMany(pns, &generic.Options{})
		if err != nil {
			cs.Viol("edit:setmany:error", "err", err, "log", s.log)
			return false
		}
		cs.Cover("op_setmany")
		if inserts > 0 {
			cs.Cover("op_setmany_with_insert")
		}
		return s.check("setmany", exp[0])
	}
}
