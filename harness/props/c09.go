package props

import (
	"bytes"
	"context"
	"encoding/base64"
	"fmt"
	"math"
	"runtime"
	"runtime/debug"
	"sort"
	"strconv"
	"strings"

	"github.com/cloudwego/dynamicgo/conv"
	"github.com/cloudwego/dynamicgo/conv/j2p"
	"github.com/cloudwego/dynamicgo/meta"
	dproto "github.com/cloudwego/dynamicgo/proto"
	rwire "google.golang.org/protobuf/encoding/protowire"
	"google.golang.org/protobuf/proto"
	"google.golang.org/protobuf/reflect/protoreflect"
	"google.golang.org/protobuf/types/dynamicpb"

	"verifharness/gen"
	"verifharness/h"
	"verifharness/pref"
)

func init() { h.Register("C09", runC09) }

// ---- rendering a reference message as a JSON document ------------------------------------------------

type PJSpell struct {
	WS       int
	Escape   bool
	NumExp   bool
	Nulls    bool // "x": null for some absent fields
	Unknowns bool // unknown members (scalar/object/array) inside message objects
	Shuffle  bool // members in random order (else field-number order as Range yields)
	Names    int  // 0 JSON name, 1 proto name, 2 random per member
	Empties  bool // [] / {} for some absent repeated / map fields (the empty list and map are the absent ones)
}

type pjw struct {
	jw
	ps          PJSpell
	unknowns    int
	nulls       int
	empties     int
	floatInts   int
	nullMapVals int
	unkSeq      int
}

func (w *pjw) key(fd protoreflect.FieldDescriptor) {
	useName := w.ps.Names == 1 || (w.ps.Names == 2 && w.r.Bool())
	if useName {
		w.str([]byte(fd.Name()))
	} else {
		w.str([]byte(fd.JSONName()))
	}
}

// intAsFloat spells an integer (exactly representable as a double) with a fraction or an exponent: 5.0, 1.2e+10
func (w *pjw) intAsFloat(f float64) {
	s := strconv.FormatFloat(f, 'f', 1, 64)
	if w.r.Bool() {
		s = strconv.FormatFloat(f, []byte{'e', 'E'}[w.r.Intn(2)], -1, 64)
	}
	w.sb.WriteString(s)
	w.floatInts++
}

func (w *pjw) scalar(fd protoreflect.FieldDescriptor, v protoreflect.Value) {
	switch fd.Kind() {
	case protoreflect.BoolKind:
		w.sb.WriteString(strconv.FormatBool(v.Bool()))
	case protoreflect.Int32Kind, protoreflect.Sint32Kind, protoreflect.Sfixed32Kind,
		protoreflect.Int64Kind, protoreflect.Sint64Kind, protoreflect.Sfixed64Kind:
		// (int32 / int64 fields take a number with a fraction or exponent - "cast double2int32, double2int64" in
		// the converter; the other integer kinds treat such a literal as a kind mismatch, which the statement allows)
		if x := v.Int(); w.sp.NumExp && (fd.Kind() == protoreflect.Int32Kind || fd.Kind() == protoreflect.Int64Kind) && x > -(1<<53) && x < 1<<53 && w.r.Chance(25) {
			w.intAsFloat(float64(x))
			return
		}
		w.sb.WriteString(strconv.FormatInt(v.Int(), 10))
	case protoreflect.Uint32Kind, protoreflect.Fixed32Kind, protoreflect.Uint64Kind, protoreflect.Fixed64Kind:
		w.sb.WriteString(strconv.FormatUint(v.Uint(), 10))
	case protoreflect.FloatKind, protoreflect.DoubleKind:
		f := v.Float() // float32 values travel as their exact float64 expansion
		if f == 0 && math.Signbit(f) {
			w.sb.WriteString("-0.0")
		} else {
			w.double(f)
		}
	case protoreflect.StringKind:
		w.str([]byte(v.String()))
	case protoreflect.BytesKind:
		w.sb.WriteByte('"')
		w.sb.WriteString(base64.StdEncoding.EncodeToString(v.Bytes()))
		w.sb.WriteByte('"')
	case protoreflect.EnumKind:
		w.sb.WriteString(strconv.FormatInt(int64(v.Enum()), 10))
	}
}

func (w *pjw) unknownValue(depth int) {
	switch w.r.Intn(7) {
	case 0:
		w.sb.WriteString("null")
	case 1:
		w.sb.WriteString("-12.5e3")
	case 2:
		w.str([]byte("unknown \" } ] , value"))
	case 3:
		w.sb.WriteString("true")
	case 4:
		w.sb.WriteString(`{"a":{"b":[1,{"c":"}"}]},"d":"x"}`)
	case 5:
		w.sb.WriteString(`[[],{},[1,"]",{"k":[2]}]]`)
	default:
		w.sb.WriteString("{}")
	}
}

func (w *pjw) msg(m protoreflect.Message, depth int) {
	type mem struct {
		fd protoreflect.FieldDescriptor
		v  protoreflect.Value
		k  int // 0 field, 1 null, 2 unknown
	}
	var ms []mem
	m.Range(func(fd protoreflect.FieldDescriptor, v protoreflect.Value) bool {
		ms = append(ms, mem{fd, v, 0})
		return true
	})
	sort.Slice(ms, func(i, j int) bool { return ms[i].fd.Number() < ms[j].fd.Number() })
	fds := m.Descriptor().Fields()
	if w.ps.Nulls {
		for i := 0; i < fds.Len(); i++ {
			if !m.Has(fds.Get(i)) && w.r.Chance(30) {
				ms = append(ms, mem{fds.Get(i), protoreflect.Value{}, 1})
				w.nulls++
			}
		}
	}
	if w.ps.Empties {
		for i := 0; i < fds.Len(); i++ {
			if fd := fds.Get(i); (fd.IsList() || fd.IsMap()) && !m.Has(fd) && w.r.Chance(40) {
				ms = append(ms, mem{fd, protoreflect.Value{}, 3})
				w.empties++
			}
		}
	}
	if w.ps.Unknowns {
		for n := w.r.Intn(3); n > 0; n-- {
			ms = append(ms, mem{nil, protoreflect.Value{}, 2})
			w.unknowns++
		}
	}
	if w.ps.Shuffle || w.ps.Nulls || w.ps.Unknowns || w.ps.Empties {
		for i := len(ms) - 1; i > 0; i-- {
			j := w.r.Intn(i + 1)
			ms[i], ms[j] = ms[j], ms[i]
		}
	}
	w.sb.WriteByte('{')
	for i, e := range ms {
		if i > 0 {
			w.sb.WriteByte(',')
		}
		w.ws()
		switch e.k {
		case 1:
			w.key(e.fd)
			w.ws()
			w.sb.WriteByte(':')
			w.ws()
			w.sb.WriteString("null")
			continue
		case 3:
			w.key(e.fd)
			w.ws()
			w.sb.WriteByte(':')
			w.ws()
			if e.fd.IsMap() {
				w.sb.WriteString("{")
				w.ws()
				w.sb.WriteString("}")
			} else {
				w.sb.WriteString("[")
				w.ws()
				w.sb.WriteString("]")
			}
			continue
		case 2:
			w.unkSeq++
			w.str([]byte(fmt.Sprintf("zz_unknown_%d", w.unkSeq)))
			w.sb.WriteByte(':')
			w.ws()
			w.unknownValue(depth)
			continue
		}
		fd, v := e.fd, e.v
		w.key(fd)
		w.ws()
		w.sb.WriteByte(':')
		w.ws()
		switch {
		case fd.IsMap():
			type kv struct {
				k protoreflect.MapKey
				v protoreflect.Value
			}
			var kvs []kv
			v.Map().Range(func(k protoreflect.MapKey, mv protoreflect.Value) bool {
				kvs = append(kvs, kv{k, mv})
				return true
			})
			sort.Slice(kvs, func(i, j int) bool { return pKeyText(fd.MapKey(), kvs[i].k) < pKeyText(fd.MapKey(), kvs[j].k) })
			w.sb.WriteByte('{')
			for i, e := range kvs {
				if i > 0 {
					w.sb.WriteByte(',')
				}
				w.ws()
				w.str([]byte(pKeyText(fd.MapKey(), e.k)))
				w.ws()
				w.sb.WriteByte(':')
				w.ws()
				if fd.MapValue().Kind() == protoreflect.MessageKind {
					if w.ps.Nulls && proto.Size(e.v.Message().Interface()) == 0 && w.r.Chance(50) {
						// null for a message-typed map value: the entry with the empty message
						w.sb.WriteString("null")
						w.nullMapVals++
					} else {
						w.msg(e.v.Message(), depth+1)
					}
				} else {
					w.scalar(fd.MapValue(), e.v)
				}
			}
			w.ws()
			w.sb.WriteByte('}')
		case fd.IsList():
			w.sb.WriteByte('[')
			l := v.List()
			for i := 0; i < l.Len(); i++ {
				if i > 0 {
					w.sb.WriteByte(',')
				}
				w.ws()
				if fd.Kind() == protoreflect.MessageKind {
					w.msg(l.Get(i).Message(), depth+1)
				} else {
					w.scalar(fd, l.Get(i))
				}
			}
			w.ws()
			w.sb.WriteByte(']')
		case fd.Kind() == protoreflect.MessageKind:
			w.msg(v.Message(), depth+1)
		default:
			w.scalar(fd, v)
		}
	}
	w.ws()
	w.sb.WriteByte('}')
}

func PRenderJSON(r *h.Rand, m protoreflect.Message, ps PJSpell) (string, *pjw) {
	w := &pjw{jw: jw{r: r, sp: JSpell{WS: ps.WS, EscapeMix: ps.Escape, NumExp: ps.NumExp}}, ps: ps}
	w.ws()
	w.msg(m, 0)
	w.ws()
	return w.sb.String(), w
}

// ---- wire-level shape check --------------------------------------------------------------------------

var pKindWire = map[protoreflect.Kind]rwire.Type{
	protoreflect.BoolKind: rwire.VarintType, protoreflect.EnumKind: rwire.VarintType,
	protoreflect.Int32Kind: rwire.VarintType, protoreflect.Sint32Kind: rwire.VarintType, protoreflect.Uint32Kind: rwire.VarintType,
	protoreflect.Int64Kind: rwire.VarintType, protoreflect.Sint64Kind: rwire.VarintType, protoreflect.Uint64Kind: rwire.VarintType,
	protoreflect.Sfixed32Kind: rwire.Fixed32Type, protoreflect.Fixed32Kind: rwire.Fixed32Type, protoreflect.FloatKind: rwire.Fixed32Type,
	protoreflect.Sfixed64Kind: rwire.Fixed64Type, protoreflect.Fixed64Kind: rwire.Fixed64Type, protoreflect.DoubleKind: rwire.Fixed64Type,
	protoreflect.StringKind: rwire.BytesType, protoreflect.BytesKind: rwire.BytesType, protoreflect.MessageKind: rwire.BytesType,
}

// wireShape checks that b is a sequence of declared fields of md with the wire type the statement asks for:
// repeated numeric scalars as one packed record per occurrence, map entries as (1:key, 2:value) pairs, every
// length prefix staying inside its parent.
func wireShape(md protoreflect.MessageDescriptor, b []byte, path string) string {
	for len(b) > 0 {
		num, typ, n := rwire.ConsumeTag(b)
		if n < 0 {
			return path + ": bad tag"
		}
		b = b[n:]
		fd := md.Fields().ByNumber(num)
		if fd == nil {
			return fmt.Sprintf("%s: undeclared field number %d written", path, num)
		}
		p := path + "." + string(fd.Name())
		want := pKindWire[fd.Kind()]
		packed := fd.IsList() && want != rwire.BytesType
		if packed || fd.IsMap() {
			want = rwire.BytesType
		}
		if typ != want {
			return fmt.Sprintf("%s: wire type %d, want %d (packed=%v)", p, typ, want, packed)
		}
		n = rwire.ConsumeFieldValue(num, typ, b)
		if n < 0 {
			return p + ": value overruns its parent"
		}
		val := b[:n]
		b = b[n:]
		if typ != rwire.BytesType {
			continue
		}
		body, _ := rwire.ConsumeBytes(val)
		switch {
		case fd.IsMap():
			if mm := wireShape(fd.Message(), body, p+"{}"); mm != "" {
				return mm
			}
			// exactly key then value
			k, _, kn := rwire.ConsumeTag(body)
			if kn < 0 || k != 1 {
				return p + ": map entry does not start with the key"
			}
			rest := body[kn:]
			vn := rwire.ConsumeFieldValue(1, pKindWire[fd.MapKey().Kind()], rest)
			if vn < 0 {
				return p + ": bad map key"
			}
			rest = rest[vn:]
			v, _, vt := rwire.ConsumeTag(rest)
			if vt < 0 || v != 2 {
				return p + ": map entry has no value after the key"
			}
		case packed:
			et := pKindWire[fd.Kind()]
			for len(body) > 0 {
				en := rwire.ConsumeFieldValue(num, et, body)
				if en < 0 {
					return p + ": bad packed element"
				}
				body = body[en:]
			}
		case fd.Kind() == protoreflect.MessageKind:
			if mm := wireShape(fd.Message(), body, p); mm != "" {
				return mm
			}
		}
	}
	return ""
}

// c09Convert runs j2p on the document and compares with the expected message. Returns "" when exact.
func c09Check(cs *h.Case, desc *dproto.TypeDescriptor, md protoreflect.MessageDescriptor, doc string, want protoreflect.Message, o conv.Options, kind string) bool {
	cv := j2p.NewBinaryConv(o)
	tr := h.TrapCopy([]byte(doc), cs.R.Bool(), true)
	defer tr.Free()
	out, err := cv.Do(context.Background(), desc, tr.B)
	if err != nil {
		cs.Viol("j2p:"+kind+":error-on-domain", "err", err, "json", trunc(doc))
		return false
	}
	got := dynamicpb.NewMessage(md)
	if uerr := PUnmarshal(out, got); uerr != nil {
		cs.Viol("j2p:"+kind+":reference-rejects-output", "err", uerr, "out", out, "json", trunc(doc))
		return false
	}
	if !proto.Equal(got, want.Interface()) {
		cs.Viol("j2p:"+kind+":different-message", "got", trunc(fmt.Sprint(got)), "out", out, "json", trunc(doc))
		return false
	}
	// (a null map value comes out as an entry with the key alone, which denotes the empty message: the
	// key-then-value shape is only asked of documents that spell their map values out)
	if mm := wireShape(md, out, ""); mm != "" && !strings.HasSuffix(kind, "+null-map-values") {
		cs.Viol("j2p:"+kind+":wire-shape", "mismatch", mm, "out", out, "json", trunc(doc))
		return false
	}
	return true
}

func hasNaN(m protoreflect.Message) bool { return pHasNonFinite(m) }

const c09Fixed = `syntax = "proto3";
option go_package = "verif/pb";
message In { string s = 1; repeated int64 p = 2; map<string, In> m = 3; In in = 4; bytes b = 5; repeated In l = 6; map<int32, string> ms = 7; }
message Root { string pad = 1; In in = 2; map<string, In> m = 3; repeated sint64 p = 4; repeated In l = 5; map<string, string> ms = 6; int32 tail = 15; }
service Svc { rpc M(Root) returns (Root); }
`

const c09Rec = `syntax = "proto3";
option go_package = "verif/pb";
message R { R r = 1; int32 v = 2; repeated R l = 3; map<string, R> m = 4; string s = 5; }
service Svc { rpc M(R) returns (R); }
`

type c09Static struct {
	md   protoreflect.MessageDescriptor
	desc *dproto.TypeDescriptor
}

func c09Load(cs *h.Case, text string, root string, slot **c09Static) *c09Static {
	if *slot != nil {
		return *slot
	}
	fd, _, err := pref.Compile("verif.proto", map[string]string{"verif.proto": text})
	if err != nil {
		cs.Viol("j2p:oracle-schema", "err", err)
		return nil
	}
	svc, err := dproto.NewDescritorFromContent(context.Background(), "verif.proto", text, nil)
	if err != nil {
		cs.Viol("j2p:parse", "err", err)
		return nil
	}
	*slot = &c09Static{md: findMsg(fd, root), desc: svc.LookupMethodByName("M").Input()}
	return *slot
}

// c09BoundaryMsg builds a message with one length-delimited region (nested message, map entry, packed list,
// list element, string map entry) of a boundary size, padded so that the region ends exactly at or next to an
// output offset the pooled 4 KiB buffer passes through (4096, 8192).
func c09BoundaryMsg(cs *h.Case, st *c09Static) (*dynamicpb.Message, int, string) {
	inD := st.md.Fields().ByName("in").Message()
	root := dynamicpb.NewMessage(st.md)
	mkIn := func(bodyLen int, nest int) *dynamicpb.Message {
		// a message whose encoding is exactly bodyLen bytes (bodyLen >= 3): string s fills the rest
		in := dynamicpb.NewMessage(inD)
		cur := in
		for k := 0; k < nest; k++ {
			nx := dynamicpb.NewMessage(inD)
			cur.Set(inD.Fields().ByName("in"), protoreflect.ValueOfMessage(nx))
			cur = nx
		}
		for pad := 0; pad <= bodyLen; pad++ {
			cur.Set(inD.Fields().ByName("s"), protoreflect.ValueOfString(strings.Repeat("b", pad)))
			if len(PMarshal(in)) >= bodyLen {
				break
			}
		}
		return in
	}
	bodies := []int{126, 127, 128, 129, 130, 200, 16382, 16383, 16384, 16385, 20000}
	body := bodies[cs.I%len(bodies)]
	if cs.I >= len(bodies)*60 {
		body = 100 + cs.R.Intn(500)
	}
	region := cs.R.Intn(5)
	nest := cs.R.Intn(3)
	switch region {
	case 0:
		root.Set(st.md.Fields().ByName("in"), protoreflect.ValueOfMessage(mkIn(body, nest)))
	case 1:
		root.Mutable(st.md.Fields().ByName("m")).Map().Set(protoreflect.ValueOfString("k").MapKey(), protoreflect.ValueOfMessage(mkIn(body, nest)))
	case 2:
		l := root.Mutable(st.md.Fields().ByName("p")).List()
		for k := 0; k < body/2; k++ {
			l.Append(protoreflect.ValueOfInt64(int64(cs.R.Intn(60)))) // zig-zag: one byte each up to 63
		}
	case 3:
		root.Mutable(st.md.Fields().ByName("l")).List().Append(protoreflect.ValueOfMessage(mkIn(body, nest)))
	case 4:
		root.Mutable(st.md.Fields().ByName("ms")).Map().Set(protoreflect.ValueOfString("key").MapKey(), protoreflect.ValueOfString(strings.Repeat("v", body)))
	}
	// choose pad so that the region ends exactly at (or next to) a capacity the output buffer goes through
	base := len(PMarshal(root))
	targets := []int{4096, 4096, 4096, 8192, 4095, 4097, 0}
	target := targets[cs.R.Intn(len(targets))] + []int{0, 0, 0, -1, 1}[cs.R.Intn(5)]
	if target > base+3 {
		pad := target - base - 3 // tag + 2-byte length (pad in 128..16383)
		if pad < 128 {
			pad = target - base - 2
		}
		if pad >= 16384 {
			pad = target - base - 4
		}
		if pad > 0 {
			root.Set(st.md.Fields().ByName("pad"), protoreflect.ValueOfString(strings.Repeat("a", pad)))
		}
	}
	if cs.R.Bool() {
		root.Set(st.md.Fields().ByName("tail"), protoreflect.ValueOfInt32(7))
	}
	total := len(PMarshal(root))
	cs.Info("layout", fmt.Sprintf("region=%d nest=%d body=%d total=%d", region, nest, body, total))
	return root, total, fmt.Sprintf("%d-%d-%d", region, nest, body)
}

func runC09(c *h.Ctx) {
	c.Run("messages", c.N(8000, 300000), func(cs *h.Case) { c09Messages(cs, false) })
	// scalar members whose field number is around 2^28 (a handful: dynamicgo's number table takes 2 GiB each)
	c.Run("huge-field-numbers", c.N(10, 40), func(cs *h.Case) {
		c09Messages(cs, true)
		runtime.GC()
		debug.FreeOSMemory()
	})

	// length-prefix widening at varint boundaries and at the exact end of the pooled output buffer
	var fixed *c09Static
	c.Run("prefix-boundaries", c.N(2400, 60000), func(cs *h.Case) {
		st := c09Load(cs, c09Fixed, "Root", &fixed)
		if st == nil {
			return
		}
		root, total, key := c09BoundaryMsg(cs, st)
		doc, _ := PRenderJSON(cs.R, root, PJSpell{})
		if c09Check(cs, st.desc, st.md, doc, root, conv.Options{}, "prefix") {
			cs.Cover("prefix_ok")
			tail := 0
			if root.Has(st.md.Fields().ByName("tail")) {
				tail = 2
			}
			if total-tail == 4096 || total-tail == 8192 {
				cs.Cover("region_ends_exactly_at_buffer_capacity")
			}
			cs.Distinct(fmt.Sprintf("pfx-%s-%d", key, total-tail))
		}
	})

	// pooled visitor state: a failing conversion followed by valid ones on the same goroutine
	c.Run("sequences", c.N(1500, 40000), func(cs *h.Case) {
		st := c09Load(cs, c09Fixed, "Root", &fixed)
		if st == nil {
			return
		}
		m := PGenMsg(cs.R, st.md, PValCfg{MaxElems: 3, MaxDepth: 2}, 0)
		doc, _ := PRenderJSON(cs.R, m, PJSpell{Unknowns: true})
		// the failing document: truncation or an invalid literal at a random place of a valid document
		bad := doc
		switch cs.R.Intn(4) {
		case 0:
			bad = doc[:cs.R.Intn(len(doc))]
		case 1:
			p := cs.R.Intn(len(doc))
			bad = doc[:p] + "nope" + doc[p:]
		case 2:
			bad = `{"pad":"x","zz_unknown":` + []string{"nope", "", `{"ids":[1,2`, `[1,`, `"abc`}[cs.R.Intn(5)]
		case 3:
			bad = `{"in":{"zz_unknown":` + []string{"nope}}", "", `{"a":`, "tru"}[cs.R.Intn(4)]
		}
		cs.Info("bad", trunc(bad))
		cv := j2p.NewBinaryConv(conv.Options{})
		// an output handed out before the sequence (through DoInto and through Do) must still be the same bytes after it
		m0 := PGenMsg(cs.R, st.md, PValCfg{MaxElems: 3, MaxDepth: 2}, 0)
		doc0, _ := PRenderJSON(cs.R, m0, PJSpell{})
		held := make([]byte, 0, 8)
		var heldCopy, held2, held2Copy []byte
		if err := cv.DoInto(context.Background(), st.desc, []byte(doc0), &held); err == nil {
			heldCopy = append([]byte{}, held...)
		}
		if o2, err := cv.Do(context.Background(), st.desc, []byte(doc0)); err == nil {
			held2, held2Copy = o2, append([]byte{}, o2...)
		}
		defer func() {
			if heldCopy != nil && !bytes.Equal(held, heldCopy) {
				cs.Viol("j2p:held-output-changed:DoInto", "was", heldCopy, "now", held)
			} else if held2Copy != nil && !bytes.Equal(held2, held2Copy) {
				cs.Viol("j2p:held-output-changed:Do", "was", held2Copy, "now", held2)
			} else if heldCopy != nil {
				cs.Cover("held_output_intact_after_sequence")
			}
		}()
		for k := 0; k < 1+cs.R.Intn(2); k++ {
			if _, err := cv.Do(context.Background(), st.desc, []byte(bad)); err != nil {
				cs.Cover("failing_conversion_before_valid_one")
			}
		}
		if c09Check(cs, st.desc, st.md, doc, m, conv.Options{}, "after-failure") {
			cs.Cover("valid_after_failure_ok")
			cs.Distinct(fmt.Sprintf("seq-%d", cs.I%500))
		}
	})

	// mismatching value kinds must be rejected
	c.Run("mismatch", c.N(3000, 80000), func(cs *h.Case) {
		sc := gen.GenPSchema(cs.R, gen.PCfg{MaxDepth: 1, MaxFields: 6, Enums: false, JSONNames: false})
		pc, err := PCompile(sc)
		if err != nil {
			cs.Cover("oracle_schema_rejected")
			return
		}
		cs.Info("proto", pc.Text)
		svc, err := dproto.NewDescritorFromContent(context.Background(), "verif.proto", pc.Text, nil)
		if err != nil {
			cs.Viol("j2p:parse", "err", err)
			return
		}
		desc := svc.LookupMethodByName("M").Input()
		fds := pc.Root.Fields()
		fd := fds.Get(cs.R.Intn(fds.Len()))
		// class of the field and wrong-kind values for it
		var class string
		var wrong []string
		switch {
		case fd.IsMap():
			class, wrong = "map", []string{`"str"`, `12`, `true`, `[1,2]`, `1.5`}
		case fd.IsList():
			class, wrong = "list", []string{`"str"`, `12`, `true`, `{"a":1}`, `1.5`}
		case fd.Kind() == protoreflect.MessageKind:
			class, wrong = "message", []string{`"str"`, `12`, `true`, `[1,2]`, `1.5`}
		case fd.Kind() == protoreflect.StringKind || fd.Kind() == protoreflect.BytesKind:
			class, wrong = "string", []string{`12`, `true`, `{"a":1}`, `[1]`, `1.5`}
		case fd.Kind() == protoreflect.BoolKind:
			class, wrong = "bool", []string{`"str"`, `12`, `{"a":1}`, `[true]`, `1.5`}
		case fd.Kind() == protoreflect.FloatKind || fd.Kind() == protoreflect.DoubleKind:
			class, wrong = "float", []string{`"str"`, `true`, `{"a":1}`, `[1.5]`}
		default:
			class, wrong = "int", []string{`"str"`, `true`, `{"a":1}`, `[1]`}
		}
		wv := wrong[cs.R.Intn(len(wrong))]
		doc := fmt.Sprintf(`{%q:%s}`, fd.JSONName(), wv)
		if cs.R.Bool() {
			doc = fmt.Sprintf(`{%q:%s,"zz_after":1}`, fd.JSONName(), wv)
		}
		cs.Info("json", doc)
		cv := j2p.NewBinaryConv(conv.Options{})
		out, err := cv.Do(context.Background(), desc, []byte(doc))
		vk := map[byte]string{'"': "string", 't': "bool", '{': "object", '[': "array"}[wv[0]]
		if vk == "" {
			vk = "number"
			if strings.Contains(wv, ".") {
				vk = "fraction"
			}
		}
		if err == nil {
			cs.Viol(fmt.Sprintf("j2p:mismatch-accepted:%s<-%s", class, vk), "field", string(fd.Name()), "kind", fd.Kind().String(), "out", out)
			return
		}
		cs.Cover("mismatch_rejected")
		cs.Distinct(fmt.Sprintf("mm-%s-%s", fd.Kind(), vk))
		// the converter must be usable afterwards
		ok := dynamicpb.NewMessage(pc.Root)
		if out, err := cv.Do(context.Background(), desc, []byte("{}")); err != nil || len(out) != 0 {
			cs.Viol("j2p:empty-object-after-mismatch", "err", err, "out", out)
		}
		_ = ok
	})

	// nesting up to the converter's stack limit
	var rec *c09Static
	c.Run("depth", c.N(600, 6000), func(cs *h.Case) {
		st := c09Load(cs, c09Rec, "R", &rec)
		if st == nil {
			return
		}
		depth := 1 + cs.I%300
		via := cs.R.Intn(4) // 0 message, 1 list, 2 map, 3 mixed
		root := dynamicpb.NewMessage(st.md)
		cur := root
		f := st.md.Fields()
		for d := 0; d < depth; d++ {
			nx := dynamicpb.NewMessage(st.md)
			k := via
			if via == 3 {
				k = cs.R.Intn(3)
			}
			switch k {
			case 0:
				cur.Set(f.ByName("r"), protoreflect.ValueOfMessage(nx))
			case 1:
				cur.Mutable(f.ByName("l")).List().Append(protoreflect.ValueOfMessage(nx))
			case 2:
				cur.Mutable(f.ByName("m")).Map().Set(protoreflect.ValueOfString("k").MapKey(), protoreflect.ValueOfMessage(nx))
			}
			if cs.R.Chance(30) {
				cur.Set(f.ByName("v"), protoreflect.ValueOfInt32(int32(d)))
			}
			cur = nx
		}
		cur.Set(f.ByName("s"), protoreflect.ValueOfString("leaf"))
		doc, _ := PRenderJSON(cs.R, root, PJSpell{})
		cs.Info("depth", depth)
		cs.Info("via", via)
		cv := j2p.NewBinaryConv(conv.Options{})
		out, err := cv.Do(context.Background(), st.desc, []byte(doc))
		if err != nil {
			// an error is the documented outcome beyond the stack limit (256 slots, up to 3 per level)
			if depth <= 60 {
				cs.Viol("j2p:depth:error-below-limit", "err", err, "depth", depth)
			}
			cs.Cover("depth_rejected")
			return
		}
		got := dynamicpb.NewMessage(st.md)
		if uerr := PUnmarshal(out, got); uerr != nil {
			cs.Viol("j2p:depth:reference-rejects-output", "err", uerr, "depth", depth, "via", via)
			return
		}
		if !proto.Equal(got, root) {
			cs.Viol("j2p:depth:different-message", "depth", depth, "via", via)
			return
		}
		cs.Cover("depth_ok")
		cs.Distinct(fmt.Sprintf("depth-%d-%d", via, depth))
	})
}

func c09Messages(cs *h.Case, huge bool) {
	{
		cfg := gen.PCfg{Unpacked: true, MaxDepth: 2, MaxFields: 6, Nested: cs.R.Bool(), Enums: true, BigNums: true, JSONNames: true, Optionals: cs.R.Bool()}
		if huge {
			cfg = gen.PCfg{MaxDepth: 0, MaxFields: 6, HugeNums: true, HugeScalar: true, NoMaps: true, Enums: true}
			cs.Cover("huge_field_number_schemas")
		}
		sc := gen.GenPSchema(cs.R, cfg)
		pc, err := PCompile(sc)
		if err != nil {
			cs.Cover("oracle_schema_rejected")
			return
		}
		cs.Info("proto", pc.Text)
		svc, err := dproto.NewDescritorFromContent(context.Background(), "verif.proto", pc.Text, nil)
		if err != nil {
			cs.Viol("j2p:parse", "err", err)
			return
		}
		desc := svc.LookupMethodByName("M").Input()
		m := PGenMsg(cs.R, pc.Root, PValCfg{MaxElems: 5, MaxDepth: 3}, 0)
		ps := PJSpell{WS: cs.R.Intn(3), Escape: cs.R.Bool(), NumExp: cs.R.Bool(), Nulls: cs.R.Chance(25), Unknowns: cs.R.Chance(30), Shuffle: cs.R.Bool(), Names: cs.R.Intn(3), Empties: cs.R.Chance(25)}
		doc, w := PRenderJSON(cs.R, m, ps)
		cs.Info("message", trunc(fmt.Sprint(m)))
		cs.Info("spell", fmt.Sprintf("%+v", ps))
		o := conv.Options{DisallowUnknownField: cs.R.Chance(30)}
		if o.DisallowUnknownField && w.unknowns > 0 {
			cv := j2p.NewBinaryConv(o)
			out, err := cv.Do(context.Background(), desc, []byte(doc))
			if err == nil {
				cs.Viol("j2p:unknown-member-accepted", "json", trunc(doc), "out", out)
			} else if !isErrCode(err, meta.ErrUnknownField) && !strings.Contains(err.Error(), "unknown field: json key") {
				// the document is conforming apart from its unknown members: nothing else can be wrong with it
				cs.Viol("j2p:unknown-member-wrong-error", "err", err, "json", trunc(doc))
			}
			cs.Cover("j2p_unknown_rejected")
			return
		}
		kind := "msg"
		if w.nulls > 0 {
			kind = "null-members"
		} else if w.unknowns > 0 {
			kind = "unknown-members"
		} else if w.empties > 0 {
			kind = "empty-containers"
		}
		if w.nullMapVals > 0 {
			kind += "+null-map-values"
		}
		if w.empties > 0 {
			cs.Cover("j2p_docs_with_empty_containers")
		}
		if w.floatInts > 0 {
			cs.Cover("j2p_docs_with_float_spelled_integers")
		}
		if w.nullMapVals > 0 {
			cs.Cover("j2p_docs_with_null_message_map_values")
		}
		if c09Check(cs, desc, pc.Root, doc, m, o, kind) {
			cs.Cover("j2p_ok")
			if w.nulls > 0 {
				cs.Cover("j2p_ok_with_null_members")
			}
			if w.unknowns > 0 {
				cs.Cover("j2p_ok_with_unknown_members")
			}
			cs.Distinct(fmt.Sprintf("j-%v-%v-%d-%s", w.nulls > 0, w.unknowns > 0, ps.Names, c20Shape(m)))
			if cs.I == 4 {
				cs.Sample(map[string]interface{}{"proto": pc.Text, "json": trunc(doc), "message": trunc(fmt.Sprint(m))})
			}
		}
	}
}
