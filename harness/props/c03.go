package props

import (
	"bytes"
	"context"
	"fmt"
	"math"

	"github.com/cloudwego/dynamicgo/conv"
	"github.com/cloudwego/dynamicgo/conv/t2j"
	"github.com/cloudwego/dynamicgo/meta"
	"github.com/cloudwego/dynamicgo/thrift"

	"verifharness/gen"
	"verifharness/h"
	"verifharness/tref"
)

func init() { h.Register("C03", runC03) }

func hasNonFinite(v *tref.Val) bool {
	nf := false
	tref.Walk(v, func(n *tref.Val, d int) {
		if n.T == tref.DOUBLE && (math.IsNaN(n.F) || math.IsInf(n.F, 0)) {
			nf = true
		}
	})
	return nf
}

func isErrCode(err error, code meta.ErrCode) bool {
	if me, ok := err.(meta.Error); ok {
		return me.Code.Behavior() == code
	}
	return false
}

// c03Run converts b with descriptor desc and checks the output against model v.
func c03Run(cs *h.Case, kind string, desc *thrift.TypeDescriptor, root *gen.Type, v *tref.Val, b []byte, o conv.Options, unknown bool) {
	jo := JOpts{Int642String: o.Int642String, ByteAsUint8: o.ByteAsUint8, NoBase64Binary: o.NoBase64Binary}
	cv := t2j.NewBinaryConv(o)
	tr := h.TrapCopy(b, cs.R.Bool(), true)
	defer tr.Free()
	var out []byte
	var err error
	into := cs.R.Chance(40)
	canary := []byte{0xca, 0xfe, 0xba, 0xbe, 0x01}
	if into {
		buf := append(make([]byte, 0, len(canary)+cs.R.Intn(3)*cs.R.Intn(200)), canary...)
		err = cv.DoInto(context.Background(), desc, tr.B, &buf)
		if len(buf) < len(canary) || !bytes.Equal(buf[:len(canary)], canary) {
			cs.Viol("t2j:"+kind+":DoInto-clobbered-prefix", "buf", buf)
			return
		}
		out = buf[len(canary):]
		cs.Cover("t2j_DoInto")
	} else {
		out, err = cv.Do(context.Background(), desc, tr.B)
		cs.Cover("t2j_Do")
	}
	if unknown && o.DisallowUnknownField {
		if err == nil {
			cs.Viol("t2j:"+kind+":unknown-field-accepted", "out", string(out))
		} else if !isErrCode(err, meta.ErrUnknownField) && !hasNonFinite(v) {
			cs.Viol("t2j:"+kind+":unknown-field-wrong-error", "err", err)
		}
		cs.Cover("t2j_unknown_rejected")
		return
	}
	if err != nil {
		// the statement allows an error; it is counted so that a run made only of errors is inconclusive
		cs.Cover("t2j_error_returned")
		if !hasNonFinite(v) {
			cs.Cover("t2j_error_on_finite_message")
			cs.Info("last-error", err.Error())
		}
		return
	}
	j, perr := ParseJSON(out)
	if perr != nil {
		sig := "t2j:" + kind + ":malformed-json"
		if hasNonFinite(v) {
			sig += ":non-finite-double"
		}
		cs.Viol(sig, "parse-error", perr, "out", string(out))
		return
	}
	if m := cmpJSON(j, v, root, jo); m != "" {
		cs.Viol("t2j:"+kind+":value", "mismatch", m, "out", trunc(string(out)))
		return
	}
	cs.Cover("t2j_ok")
}

func c03Opts(cs *h.Case) conv.Options {
	b := cs.R.Intn(64)
	return conv.Options{
		Int642String:         b&1 != 0,
		ByteAsUint8:          b&2 != 0,
		NoBase64Binary:       b&4 != 0,
		DisallowUnknownField: b&8 != 0,
		UseNativeSkip:        b&16 != 0,
		EnableValueMapping:   b&32 != 0,
	}
}

func runC03(c *h.Ctx) {
	c.Run("messages", c.N(8000, 300000), func(cs *h.Case) {
		sc := gen.GenSchema(cs.R, gen.Cfg{MaxDepth: 3, MaxFields: 6, BigIDs: true, Recursive: true, Aliases: true, Requiredness: cs.R.Bool(), Typedefs: true})
		root := structType(sc.Root)
		cs.Info("idl", sc.IDL())
		desc, _, err := ParseRoot(sc, thrift.NewDefaultOptions())
		if err != nil {
			cs.Viol("t2j:parse-idl", "err", err)
			return
		}
		v := gen.GenVal(cs.R, root, gen.ValCfg{NonFinite: cs.R.Chance(30), InvalidUTF8: cs.R.Chance(30), ShuffleFlds: cs.R.Bool(), NegByteKeys: true}, 0)
		unknown := false
		if cs.R.Chance(25) {
			// inject unknown fields at a random struct
			var structs []*tref.Val
			tref.Walk(v, func(n *tref.Val, d int) {
				if n.T == tref.STRUCT {
					structs = append(structs, n)
				}
			})
			s := structs[cs.R.Intn(len(structs))]
			pos := cs.R.Intn(len(s.Fs) + 1)
			uf := tref.Field{ID: int16(31000 + cs.R.Intn(500)), V: gen.GenVal(cs.R, &gen.Type{T: []byte{tref.I32, tref.STRING, tref.LIST, tref.STRUCT}[cs.R.Intn(4)], Elem: &gen.Type{T: tref.I64}, S: sc.Root}, gen.ValCfg{MaxElems: 3}, 3)}
			fs := append([]tref.Field{}, s.Fs[:pos]...)
			fs = append(fs, uf)
			s.Fs = append(fs, s.Fs[pos:]...)
			unknown = true
		}
		b := tref.Encode(v)
		cs.Info("model", v.String())
		cs.Info("bytes", hexs(b))
		o := c03Opts(cs)
		cs.Info("opts", fmt.Sprintf("%+v", o))
		c03Run(cs, "msg", desc, root, v, b, o, unknown)
		cs.Distinct(fmt.Sprintf("m-%v-%v-%v-%v-%s", o.Int642String, o.ByteAsUint8, o.NoBase64Binary, unknown, shapeKey(v)[:min(len(shapeKey(v)), 20)]))
		if cs.I == 3 {
			cs.Sample(map[string]interface{}{"idl": sc.IDL(), "model": v.String(), "opts": fmt.Sprintf("%+v", o)})
		}
	})

	// the converter is handed the descriptor of a non-struct type and the bare encoding of such a value
	c.Run("root-values", c.N(2000, 50000), func(cs *h.Case) {
		sc := gen.GenSchema(cs.R, gen.Cfg{MaxDepth: 2, MaxFields: 6, Typedefs: true})
		desc, _, err := ParseRoot(sc, thrift.NewDefaultOptions())
		if err != nil {
			cs.Viol("t2j:parse-idl", "err", err)
			return
		}
		cs.Info("idl", sc.IDL())
		f := sc.Root.Fields[cs.R.Intn(len(sc.Root.Fields))]
		fd := desc.Struct().FieldById(thrift.FieldID(f.ID))
		if fd == nil {
			return
		}
		v := gen.GenVal(cs.R, f.T, gen.ValCfg{InvalidUTF8: cs.R.Chance(20), NegByteKeys: true}, 0)
		b := tref.Encode(v)
		cs.Info("root-type", f.T.String())
		cs.Info("model", v.String())
		cs.Info("bytes", hexs(b))
		o := c03Opts(cs)
		o.EnableValueMapping = false
		cs.Info("opts", fmt.Sprintf("%+v", o))
		before := cs.CoverCount("t2j_ok")
		c03Run(cs, "root", fd.Type(), f.T, v, b, o, false)
		if cs.CoverCount("t2j_ok") > before {
			cs.Cover("t2j_root_value_ok")
			cs.Cover("t2j_root_value_ok_" + tref.TypeName(f.T.T))
		} else {
			cs.Cover("t2j_root_value_not_ok")
		}
		cs.Distinct("rv-" + tref.TypeName(f.T.T) + "-" + shapeKey(v)[:min(len(shapeKey(v)), 12)])
	})

	// strings: every length around the SIMD lanes / page size with an escape-relevant character at every position
	strSchema := &gen.StructT{Name: "Str", Fields: []*gen.FieldT{
		{ID: 1, Name: "s", T: &gen.Type{T: tref.STRING}},
		{ID: 2, Name: "m", T: &gen.Type{T: tref.MAP, Key: &gen.Type{T: tref.STRING}, Elem: &gen.Type{T: tref.I32}}},
		{ID: 3, Name: "b", T: &gen.Type{T: tref.STRING, Bin: true}},
		{ID: 4, Name: "d", T: &gen.Type{T: tref.DOUBLE}},
		{ID: 5, Name: "l", T: &gen.Type{T: tref.LIST, Elem: &gen.Type{T: tref.STRING}}},
	}}
	strSc := &gen.Schema{Structs: []*gen.StructT{strSchema}, Root: strSchema}
	var strDesc *thrift.TypeDescriptor
	c.Run("strings", c.N(3000, 60000), func(cs *h.Case) {
		if strDesc == nil {
			d, _, err := ParseRoot(strSc, thrift.NewDefaultOptions())
			if err != nil {
				cs.Viol("t2j:parse-idl", "err", err)
				return
			}
			strDesc = d
		}
		lens := []int{0, 1, 2, 7, 8, 14, 15, 16, 17, 18, 30, 31, 32, 33, 34, 47, 48, 49, 63, 64, 65, 66, 127, 128, 129, 255, 256, 257, 1023, 1024, 1025, 2047, 2048, 2049, 4090, 4091, 4092, 4093, 4094, 4095, 4096, 4097, 4098, 4099, 4100, 8191, 8192, 8193}
		n := lens[cs.I%len(lens)]
		if cs.I >= len(lens)*8 {
			n = cs.R.Intn(300)
		}
		specials := []string{"\"", "\\", "\n", "\x00", "\x1f", "\x7f", "é", "中", " ", " ", "😀", "\xff", "\xc0\x80", "\xed\xa0\x80", "/", "<", "\t", "\r", "\b", "\f", "\x01"}
		s := bytes.Repeat([]byte("a"), n)
		// place 1-3 specials at chosen positions (each position is hit as cs.I varies)
		k := 1 + cs.R.Intn(3)
		if n == 0 {
			k = 0
		}
		for i := 0; i < k; i++ {
			pos := (cs.I/len(lens) + i*7 + cs.R.Intn(n)) % n
			if i == 0 {
				pos = []int{0, n - 1, n / 2, (cs.I / len(lens)) % n}[cs.R.Intn(4)]
			}
			sp := specials[cs.R.Intn(len(specials))]
			if pos+len(sp) <= n {
				copy(s[pos:], sp)
			}
		}
		if cs.R.Chance(25) {
			// escape-dense: the quoted form is 2-6x the raw size, forcing output growth inside the string
			fill := []string{"\x01", "\"", "\\", "\x1f", "\n"}[cs.R.Intn(5)]
			s = bytes.Repeat([]byte(fill), n/len(fill)+1)[:n]
			cs.Cover("t2j_escape_dense_strings")
		}
		v := tref.Struct(tref.Field{ID: 1, V: tref.Bin(s)})
		switch cs.R.Intn(4) {
		case 0:
			v.Fs = append(v.Fs, tref.Field{ID: 2, V: &tref.Val{T: tref.MAP, KT: tref.STRING, ET: tref.I32, K: []*tref.Val{tref.Bin(s)}, L: []*tref.Val{tref.Int32(7)}}})
		case 1:
			v.Fs = append(v.Fs, tref.Field{ID: 3, V: tref.Bin(s)})
		case 2:
			v.Fs = append(v.Fs, tref.Field{ID: 5, V: tref.List(tref.STRING, tref.Bin(s), tref.Str(""), tref.Bin(s))})
		}
		b := tref.Encode(v)
		cs.Info("len", n)
		cs.Info("bytes", hexs(b))
		o := c03Opts(cs)
		o.DisallowUnknownField = false
		c03Run(cs, "string", strDesc, structType(strSchema), v, b, o, false)
		cs.Distinct(fmt.Sprintf("s-%d-%d", n, len(v.Fs)))
	})

	// doubles: class-exhaustive bit patterns
	c.Run("doubles", c.N(600, 20000), func(cs *h.Case) {
		if strDesc == nil {
			d, _, err := ParseRoot(strSc, thrift.NewDefaultOptions())
			if err != nil {
				return
			}
			strDesc = d
		}
		for k := 0; k < 40; k++ {
			var bits uint64
			idx := cs.I*40 + k
			switch {
			case idx < 2048*4:
				// every exponent x {0, 1, all-ones, random} mantissa
				exp := uint64(idx / 4 % 2048)
				man := []uint64{0, 1, 0xfffffffffffff, cs.R.U64() & 0xfffffffffffff}[idx%4]
				bits = exp<<52 | man
				if cs.R.Bool() {
					bits |= 1 << 63
				}
			default:
				bits = cs.R.U64()
			}
			f := math.Float64frombits(bits)
			v := tref.Struct(tref.Field{ID: 4, V: tref.Double(f)})
			b := tref.Encode(v)
			cs.Info("bits", fmt.Sprintf("0x%016x", bits))
			c03Run(cs, "double", strDesc, structType(strSchema), v, b, conv.Options{}, false)
		}
		cs.Distinct(fmt.Sprintf("d-%d", cs.I))
	})
	runJSConvT2J(c)
	runBaseExceptionT2J(c)
}
