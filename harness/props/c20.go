package props

import (
	"bytes"
	"context"
	"fmt"
	"math"
	"unicode/utf8"

	dproto "github.com/cloudwego/dynamicgo/proto"
	dbin "github.com/cloudwego/dynamicgo/proto/binary"
	dwire "github.com/cloudwego/dynamicgo/proto/protowire"
	rwire "google.golang.org/protobuf/encoding/protowire"
	"google.golang.org/protobuf/proto"
	"google.golang.org/protobuf/types/dynamicpb"

	"verifharness/gen"
	"verifharness/h"
	"verifharness/pref"
)

func init() { h.Register("C20", runC20) }

func c20Check32(cs *h.Case, u uint32) {
	enc := dwire.BinaryEncoder{}
	dec := dwire.BinaryDecoder{}
	i := int32(u)
	fail := func(kind string, got, want []byte) {
		cs.Viol("wire:"+kind, "value", fmt.Sprintf("0x%08x", u), "got", got, "want", want)
	}
	// int32: sign-extended 10-byte varint for negatives
	want := rwire.AppendVarint(nil, uint64(int64(i)))
	got := enc.EncodeInt32(nil, i)
	if !bytes.Equal(got, want) {
		fail("EncodeInt32", got, want)
	} else if v, n := dec.DecodeInt32(got); v != i || n != len(want) {
		cs.Viol("wire:DecodeInt32", "value", i, "got", v, "n", n)
	}
	got = enc.EncodeEnum(nil, i)
	if !bytes.Equal(got, want) {
		fail("EncodeEnum", got, want)
	}
	// uint32
	want = rwire.AppendVarint(nil, uint64(u))
	got = enc.EncodeUint32(nil, u)
	if !bytes.Equal(got, want) {
		fail("EncodeUint32", got, want)
	} else if v, n := dec.DecodeUint32(got); v != u || n != len(want) {
		cs.Viol("wire:DecodeUint32", "value", u, "got", v, "n", n)
	}
	// sint32 (zig-zag 32)
	want = rwire.AppendVarint(nil, rwire.EncodeZigZag(int64(i)))
	got = enc.EncodeSint32(nil, i)
	if !bytes.Equal(got, want) {
		fail("EncodeSint32", got, want)
	} else if v, n := dec.DecodeSint32(got); v != i || n != len(want) {
		cs.Viol("wire:DecodeSint32", "value", i, "got", v, "n", n)
	}
	// fixed32 / sfixed32 / float
	want = rwire.AppendFixed32(nil, u)
	got = enc.EncodeFixed32(nil, u)
	if !bytes.Equal(got, want) {
		fail("EncodeFixed32", got, want)
	} else if v, n := dec.DecodeFixed32(got); v != u || n != 4 {
		cs.Viol("wire:DecodeFixed32", "value", u, "got", v, "n", n)
	}
	got = enc.EncodeSfixed32(nil, i)
	if !bytes.Equal(got, want) {
		fail("EncodeSfixed32", got, want)
	} else if v, n := dec.DecodeSfixed32(got); v != i || n != 4 {
		cs.Viol("wire:DecodeSfixed32", "value", i, "got", v, "n", n)
	}
	f := math.Float32frombits(u)
	got = enc.EncodeFloat32(nil, f)
	if !bytes.Equal(got, want) {
		fail("EncodeFloat32", got, want)
	} else if v, n := dec.DecodeFloat32(got); math.Float32bits(v) != u || n != 4 {
		cs.Viol("wire:DecodeFloat32", "bits", u, "got", math.Float32bits(v), "n", n)
	}
	// zig-zag helpers
	if dwire.EncodeZigZag(int64(i)) != rwire.EncodeZigZag(int64(i)) || dwire.DecodeZigZag(uint64(u)) != rwire.DecodeZigZag(uint64(u)) {
		cs.Viol("wire:ZigZag", "value", u)
	}
	if dwire.SizeVarint(uint64(u)) != rwire.SizeVarint(uint64(u)) {
		cs.Viol("wire:SizeVarint", "value", u)
	}
}

func c20Check64(cs *h.Case, u uint64) {
	enc := dwire.BinaryEncoder{}
	dec := dwire.BinaryDecoder{}
	i := int64(u)
	want := rwire.AppendVarint(nil, u)
	if got := dwire.AppendVarint(nil, u); !bytes.Equal(got, want) {
		cs.Viol("wire:AppendVarint", "value", u, "got", got, "want", want)
	}
	if v, n := dwire.ConsumeVarint(want); v != u || n != len(want) {
		cs.Viol("wire:ConsumeVarint", "value", u, "got", v, "n", n)
	}
	if dwire.SizeVarint(u) != len(want) {
		cs.Viol("wire:SizeVarint", "value", u)
	}
	got := enc.EncodeInt64(nil, i)
	if !bytes.Equal(got, want) {
		cs.Viol("wire:EncodeInt64", "value", i, "got", got, "want", want)
	} else if v, n := dec.DecodeInt64(got); v != i || n != len(want) {
		cs.Viol("wire:DecodeInt64", "value", i, "got", v, "n", n)
	}
	got = enc.EncodeUint64(nil, u)
	if !bytes.Equal(got, want) {
		cs.Viol("wire:EncodeUint64", "value", u, "got", got, "want", want)
	} else if v, n := dec.DecodeUint64(got); v != u || n != len(want) {
		cs.Viol("wire:DecodeUint64", "value", u, "got", v, "n", n)
	}
	want = rwire.AppendVarint(nil, rwire.EncodeZigZag(i))
	got = enc.EncodeSint64(nil, i)
	if !bytes.Equal(got, want) {
		cs.Viol("wire:EncodeSint64", "value", i, "got", got, "want", want)
	} else if v, n := dec.DecodeSint64(got); v != i || n != len(want) {
		cs.Viol("wire:DecodeSint64", "value", i, "got", v, "n", n)
	}
	if dwire.EncodeZigZag(i) != rwire.EncodeZigZag(i) || dwire.DecodeZigZag(u) != rwire.DecodeZigZag(u) {
		cs.Viol("wire:ZigZag64", "value", u)
	}
	want = rwire.AppendFixed64(nil, u)
	got = enc.EncodeFixed64(nil, u)
	if !bytes.Equal(got, want) {
		cs.Viol("wire:EncodeFixed64", "value", u, "got", got, "want", want)
	} else if v, n := dec.DecodeFixed64(got); v != u || n != 8 {
		cs.Viol("wire:DecodeFixed64", "value", u, "got", v, "n", n)
	}
	got = enc.EncodeSfixed64(nil, i)
	if !bytes.Equal(got, want) {
		cs.Viol("wire:EncodeSfixed64", "value", i, "got", got, "want", want)
	} else if v, n := dec.DecodeSfixed64(got); v != i || n != 8 {
		cs.Viol("wire:DecodeSfixed64", "value", i, "got", v, "n", n)
	}
	f := math.Float64frombits(u)
	got = enc.EncodeDouble(nil, f)
	if !bytes.Equal(got, want) {
		cs.Viol("wire:EncodeDouble", "bits", u, "got", got, "want", want)
	} else if v, n := dec.DecodeDouble(got); math.Float64bits(v) != u || n != 8 {
		cs.Viol("wire:DecodeDouble", "bits", u, "got", math.Float64bits(v), "n", n)
	}
	// BinaryProtocol writers/readers
	p := dbin.NewBinaryProtocolBuffer()
	p.WriteInt64(i)
	p.WriteUint64(u)
	p.WriteSint64(i)
	p.WriteFixed64(u)
	p.WriteSfixed64(i)
	p.WriteDouble(f)
	p.WriteInt32(int32(u))
	p.WriteUint32(uint32(u))
	p.WriteSint32(int32(u))
	p.WriteFixed32(uint32(u))
	p.WriteSfixed32(int32(u))
	p.WriteFloat(math.Float32frombits(uint32(u)))
	p.WriteBool(u&1 == 1)
	p.WriteEnum(dproto.EnumNumber(int32(u)))
	var ref []byte
	ref = rwire.AppendVarint(ref, u)
	ref = rwire.AppendVarint(ref, u)
	ref = rwire.AppendVarint(ref, rwire.EncodeZigZag(i))
	ref = rwire.AppendFixed64(ref, u)
	ref = rwire.AppendFixed64(ref, u)
	ref = rwire.AppendFixed64(ref, u)
	ref = rwire.AppendVarint(ref, uint64(int64(int32(u))))
	ref = rwire.AppendVarint(ref, uint64(uint32(u)))
	ref = rwire.AppendVarint(ref, rwire.EncodeZigZag(int64(int32(u))))
	ref = rwire.AppendFixed32(ref, uint32(u))
	ref = rwire.AppendFixed32(ref, uint32(u))
	ref = rwire.AppendFixed32(ref, uint32(u))
	ref = rwire.AppendVarint(ref, u&1)
	ref = rwire.AppendVarint(ref, uint64(int64(int32(u))))
	if !bytes.Equal(p.Buf, ref) {
		cs.Viol("wire:BinaryProtocol.Write*", "value", u, "got", append([]byte{}, p.Buf...), "want", ref)
	} else {
		rp := dbin.NewBinaryProtol(append([]byte{}, ref...))
		ok := true
		chk := func(name string, good bool, err error) {
			if err != nil || !good {
				if ok {
					cs.Viol("wire:BinaryProtocol."+name, "value", u, "err", err)
				}
				ok = false
			}
		}
		a, e := rp.ReadInt64()
		chk("ReadInt64", a == i, e)
		b, e := rp.ReadUint64()
		chk("ReadUint64", b == u, e)
		a, e = rp.ReadSint64()
		chk("ReadSint64", a == i, e)
		a, e = rp.ReadFixed64()
		chk("ReadFixed64", uint64(a) == u, e)
		a, e = rp.ReadSfixed64()
		chk("ReadSfixed64", a == i, e)
		d, e := rp.ReadDouble()
		chk("ReadDouble", math.Float64bits(d) == u, e)
		c, e := rp.ReadInt32()
		chk("ReadInt32", c == int32(u), e)
		g, e := rp.ReadUint32()
		chk("ReadUint32", g == uint32(u), e)
		c, e = rp.ReadSint32()
		chk("ReadSint32", c == int32(u), e)
		c, e = rp.ReadFixed32()
		chk("ReadFixed32", uint32(c) == uint32(u), e)
		c, e = rp.ReadSfixed32()
		chk("ReadSfixed32", c == int32(u), e)
		fl, e := rp.ReadFloat()
		chk("ReadFloat", math.Float32bits(fl) == uint32(u), e)
		bl, e := rp.ReadBool()
		chk("ReadBool", bl == (u&1 == 1), e)
		en, e := rp.ReadEnum()
		chk("ReadEnum", int32(en) == int32(u), e)
		if ok && rp.Read != len(ref) {
			cs.Viol("wire:BinaryProtocol.Read*:consumed", "read", rp.Read, "want", len(ref))
		}
		dbin.FreeBinaryProtocol(rp)
	}
	dbin.FreeBinaryProtocol(p)
}

var u32Bounds = []uint32{0, 1, 2, 127, 128, 129, 255, 256, 16383, 16384, 16385, 1<<21 - 1, 1 << 21, 1<<28 - 1, 1 << 28, 1<<30 - 1, 1 << 30, 1<<30 + 1,
	1<<31 - 1, 1 << 31, 1<<31 + 1, 0xbfffffff, 0xc0000000, 0xc0000001, 0xfffffffe, 0xffffffff, 0x7f800000, 0xff800000, 0x7fc00000, 0x00800000, 0x007fffff}

func runC20(c *h.Ctx) {
	// ---- 32-bit kinds -------------------------------------------------------------
	if c.Quick() {
		c.Run("scalar32-sampled", 256, func(cs *h.Case) {
			// stride-sampled: chunk k covers 2^24 values with a prime stride, plus all boundaries in chunk 0
			if cs.I == 0 {
				for _, b := range u32Bounds {
					for d := -2; d <= 2; d++ {
						c20Check32(cs, b+uint32(d))
					}
				}
			}
			base := uint32(cs.I) << 24
			off := uint32(cs.R.Intn(4099))
			for k := uint32(0); k < 1<<24; k += 4099 {
				c20Check32(cs, base+((k+off)&0xffffff))
			}
			cs.CoverN("values32_checked", (1<<24)/4099+1)
			cs.Distinct(fmt.Sprintf("s32-%d", cs.I))
		})
	} else {
		c.Run("scalar32-exhaustive", 4096, func(cs *h.Case) {
			base := uint32(cs.I) << 20
			for k := uint32(0); k < 1<<20; k++ {
				c20Check32(cs, base+k)
			}
			cs.CoverN("values32_checked", 1<<20)
			cs.Cover("chunks32_exhaustive")
			cs.Distinct(fmt.Sprintf("s32x-%d", cs.I))
		})
	}

	// ---- 64-bit kinds -------------------------------------------------------------
	c.Run("scalar64", c.N(400, 40000), func(cs *h.Case) {
		if cs.I < 64 {
			// every varint length boundary and sign boundary
			b := uint64(1) << uint(cs.I)
			for d := -3; d <= 3; d++ {
				c20Check64(cs, b+uint64(d))
				c20Check64(cs, -(b + uint64(d)))
			}
			cs.Cover("varint_length_boundaries")
		}
		for k := 0; k < 300; k++ {
			switch k % 3 {
			case 0:
				c20Check64(cs, gen.GenU64(cs.R))
			case 1:
				c20Check64(cs, cs.R.U64())
			default:
				c20Check64(cs, uint64(gen.GenI64P(cs.R)))
			}
		}
		cs.CoverN("values64_checked", 300)
		cs.Distinct(fmt.Sprintf("s64-%d", cs.I))
		if cs.I == 1 {
			cs.Sample(map[string]interface{}{"phase": "scalar64", "example": "2^1 +- 3 and 300 boundary/random 64-bit values through all 64-bit encoders/decoders"})
		}
	})

	// ---- varint decoder on arbitrary bytes -------------------------------------------
	// varints wider than the field kind (a value written under a wider kind and read under a narrower one): the
	// decoders must narrow exactly like the reference implementation
	c.Run("narrowing", c.N(400, 40000), func(cs *h.Case) {
		var v uint64
		switch cs.I % 8 {
		case 0:
			v = uint64(1)<<32 + uint64(cs.R.Intn(8))
		case 1:
			v = uint64(1)<<uint(32+cs.R.Intn(32)) | cs.R.U64()>>uint(32+cs.R.Intn(31))
		case 2:
			v = ^uint64(0) - uint64(cs.R.Intn(4))
		case 3:
			v = uint64([]int{2, 3, 255, 256, 257, 128, 0x7fffffff, 0x80000000, 0xffffffff}[cs.R.Intn(9)])
		default:
			v = cs.R.U64()
		}
		b := rwire.AppendVarint(nil, v)
		dec := dwire.BinaryDecoder{}
		if g, n := dec.DecodeInt32(b); g != int32(v) || n != len(b) {
			cs.Viol("wire:narrow:DecodeInt32", "varint", v, "got", g, "want", int32(v))
		}
		if g, n := dec.DecodeUint32(b); g != uint32(v) || n != len(b) {
			cs.Viol("wire:narrow:DecodeUint32", "varint", v, "got", g, "want", uint32(v))
		}
		if g, n := dec.DecodeSint32(b); g != int32(rwire.DecodeZigZag(v&0xffffffff)) || n != len(b) {
			cs.Viol("wire:narrow:DecodeSint32", "varint", v, "got", g, "want", int32(rwire.DecodeZigZag(v&0xffffffff)))
		}
		if g, n := dec.DecodeSint64(b); g != rwire.DecodeZigZag(v) || n != len(b) {
			cs.Viol("wire:narrow:DecodeSint64", "varint", v, "got", g, "want", rwire.DecodeZigZag(v))
		}
		if g, n := dec.DecodeBool(b); g != rwire.DecodeBool(v) || n != len(b) {
			cs.Viol("wire:narrow:DecodeBool", "varint", v, "got", g, "want", rwire.DecodeBool(v))
		}
		cs.Cover("narrowing_inputs")
		cs.Distinct(fmt.Sprintf("nw-%d-%d", cs.I%8, len(b)))
	})

	c.Run("varint-decoder", 258+c.N(300, 20000), func(cs *h.Case) {
		cmp := func(b []byte) {
			v1, n1 := dwire.ConsumeVarint(b)
			v2, n2 := rwire.ConsumeVarint(b)
			if (n1 < 0) != (n2 < 0) || (n1 >= 0 && (n1 != n2 || v1 != v2)) {
				cs.Viol("wire:ConsumeVarint:bytes", "input", b, "got-v", v1, "got-n", n1, "want-v", v2, "want-n", n2)
			}
			cs.Cover("varint_inputs")
		}
		switch {
		case cs.I == 0:
			cmp(nil)
			for a := 0; a < 256; a++ {
				cmp([]byte{byte(a)})
			}
			cs.Cover("varint_len1_exhaustive")
		case cs.I <= 256:
			for a := 0; a < 256; a++ {
				cmp([]byte{byte(cs.I - 1), byte(a)})
			}
			cs.Cover("varint_len2_exhaustive_rows")
		case cs.I == 257:
			// lengths 3..11: every continuation-bit pattern x payload in {0x00,0x01,0x7f}
			for l := 3; l <= 11; l++ {
				for pat := 0; pat < 1<<uint(l); pat++ {
					for _, pl := range []byte{0x00, 0x01, 0x7f} {
						b := make([]byte, l)
						for i := range b {
							b[i] = pl
							if pat>>uint(i)&1 == 1 {
								b[i] |= 0x80
							}
						}
						cmp(b)
					}
				}
			}
			cs.Cover("varint_len3to11_patterns")
		default:
			for k := 0; k < 200; k++ {
				l := 1 + cs.R.Intn(12)
				b := cs.R.Bytes(l)
				for i := range b {
					if cs.R.Chance(70) {
						b[i] |= 0x80
					}
				}
				cmp(b)
				// fixed / bytes decoders on the same arbitrary input
				v1, n1 := dwire.ConsumeFixed32(b)
				v2, n2 := rwire.ConsumeFixed32(b)
				if (n1 < 0) != (n2 < 0) || (n1 >= 0 && (n1 != n2 || v1 != v2)) {
					cs.Viol("wire:ConsumeFixed32:bytes", "input", b)
				}
				w1, m1 := dwire.ConsumeFixed64(b)
				w2, m2 := rwire.ConsumeFixed64(b)
				if (m1 < 0) != (m2 < 0) || (m1 >= 0 && (m1 != m2 || w1 != w2)) {
					cs.Viol("wire:ConsumeFixed64:bytes", "input", b)
				}
				bb, ln, all := dwire.ConsumeBytes(b)
				rb, rn := rwire.ConsumeBytes(b)
				if (all < 0) != (rn < 0) || (all >= 0 && (all != rn || !bytes.Equal(bb, rb) || ln != rn-len(rb))) {
					cs.Viol("wire:ConsumeBytes:bytes", "input", b, "got-all", all, "want-n", rn)
				}
			}
		}
		cs.Distinct(fmt.Sprintf("vd-%d", cs.I))
	})

	// ---- length-delimited ---------------------------------------------------------
	c.Run("bytes", c.N(300, 5000), func(cs *h.Case) {
		var s []byte
		switch {
		case cs.I < 140:
			s = cs.R.Bytes(cs.I)
		case cs.I < 150:
			s = cs.R.Bytes([]int{16383, 16384, 16385, 2097151, 2097152, 70000, 4095, 4096, 4097, 300}[cs.I-140])
		default:
			s = gen.GenStr(cs.R, gen.ValCfg{InvalidUTF8: true})
		}
		cs.Info("len", len(s))
		want := rwire.AppendBytes(nil, s)
		enc := dwire.BinaryEncoder{}
		dec := dwire.BinaryDecoder{}
		if got := enc.EncodeBytes(nil, s); !bytes.Equal(got, want) {
			cs.Viol("wire:EncodeBytes", "len", len(s))
		}
		if got := enc.EncodeString(nil, string(s)); !bytes.Equal(got, want) {
			cs.Viol("wire:EncodeString", "len", len(s))
		}
		tr := h.TrapCopy(want, true, true)
		v, n, all := dec.DecodeBytes(tr.B)
		if !bytes.Equal(v, s) || all != len(want) || n != len(want)-len(s) {
			cs.Viol("wire:DecodeBytes", "len", len(s), "n", n, "all", all)
		}
		str, n, all := dec.DecodeString(tr.B)
		if str != string(s) || all != len(want) || n != len(want)-len(s) {
			cs.Viol("wire:DecodeString", "len", len(s), "n", n, "all", all)
		}
		p := dbin.NewBinaryProtol(tr.B)
		rb, err := p.ReadBytes()
		if err != nil || !bytes.Equal(rb, s) || p.Read != len(want) {
			cs.Viol("wire:BinaryProtocol.ReadBytes", "err", err, "read", p.Read)
		}
		p.Read = 0
		rs, err := p.ReadString(cs.R.Bool())
		if err != nil || rs != string(s) || p.Read != len(want) {
			cs.Viol("wire:BinaryProtocol.ReadString", "err", err, "read", p.Read)
		}
		tr.Free()
		w := dbin.NewBinaryProtocolBuffer()
		w.WriteBytes(s)
		exp := append([]byte{}, want...)
		if werr := w.WriteString(string(s)); utf8.Valid(s) {
			// proto3 strings must be valid UTF-8: WriteString documents an error otherwise
			exp = append(exp, want...)
			if werr != nil {
				cs.Viol("wire:BinaryProtocol.WriteString:error", "err", werr)
			}
		}
		if !bytes.Equal(w.Buf, exp) {
			cs.Viol("wire:BinaryProtocol.WriteBytes/String", "len", len(s))
		}
		dbin.FreeBinaryProtocol(w)
		// every truncation of the encoding must be reported, never a short value
		for cut := 0; cut < len(want) && cut < 40; cut++ {
			_, _, all := dec.DecodeBytes(want[:cut])
			_, rn := rwire.ConsumeBytes(want[:cut])
			if (all < 0) != (rn < 0) {
				cs.Viol("wire:DecodeBytes:truncated", "cut", cut, "all", all, "ref", rn)
			}
		}
		cs.Cover("bytes_roundtrips")
		cs.Distinct(fmt.Sprintf("bytes-%d", len(s)))
	})

	// ---- tags ---------------------------------------------------------------------
	c.Run("tags", c.N(200, 3000), func(cs *h.Case) {
		nums := []int32{1, 2, 15, 16, 17, 2047, 2048, 2049, 262143, 262144, 1<<28 - 1, 1 << 28, 1<<29 - 1}
		num := nums[cs.R.Intn(len(nums))]
		if cs.R.Bool() {
			num = int32(1 + cs.R.Intn(1<<29-1))
		}
		wt := []dproto.WireType{dproto.VarintType, dproto.Fixed32Type, dproto.Fixed64Type, dproto.BytesType}[cs.R.Intn(4)]
		want := rwire.AppendTag(nil, rwire.Number(num), rwire.Type(wt))
		p := dbin.NewBinaryProtocolBuffer()
		if err := p.AppendTag(dproto.FieldNumber(num), wt); err != nil || !bytes.Equal(p.Buf, want) {
			cs.Viol("wire:AppendTag", "num", num, "type", int(wt), "err", err, "got", append([]byte{}, p.Buf...), "want", want)
		}
		dbin.FreeBinaryProtocol(p)
		rp := dbin.NewBinaryProtol(append([]byte{}, want...))
		n, t, l, err := rp.ConsumeTag()
		if err != nil || int32(n) != num || t != wt || l != len(want) || rp.Read != len(want) {
			cs.Viol("wire:ConsumeTag", "num", num, "type", int(wt), "err", err, "got-num", n, "got-type", int(t), "len", l)
		}
		rp.Read = 0
		n, t, l, err = rp.ConsumeTagWithoutMove()
		if err != nil || int32(n) != num || t != wt || l != len(want) || rp.Read != 0 {
			cs.Viol("wire:ConsumeTagWithoutMove", "num", num, "err", err)
		}
		dbin.FreeBinaryProtocol(rp)
		cs.Cover("tags")
		cs.Distinct(fmt.Sprintf("tag-%d-%d", len(want), wt))
	})

	// ---- length-prefix boundaries through the descriptor-driven writer -------------------
	c.Run("lenprefix", c.N(120, 1200), func(cs *h.Case) {
		const text = `syntax = "proto3";
option go_package = "verif/pb";
message Inner { string t = 1; repeated sint64 p = 2; }
message Outer { string s = 1; Inner in = 2; repeated fixed32 pk = 3; map<int32, string> ms = 4; map<string, Inner> mm = 5; Outer rec = 6; }
service Svc { rpc M(Outer) returns (Outer); }
`
		fd, _, err := pref.Compile("verif.proto", map[string]string{"verif.proto": text})
		if err != nil {
			cs.Cover("oracle_schema_rejected")
			return
		}
		outer := findMsg(fd, "Outer")
		inner := findMsg(fd, "Inner")
		svc, err := dproto.NewDescritorFromContent(context.Background(), "verif.proto", text, nil)
		if err != nil {
			cs.Viol("desc:parse", "err", err)
			return
		}
		desc := svc.LookupMethodByName("M").Input()
		// target payload sizes around the 1->2->3 byte length-prefix boundaries
		targets := []int{0, 1, 2, 125, 126, 127, 128, 129, 130, 16381, 16382, 16383, 16384, 16385, 16386, 2097150, 2097151, 2097152, 2097153}
		size := targets[cs.I%len(targets)]
		if cs.I >= len(targets)*4 {
			size = []int{120 + cs.R.Intn(20), 16376 + cs.R.Intn(20)}[cs.R.Intn(2)]
		}
		if size > 20000 && cs.Quick() && cs.I >= len(targets) {
			size = 127
		}
		which := (cs.I / len(targets)) % 4
		cs.Info("target-size", size)
		cs.Info("container", []string{"nested-message", "packed-list", "map-entry", "two-levels"}[which])
		m := dynamicpb.NewMessage(outer)
		pad := func(n int) string {
			if n < 0 {
				n = 0
			}
			return string(bytes.Repeat([]byte("x"), n))
		}
		switch which {
		case 0: // nested message whose encoded body is exactly `size`: tag(1)+len(L)+L bytes
			in := dynamicpb.NewMessage(inner)
			l := size - 1 - rwire.SizeVarint(uint64(size))
			for ; l >= 0 && 1+rwire.SizeVarint(uint64(l))+l > size; l-- {
			}
			if l > 0 {
				in.Set(inner.Fields().ByName("t"), protoreflectString(pad(l)))
			}
			m.Set(outer.Fields().ByName("in"), protoreflectMsg(in))
		case 1: // packed fixed32 list of size/4 elements
			l := m.Mutable(outer.Fields().ByName("pk")).List()
			for i := 0; i < size/4; i++ {
				l.Append(protoreflectU32(uint32(i)))
			}
		case 2: // map entry with a string value
			mp := m.Mutable(outer.Fields().ByName("ms")).Map()
			l := size - 4
			mp.Set(protoreflectI32(7).MapKey(), protoreflectString(pad(l)))
		default: // two levels: rec.in.t
			in := dynamicpb.NewMessage(inner)
			in.Set(inner.Fields().ByName("t"), protoreflectString(pad(size-6)))
			rec := dynamicpb.NewMessage(outer)
			rec.Set(outer.Fields().ByName("in"), protoreflectMsg(in))
			m.Set(outer.Fields().ByName("rec"), protoreflectMsg(rec))
		}
		for _, byName := range []bool{false, true} {
			g := PToGo(m, byName)
			wp := dbin.NewBinaryProtocolBuffer()
			err := wp.WriteAnyWithDesc(desc, g, false, false, true, byName)
			out := append([]byte{}, wp.Buf...)
			dbin.FreeBinaryProtocol(wp)
			if err != nil {
				cs.Viol("desc:lenprefix:error", "err", err)
				continue
			}
			m2 := dynamicpb.NewMessage(outer)
			if uerr := PUnmarshal(out, m2); uerr != nil {
				cs.Viol("desc:lenprefix:rejected-by-reference", "err", uerr, "out-len", len(out), "ref-len", len(PMarshal(m)))
			} else if !proto.Equal(m, m2) {
				cs.Viol("desc:lenprefix:different-message", "out-len", len(out))
			} else if len(out) != len(PMarshal(m)) {
				cs.Viol("desc:lenprefix:size-differs-from-reference", "out-len", len(out), "ref-len", len(PMarshal(m)))
			}
		}
		cs.Cover(fmt.Sprintf("lenprefix_class_%d", rwire.SizeVarint(uint64(size))))
		cs.Distinct(fmt.Sprintf("lp-%d-%d", which, size))
	})

	// ---- descriptor-driven reader / writer -------------------------------------------
	c.Run("withdesc", c.N(1500, 60000), func(cs *h.Case) {
		sc := gen.GenPSchema(cs.R, gen.PCfg{MaxDepth: 2, MaxFields: 6, Nested: cs.R.Bool(), Enums: true, BigNums: true})
		pc, err := PCompile(sc)
		if err != nil {
			cs.Cover("oracle_schema_rejected")
			cs.Info("schema-error", err.Error())
			return
		}
		cs.Info("proto", pc.Text)
		svc, err := dproto.NewDescritorFromContent(context.Background(), "verif.proto", pc.Text, nil)
		if err != nil {
			cs.Viol("desc:parse", "err", err)
			return
		}
		desc := svc.LookupMethodByName("M").Input()
		m := PGenMsg(cs.R, pc.Root, PValCfg{NonFinite: true, MaxElems: 5, MaxDepth: 3}, 0)
		b := PMarshal(m)
		cs.Info("bytes", hexs(b))
		cs.Info("message", fmt.Sprint(m))
		for _, byName := range []bool{false, true} {
			want := PToGo(m, byName)
			tr := h.TrapCopy(b, true, true)
			rp := dbin.NewBinaryProtol(tr.B)
			g, err := rp.ReadAnyWithDesc(desc, false, cs.R.Bool(), true, byName)
			mode := "num"
			if byName {
				mode = "name"
			}
			if err != nil {
				cs.Viol("desc:ReadAnyWithDesc:error:"+c20Kinds(m), "err", err, "mode", mode)
			} else if !DeepEq(g, want) {
				cs.Viol("desc:ReadAnyWithDesc:value:"+c20Kinds(m), "got", GoStr(g), "want", GoStr(want), "mode", mode)
			}
			tr.Free()
			cs.Cover("readanywithdesc_" + mode)
			// writer
			wp := dbin.NewBinaryProtocolBuffer()
			err = wp.WriteAnyWithDesc(desc, want, false, false, true, byName)
			out := append([]byte{}, wp.Buf...)
			dbin.FreeBinaryProtocol(wp)
			if err != nil {
				cs.Viol("desc:WriteAnyWithDesc:error", "err", err, "mode", mode, "go", GoStr(want))
				continue
			}
			m2 := dynamicpb.NewMessage(pc.Root)
			if uerr := PUnmarshal(out, m2); uerr != nil {
				cs.Viol("desc:WriteAnyWithDesc:rejected-by-reference:"+c20Kinds(m), "err", uerr, "out", out, "mode", mode)
			} else if !proto.Equal(m, m2) {
				cs.Viol("desc:WriteAnyWithDesc:different-message:"+c20Kinds(m), "got", fmt.Sprint(m2), "want", fmt.Sprint(m), "mode", mode)
			} else {
				rp2 := dbin.NewBinaryProtol(out)
				g2, err := rp2.ReadAnyWithDesc(desc, false, true, true, byName)
				if err != nil || !DeepEq(g2, want) {
					cs.Viol("desc:Read(Write)", "err", err, "got", GoStr(g2), "want", GoStr(want), "mode", mode)
				}
			}
			cs.Cover("writeanywithdesc_" + mode)
			// the other accepted map shapes: map[string]interface{} (cast on/off) and map[int]interface{} (cast on)
			for alt := 0; alt < 3; alt++ {
				opt := PGoOpt{ByName: byName, StrMaps: alt < 2, IntMaps: alt == 2}
				cast := alt >= 1
				g := PToGoOpt(m, opt)
				wp := dbin.NewBinaryProtocolBuffer()
				err := wp.WriteAnyWithDesc(desc, g, false, cast, true, byName)
				out := append([]byte{}, wp.Buf...)
				dbin.FreeBinaryProtocol(wp)
				kind := []string{"strmap", "strmap-cast", "intmap-cast"}[alt]
				if err != nil {
					cs.Viol("desc:WriteAnyWithDesc:"+kind+":error", "err", err, "mode", mode, "go", GoStr(g))
					continue
				}
				m2 := dynamicpb.NewMessage(pc.Root)
				if uerr := PUnmarshal(out, m2); uerr != nil {
					cs.Viol("desc:WriteAnyWithDesc:"+kind+":rejected-by-reference", "err", uerr, "out", out, "mode", mode, "go", GoStr(g))
				} else if !proto.Equal(m, m2) {
					cs.Viol("desc:WriteAnyWithDesc:"+kind+":different-message", "got", fmt.Sprint(m2), "want", fmt.Sprint(m), "mode", mode)
				}
				cs.Cover("writeanywithdesc_" + kind)
			}
		}
		cs.Distinct("wd-" + c20Shape(m))
		if cs.I == 3 {
			cs.Sample(map[string]interface{}{"phase": "withdesc", "proto": pc.Text, "message": fmt.Sprint(m), "bytes": hexs(b)})
		}
	})
}
