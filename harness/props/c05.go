package props

import (
	"time"
	"bytes"
	"fmt"
	"strings"

	"github.com/cloudwego/dynamicgo/thrift"
	"github.com/cloudwego/dynamicgo/thrift/generic"

	"verifharness/gen"
	"verifharness/h"
	"verifharness/tref"
)

func init() { h.Register("C05", runC05) }

// c05Schema builds schemas that cross the storage thresholds: ids around 256, maps around 16 entries.
func c05Value(cs *h.Case) (*gen.Schema, *tref.Val) {
	if cs.R.Chance(50) {
		sc := gen.GenSchema(cs.R, gen.Cfg{MaxDepth: 3, MaxFields: 6, StructKeys: cs.R.Chance(30), BigIDs: true, Recursive: true, SharedNames: cs.R.Bool()})
		v := gen.GenVal(cs.R, structType(sc.Root), gen.ValCfg{NonFinite: true, InvalidUTF8: true, ShuffleFlds: cs.R.Bool()}, 0)
		return sc, v
	}
	// threshold schema
	inner := &gen.StructT{Name: "Inner", Fields: []*gen.FieldT{
		{ID: 1, Name: "a", T: &gen.Type{T: tref.I32}},
		{ID: 255, Name: "b", T: &gen.Type{T: tref.STRING}},
		{ID: 256, Name: "c", T: &gen.Type{T: tref.I64}},
		{ID: 257, Name: "d", T: &gen.Type{T: tref.BOOL}},
		{ID: 1000, Name: "e", T: &gen.Type{T: tref.LIST, Elem: &gen.Type{T: tref.I16}}},
	}}
	root := &gen.StructT{Name: "Root", Fields: []*gen.FieldT{
		{ID: 1, Name: "sm", T: &gen.Type{T: tref.MAP, Key: &gen.Type{T: tref.STRING}, Elem: &gen.Type{T: tref.I32}}},
		{ID: 2, Name: "im", T: &gen.Type{T: tref.MAP, Key: &gen.Type{T: tref.I64}, Elem: &gen.Type{T: tref.STRING}}},
		{ID: 3, Name: "in", T: &gen.Type{T: tref.STRUCT, S: inner}},
		{ID: 255, Name: "x", T: &gen.Type{T: tref.I32}},
		{ID: 256, Name: "y", T: &gen.Type{T: tref.STRING}},
		{ID: 300, Name: "z", T: &gen.Type{T: tref.MAP, Key: &gen.Type{T: tref.I32}, Elem: &gen.Type{T: tref.STRUCT, S: inner}}},
		{ID: 32767, Name: "w", T: &gen.Type{T: tref.LIST, Elem: &gen.Type{T: tref.STRUCT, S: inner}}},
	}}
	sc := &gen.Schema{Structs: []*gen.StructT{inner, root}, Root: root}
	v := gen.GenVal(cs.R, structType(root), gen.ValCfg{MaxElems: 3, ShuffleFlds: cs.R.Bool()}, 0)
	// grow the maps to a threshold-relevant size
	sizes := []int{0, 1, 15, 16, 17, 18, 33, 64, 200}
	for _, f := range v.Fs {
		if f.V.T != tref.MAP {
			continue
		}
		want := sizes[cs.R.Intn(len(sizes))]
		m := f.V
		seen := map[string]bool{}
		for _, k := range m.K {
			seen[string(tref.Encode(k.Clone()))] = true
		}
		ft := root.Field(f.ID)
		for len(m.L) < want {
			var k *tref.Val
			switch m.KT {
			case tref.STRING:
				k = tref.Str(fmt.Sprintf("k%d-%d", cs.R.Intn(100000), len(m.L)))
			case tref.I64:
				k = tref.Int64(int64(cs.R.U64()) >> uint(cs.R.Intn(60)))
				if cs.R.Chance(30) {
					k = tref.Int64(int64(len(m.L)) * int64(2*want)) // colliding modulo the table size
				}
			default:
				k = tref.Int32(int32(cs.R.U64()))
			}
			ks := string(tref.Encode(k.Clone()))
			if seen[ks] {
				continue
			}
			seen[ks] = true
			m.K = append(m.K, k)
			m.L = append(m.L, gen.GenVal(cs.R, ft.T.Elem, gen.ValCfg{MaxElems: 2, MaxStr: 12}, 2))
		}
	}
	return sc, v
}

type c05opts struct {
	o       generic.Options
	recurse bool
	deflt   bool
}

func c05Opts(cs *h.Case) c05opts {
	bits := cs.R.Intn(16)
	if cs.R.Chance(25) {
		bits = 0
	}
	o := generic.Options{
		StoreChildrenById:   bits&1 != 0,
		StoreChildrenByHash: bits&2 != 0,
		NotScanParentNode:   bits&4 != 0,
		UseNativeSkip:       bits&8 != 0,
	}
	return c05opts{o: o, recurse: cs.R.Bool(), deflt: bits&7 == 0}
}

// cmpTree compares a loaded PathNode tree with the model (children sets, paths, nodes).
func cmpTree(cs *h.Case, api string, base []byte, pn *generic.PathNode, m *tref.Val, recurse bool, o *generic.Options, depth int) bool {
	kids := 0
	for i := range pn.Next {
		if pn.Next[i].Path.Type() != 0 && !pn.Next[i].Node.IsEmpty() {
			kids++
		}
	}
	want := len(m.L)
	if m.T == tref.STRUCT {
		want = len(m.Fs)
	}
	if kids != want {
		cs.Viol("dom:"+api+":child-count", "got", kids, "want", want, "model", m.String(), "depth", depth)
		return false
	}
	check := func(ch *generic.PathNode, cm *tref.Val, what string) bool {
		if ch == nil {
			cs.Viol("dom:"+api+":lookup-nil:"+what, "model", cm.String(), "parent", m.String())
			return false
		}
		if ch.IsError() {
			cs.Viol("dom:"+api+":lookup-error:"+what, "err", ch.Error())
			return false
		}
		skipRaw := recurse && o.NotScanParentNode && isContainer(cm.T)
		if !skipRaw {
			if !checkNode(cs, api+":"+what, base, ch.Node, cm) {
				return false
			}
		} else if byte(ch.Node.Type()) != cm.T {
			cs.Viol("dom:"+api+":type:"+what, "got", int(ch.Node.Type()), "want", int(cm.T))
			return false
		}
		if recurse && isContainer(cm.T) {
			return cmpTree(cs, api, base, ch, cm, recurse, o, depth+1)
		}
		return true
	}
	switch m.T {
	case tref.STRUCT:
		for _, f := range m.Fs {
			if !check(pn.Field(thrift.FieldID(f.ID), o), f.V, "Field") {
				return false
			}
		}
	case tref.LIST, tref.SET:
		// sequential storage: position i
		if len(pn.Next) < len(m.L) {
			return false
		}
		for i, e := range m.L {
			ch := &pn.Next[i]
			if ch.Path.Type() != generic.PathIndex || ch.Path.Int() != i {
				cs.Viol("dom:"+api+":list-path", "i", i, "got", ch.Path.String())
				return false
			}
			if !check(ch, e, "Index") {
				return false
			}
		}
	case tref.MAP:
		for i, k := range m.K {
			switch m.KT {
			case tref.STRING:
				if !check(pn.GetByStr(string(k.S), o), m.L[i], "GetByStr") {
					return false
				}
			case tref.BYTE, tref.I16, tref.I32, tref.I64:
				if !check(pn.GetByInt(int(k.I), o), m.L[i], "GetByInt") {
					return false
				}
			default:
				raw := tref.Encode(k.Clone())
				var ch *generic.PathNode
				for j := range pn.Next {
					if pn.Next[j].Path.Type() == generic.PathBinKey && bytes.Equal(pn.Next[j].Path.Bin(), raw) {
						ch = &pn.Next[j]
					}
				}
				if !check(ch, m.L[i], "BinKey") {
					return false
				}
			}
		}
	}
	return true
}

func runC05(c *h.Ctx) {
	defer c05DeepLoad(c)
	c.Run("dom", c.N(8000, 200000), func(cs *h.Case) {
		tree := generic.NewPathNode()
		defer generic.FreePathNode(tree)
		nloads := 1 + cs.R.Intn(3)
		var childrenOut []generic.PathNode
		for load := 0; load < nloads; load++ {
			sc, v := c05Value(cs)
			op := c05Opts(cs)
			o := &op.o
			b := tref.Encode(v)
			cs.Info(fmt.Sprintf("load%d", load), map[string]interface{}{"idl": sc.IDL(), "bytes": hexs(b), "opts": fmt.Sprintf("%+v recurse=%v", *o, op.recurse)})
			tr := h.TrapCopy(b, cs.R.Bool(), true)
			base := tr.B
			tree.Node = generic.NewNode(thrift.STRUCT, base)
			reuse := ""
			if load > 0 {
				reuse = ":reused-tree"
			}
			if err := tree.Load(op.recurse, o); err != nil {
				cs.Viol("dom:Load:error"+reuse, "err", err)
				tr.Free()
				return
			}
			cs.Cover(fmt.Sprintf("load_byid%v_hash%v_noscan%v_recurse%v", o.StoreChildrenById, o.StoreChildrenByHash, o.NotScanParentNode, op.recurse))
			if !cmpTree(cs, "Load"+reuse, base, tree, v, op.recurse, o, 0) {
				tr.Free()
				return
			}
			// marshal back
			out, err := tree.Marshal(o)
			if err != nil {
				cs.Viol("dom:Marshal:error"+reuse, "err", err)
				tr.Free()
				return
			}
			dec, derr := tref.Decode(out, tref.STRUCT)
			if derr != nil {
				cs.Viol("dom:Marshal:malformed"+reuse, "decode-error", derr, "out", out)
				tr.Free()
				return
			}
			if !tref.EqualUnordered(dec, v) {
				cs.Viol("dom:Marshal:value"+reuse, "got", dec.String(), "want", v.String())
				tr.Free()
				return
			}
			if op.deflt && !bytes.Equal(out, b) {
				cs.Viol("dom:Marshal:not-byte-identical"+reuse, "out", out, "in", b)
				tr.Free()
				return
			}
			// the marshalled bytes belong to the caller: marshalling something else afterwards must not touch them
			heldCopy := append([]byte{}, out...)
			other := generic.PathNode{Node: generic.NewNodeString(strings.Repeat("\xa5", 16+len(out)))}
			if _, err := other.Marshal(o); err != nil {
				cs.Viol("dom:Marshal:scalar-root-error", "err", err)
			}
			if !bytes.Equal(out, heldCopy) {
				cs.Viol("dom:Marshal:result-changed-by-later-marshal"+reuse, "was", heldCopy, "now", out)
				tr.Free()
				return
			}
			cs.Cover("marshal_result_held_intact")
			// MarshalIntoBuffer appends after a canary prefix
			canary := []byte{0xde, 0xad, 0xbe, 0xef}
			buf := append(make([]byte, 0, 8+cs.R.Intn(64)), canary...)
			if err := tree.MarshalIntoBuffer(&buf, o); err != nil || !bytes.Equal(buf[:4], canary) || !bytes.Equal(buf[4:], out) {
				cs.Viol("dom:MarshalIntoBuffer", "err", err, "buf", buf, "out", out)
			}
			// Children() with a reused out slice
			if err := tree.Node.Children(&childrenOut, op.recurse, o); err != nil {
				cs.Viol("dom:Children:error", "err", err)
			} else {
				tmp := generic.PathNode{Node: tree.Node, Next: childrenOut}
				if cmpTree(cs, "Children(reused-out)", base, &tmp, v, op.recurse, o, 0) {
					out2, err := tmp.Marshal(o)
					if err != nil || !bytes.Equal(out2, out) {
						d2, _ := tref.Decode(out2, tref.STRUCT)
						if err != nil || d2 == nil || !tref.EqualUnordered(d2, v) {
							cs.Viol("dom:Children(reused-out):marshal", "err", err, "out", out2)
						}
					}
				}
			}
			// PathNodeToInterface on recursively loaded trees
			if op.recurse && !o.NotScanParentNode {
				g := generic.PathNodeToInterface(*tree, o, false)
				want := ToGo(v, nil, GoCfg{GenericNode: true, IntAsInt: true, StructByID: o.MapStructById})
				if !GoEq(g, want) {
					cs.Viol("dom:PathNodeToInterface", "got", GoStr(g), "want", GoStr(want))
				}
				cs.Cover("api_PathNodeToInterface")
			}
			// edits on a recursively loaded tree
			if op.recurse {
				if !c05Edits(cs, tree, v, o, reuse) {
					tr.Free()
					return
				}
			}
			cs.Distinct(fmt.Sprintf("dom-%d-%v-%+v-%s", load, op.recurse, *o, shapeKey(v)[:min(len(shapeKey(v)), 24)]))
			if cs.I == 3 && load == 0 {
				cs.Sample(map[string]interface{}{"idl": sc.IDL(), "model": v.String(), "opts": fmt.Sprintf("%+v recurse=%v", *o, op.recurse)})
			}
			tr.Free()
		}
	})

	// NewTypedNode from children
	// ---- maps stored by hash that grow far beyond their loaded size through the setters: every key, old and new, must
	// stay reachable and must be marshalled
	c.Run("hash-growth", c.N(600, 15000), func(cs *h.Case) {
		strKeys := cs.R.Bool()
		n := []int{0, 3, 16, 17, 18, 24, 33, 40}[cs.R.Intn(8)]
		adds := 1 + cs.R.Intn(3*n+20)
		kt := byte(tref.I32)
		if strKeys {
			kt = tref.STRING
		}
		mk := func(i int) *tref.Val {
			if strKeys {
				return tref.Str(fmt.Sprintf("key-%d", i))
			}
			return tref.Int32(int32(i * 7))
		}
		m := &tref.Val{T: tref.MAP, KT: kt, ET: tref.I64}
		for i := 0; i < n; i++ {
			m.K = append(m.K, mk(i))
			m.L = append(m.L, tref.Int64(int64(1000+i)))
		}
		root := tref.Struct(tref.Field{ID: 1, V: m})
		b := tref.Encode(root)
		opts := &generic.Options{StoreChildrenByHash: cs.R.Chance(80), StoreChildrenById: cs.R.Bool()}
		tree := generic.PathNode{Node: generic.NewNode(thrift.STRUCT, b)}
		if err := tree.Load(true, opts); err != nil {
			cs.Viol("dom:hash-growth:load", "err", err)
			return
		}
		mp := tree.Field(1, opts)
		if mp == nil {
			cs.Viol("dom:hash-growth:field-missing")
			return
		}
		want := map[string]int64{}
		keyStr := func(k *tref.Val) string {
			if strKeys {
				return string(k.S)
			}
			return fmt.Sprint(k.I)
		}
		for i, k := range m.K {
			want[keyStr(k)] = m.L[i].I
		}
		cs.Info("setup", fmt.Sprintf("strKeys=%v loaded=%d adds=%d opts=%+v", strKeys, n, adds, *opts))
		for a := 0; a < adds; a++ {
			i := n + a
			if cs.R.Chance(20) && n+a > 0 {
				i = cs.R.Intn(n + a) // overwrite an existing key (old or new)
			}
			k := mk(i)
			val := int64(5000 + a)
			var err error
			if strKeys {
				_, err = mp.SetByStr(string(k.S), generic.NewNodeInt64(val), opts)
			} else {
				_, err = mp.SetByInt(int(k.I), generic.NewNodeInt64(val), opts)
			}
			if err != nil {
				cs.Viol("dom:hash-growth:setter-error", "err", err, "step", a)
				return
			}
			want[keyStr(k)] = val
		}
		// lookups
		for ks, wv := range want {
			var x *generic.PathNode
			if strKeys {
				x = mp.GetByStr(ks, opts)
			} else {
				var ki int
				fmt.Sscan(ks, &ki)
				x = mp.GetByInt(ki, opts)
			}
			if x == nil {
				cs.Viol("dom:hash-growth:key-lost", "key", ks, "loaded", n, "adds", adds)
				return
			}
			if g, err := x.Node.Int(); err != nil || int64(g) != wv {
				cs.Viol("dom:hash-growth:stale-value", "key", ks, "got", g, "want", wv)
				return
			}
		}
		out, err := tree.Marshal(opts)
		if err != nil {
			cs.Viol("dom:hash-growth:marshal", "err", err)
			return
		}
		dec, derr := tref.Decode(out, tref.STRUCT)
		if derr != nil || dec.FieldByID(1) == nil || dec.FieldByID(1).T != tref.MAP {
			cs.Viol("dom:hash-growth:malformed", "decode-error", derr, "out", out)
			return
		}
		gm := dec.FieldByID(1)
		got := map[string]int64{}
		for i, k := range gm.K {
			if _, dup := got[keyStr(k)]; dup {
				cs.Viol("dom:hash-growth:duplicate-key", "key", keyStr(k))
				return
			}
			got[keyStr(k)] = gm.L[i].I
		}
		if len(got) != len(want) {
			cs.Viol("dom:hash-growth:marshal-entries", "got", len(got), "want", len(want), "loaded", n, "adds", adds)
			return
		}
		for k, v := range want {
			if got[k] != v {
				cs.Viol("dom:hash-growth:marshal-value", "key", k, "got", got[k], "want", v)
				return
			}
		}
		cs.Cover("hash_growth_ok")
		if adds > n && n > 16 {
			cs.Cover("hash_growth_more_new_keys_than_loaded")
		}
		cs.Distinct(fmt.Sprintf("hg-%v-%d-%d", strKeys, n, adds/4))
	})

	c.Run("typednode", c.N(2000, 40000), func(cs *h.Case) {
		sc := gen.GenSchema(cs.R, gen.Cfg{MaxDepth: 2, MaxFields: 5, StructKeys: false, BigIDs: true})
		v := gen.GenVal(cs.R, structType(sc.Root), gen.ValCfg{MaxElems: 4, NonFinite: true}, 0)
		// pick a container node and rebuild it with NewTypedNode from its children
		var conts []*tref.Val
		tref.Walk(v, func(n *tref.Val, d int) {
			if isContainer(n.T) {
				conts = append(conts, n)
			}
		})
		m := conts[cs.R.Intn(len(conts))]
		var kids []generic.PathNode
		switch m.T {
		case tref.STRUCT:
			for _, f := range m.Fs {
				kids = append(kids, generic.PathNode{Path: generic.NewPathFieldId(thrift.FieldID(f.ID)), Node: generic.NewNode(thrift.Type(f.V.T), tref.Encode(f.V.Clone()))})
			}
		case tref.LIST, tref.SET:
			for i, e := range m.L {
				kids = append(kids, generic.PathNode{Path: generic.NewPathIndex(i), Node: generic.NewNode(thrift.Type(e.T), tref.Encode(e.Clone()))})
			}
		case tref.MAP:
			for i, e := range m.L {
				kids = append(kids, generic.PathNode{Path: keyPath(m.K[i]), Node: generic.NewNode(thrift.Type(e.T), tref.Encode(e.Clone()))})
			}
		}
		cs.Info("model", m.String())
		n := generic.NewTypedNode(thrift.Type(m.T), thrift.Type(m.ET), thrift.Type(m.KT), kids...)
		if n.IsError() {
			cs.Viol("dom:NewTypedNode:error", "err", n.Error())
			return
		}
		dec, err := tref.Decode(n.Raw(), m.T)
		if err != nil {
			cs.Viol("dom:NewTypedNode:malformed", "decode-error", err, "raw", n.Raw())
		} else if !tref.Equal(dec, m) {
			cs.Viol("dom:NewTypedNode:value", "got", dec.String(), "want", m.String())
		}
		cs.Cover("api_NewTypedNode")
		cs.Distinct(fmt.Sprintf("tn-%s-%s-%s-%d", tref.TypeName(m.T), tref.TypeName(m.ET), tref.TypeName(m.KT), sizeClass(len(kids))))
	})
}

func min(a, b int) int {
	if a < b {
		return a
	}
	return b
}

// c05Mutate changes v in place into a different value of the same type.
func c05Mutate(r *h.Rand, v *tref.Val) {
	var leaves []*tref.Val
	var conts []*tref.Val
	tref.Walk(v, func(n *tref.Val, d int) {
		switch n.T {
		case tref.STRUCT:
		case tref.LIST, tref.SET, tref.MAP:
			if len(n.L) > 0 && n.T != tref.SET {
				conts = append(conts, n)
			}
		default:
			leaves = append(leaves, n)
		}
	})
	if len(conts) > 0 && r.Chance(40) {
		n := conts[r.Intn(len(conts))]
		n.L = n.L[:len(n.L)-1]
		if n.T == tref.MAP {
			n.K = n.K[:len(n.K)-1]
		}
		return
	}
	// only leaves that are not map keys / set elements (uniqueness) are touched: pick from struct fields and list/map values
	var safe []*tref.Val
	tref.Walk(v, func(n *tref.Val, d int) {
		switch n.T {
		case tref.STRUCT:
			for _, f := range n.Fs {
				if !isContainer(f.V.T) {
					safe = append(safe, f.V)
				}
			}
		case tref.LIST, tref.MAP:
			for _, e := range n.L {
				if !isContainer(e.T) {
					safe = append(safe, e)
				}
			}
		}
	})
	if len(safe) == 0 {
		return
	}
	n := safe[r.Intn(len(safe))]
	switch n.T {
	case tref.BOOL:
		n.B = !n.B
	case tref.BYTE:
		n.I = (n.I + 1) & 0x7f
	case tref.I16, tref.I32, tref.I64:
		n.I ^= 1
	case tref.DOUBLE:
		n.F = n.F/2 + 1
		if n.F != n.F {
			n.F = 1
		}
	case tref.STRING:
		n.S = append(append([]byte{}, n.S...), 'x')
	}
}

// c05Edits applies a sequence of SetField/SetByStr/SetByInt (overwrite, append, clear) on PathNodes of a
// recursively loaded tree and compares Marshal with the model.
func c05Edits(cs *h.Case, tree *generic.PathNode, v *tref.Val, o *generic.Options, reuse string) bool {
	cur := v.Clone()
	nsteps := cs.R.Intn(8)
	var log []string
	for step := 0; step < nsteps; step++ {
		conts := containerPaths(cur, 100)
		cp := conts[cs.R.Intn(len(conts))]
		var cont *tref.Val
		if len(cp) == 0 {
			cont = cur
		} else {
			_, cont, _, _ = mresolve(cur, cp)
		}
		if cont.T == tref.LIST || cont.T == tref.SET || (cont.T == tref.MAP && cont.KT != tref.STRING && cont.KT != tref.BYTE && cont.KT != tref.I16 && cont.KT != tref.I32 && cont.KT != tref.I64) {
			continue
		}
		// locate the PathNode for cp
		pn := tree
		okNav := true
		cm := cur
		for _, s := range cp {
			var next *generic.PathNode
			switch s.Kind {
			case stField:
				next = pn.Field(thrift.FieldID(s.ID), o)
			case stIndex:
				if s.Idx < len(pn.Next) {
					next = &pn.Next[s.Idx]
				}
			default:
				switch s.Key.T {
				case tref.STRING:
					next = pn.GetByStr(string(s.Key.S), o)
				case tref.BYTE, tref.I16, tref.I32, tref.I64:
					next = pn.GetByInt(int(s.Key.I), o)
				default:
					raw := tref.Encode(s.Key.Clone())
					for j := range pn.Next {
						if pn.Next[j].Path.Type() == generic.PathBinKey && bytes.Equal(pn.Next[j].Path.Bin(), raw) {
							next = &pn.Next[j]
						}
					}
				}
			}
			if next == nil || next.IsError() {
				okNav = false
				break
			}
			c, _, _ := mchild(cm, s)
			if c == nil {
				okNav = false
				break
			}
			cm = c
			pn = next
		}
		if !okNav {
			if len(log) == 0 {
				cs.Viol("dom:edit:navigate-failed"+reuse, "path", mpathStr(cp))
				return false
			}
			cs.Cover("edit_target_below_unloaded_node_skipped")
			continue // below a node stored by an earlier edit: its children are not loaded
		}
		if len(pn.Next) == 0 && (len(cont.L)+len(cont.Fs)) > 0 {
			continue // not loaded below this node
		}
		// choose target: existing child / new child, and action set/clear
		var st mstep
		existing := false
		n := len(cont.L)
		if cont.T == tref.STRUCT {
			n = len(cont.Fs)
		}
		if n > 0 && cs.R.Chance(60) {
			existing = true
			i := cs.R.Intn(n)
			if cont.T == tref.STRUCT {
				st = mstep{Kind: stField, ID: cont.Fs[i].ID}
			} else {
				st = mstep{Kind: stKey, Key: cont.K[i]}
			}
		} else {
			if cont.T == tref.STRUCT {
				id := []int16{17, 254, 255, 256, 257, 300, 20000, int16(1 + cs.R.Intn(30000))}[cs.R.Intn(8)]
				if cont.FieldByID(id) != nil {
					continue
				}
				st = mstep{Kind: stField, ID: id}
			} else {
				var k *tref.Val
				if cont.KT == tref.STRING {
					k = tref.Str(fmt.Sprintf("new-%d", cs.R.Intn(100000)))
				} else {
					k = &tref.Val{T: cont.KT, I: gen.GenInt(cs.R, cont.KT)}
					if k.T == tref.BYTE && k.I < 0 {
						k.I = -(k.I + 1)
					}
				}
				if c, _, _ := mchild(cont, mstep{Kind: stKey, Key: k}); c != nil {
					continue
				}
				st = mstep{Kind: stKey, Key: k}
			}
		}
		clear := existing && cs.R.Chance(25)
		var nv *tref.Val
		var node generic.Node
		if !clear {
			var wantT byte
			if cont.T == tref.MAP {
				wantT = cont.ET
			} else if existing {
				wantT = cont.FieldByID(st.ID).T
			} else {
				wantT = []byte{tref.I32, tref.STRING, tref.I64, tref.BOOL}[cs.R.Intn(4)]
			}
			if isContainer(wantT) {
				old, _, _ := mchild(cont, st)
				if old == nil {
					// new entry of container type: copy a sibling's shape
					if len(cont.L) == 0 {
						continue
					}
					old = cont.L[0]
				}
				nv = old.Clone()
				if cs.R.Chance(70) {
					// a different value of the same type: children loaded from the old value must not survive
					c05Mutate(cs.R, nv)
					cs.Cover("edit_container_replaced_by_different_value")
				}
			} else {
				nv = gen.GenVal(cs.R, &gen.Type{T: wantT}, gen.ValCfg{NonFinite: true, MaxStr: 40}, 2)
			}
			node = mkNode(cs, nv)
		}
		p := append(append([]mstep{}, cp...), st)
		var exist bool
		var err error
		what := ""
		switch {
		case st.Kind == stField:
			what = "SetField"
			exist, err = pn.SetField(thrift.FieldID(st.ID), node, o)
		case st.Key.T == tref.STRING:
			what = "SetByStr"
			exist, err = pn.SetByStr(string(st.Key.S), node, o)
		default:
			what = "SetByInt"
			exist, err = pn.SetByInt(int(st.Key.I), node, o)
		}
		log = append(log, fmt.Sprintf("%s %s clear=%v existing=%v := %v", what, mpathStr(p), clear, existing, nv))
		_ = exist // a cleared child keeps its slot, so the returned flag is not asserted (not part of the statement)
		if err != nil {
			cs.Viol("dom:edit:"+what+":error"+reuse, "err", err, "log", log)
			return false
		}
		// model
		switch {
		case clear:
			cur = mremove(cur, p)
		case existing:
			cur = mreplace(cur, p, nv)
		default:
			alts := minsertAll(cur, p, nv)
			cur = alts[len(alts)-1]
		}
		// lookup returns the child last stored
		if !clear {
			var got *generic.PathNode
			switch what {
			case "SetField":
				got = pn.Field(thrift.FieldID(st.ID), o)
			case "SetByStr":
				got = pn.GetByStr(string(st.Key.S), o)
			default:
				got = pn.GetByInt(int(st.Key.I), o)
			}
			if got == nil || got.IsError() || !bytes.Equal(got.Node.Raw(), node.Raw()) {
				cs.Viol("dom:edit:"+what+":lookup-after-set"+reuse, "log", log)
				return false
			}
		}
		cs.Cover("edit_" + what)
		if clear {
			cs.Cover("edit_clear")
		}
		out, err := tree.Marshal(o)
		if err != nil {
			cs.Viol("dom:edit:Marshal:error"+reuse, "err", err, "log", log)
			return false
		}
		dec, derr := tref.Decode(out, tref.STRUCT)
		if derr != nil {
			cs.Viol("dom:edit:Marshal:malformed"+reuse, "decode-error", derr, "out", out, "log", log)
			return false
		}
		if !tref.EqualUnordered(dec, cur) {
			cs.Viol("dom:edit:Marshal:value:"+what+reuse, "got", dec.String(), "want", cur.String(), "log", log)
			return false
		}
	}
	return true
}

// c05DeepLoad: values nested up to and beyond the depth at which skipping gives up (1023): a recursive Load walks
// every level itself, so - whatever the option vector - it either reports an error or the tree marshals back to the
// very bytes.
func c05DeepLoad(c *h.Ctx) {
	c.Run("deep-load", c.N(24, 96), func(cs *h.Case) {
		depth := []int{900, 1022, 1023, 1024, 1025, 1100, 1500, 3000}[cs.I%8]
		// a chain of structs / lists / maps (kinds mixed), a string at the bottom, a sibling behind every level
		v := tref.Str("bottom")
		for i := 0; i < depth; i++ {
			switch (i + cs.I) % 3 {
			case 0:
				v = tref.Struct(tref.Field{ID: 1, V: v}, tref.Field{ID: 2, V: tref.Int32(int32(i))})
			case 1:
				v = &tref.Val{T: tref.LIST, ET: v.T, L: []*tref.Val{v}}
			default:
				v = &tref.Val{T: tref.MAP, KT: tref.I32, ET: v.T, K: []*tref.Val{tref.Int32(int32(i))}, L: []*tref.Val{v}}
			}
		}
		root := tref.Struct(tref.Field{ID: 1, V: v}, tref.Field{ID: 2, V: tref.Str("tail")})
		b := tref.Encode(root)
		bits := cs.R.Intn(32)
		o := &generic.Options{UseNativeSkip: bits&1 != 0, StoreChildrenById: bits&2 != 0, NotScanParentNode: cs.I%2 == 0, StoreChildrenByHash: bits&8 != 0}
		tree := generic.PathNode{Node: generic.NewNode(thrift.STRUCT, b)}
		cs.Info("depth", depth)
		cs.Info("opts", fmt.Sprintf("%+v", *o))
		var err error
		var out []byte
		cs.Guarded("PathNode.Load+deep", 60*time.Second, func() {
			if err = tree.Load(true, o); err == nil {
				out, err = tree.Marshal(o)
			}
		})
		if err != nil {
			cs.Cover("deep_load_error_returned")
			return
		}
		if !bytes.Equal(out, b) {
			cs.Viol("dom:deep-load:Marshal:bytes", "depth", depth, "in-len", len(b), "out-len", len(out), "not-scan-parent", o.NotScanParentNode)
			return
		}
		cs.Cover("deep_load_ok")
		if depth > 1023 {
			cs.Cover("deep_load_beyond_skip_depth_ok")
		}
		cs.Distinct(fmt.Sprintf("deepload-%d-%v", depth, o.NotScanParentNode))
	})
}
