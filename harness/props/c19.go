package props

import (
	"bytes"
	"fmt"
	"math"

	"github.com/cloudwego/dynamicgo/thrift"

	"verifharness/gen"
	"verifharness/h"
	"verifharness/tref"
)

func init() { h.Register("C19", runC19) }

func bpWrite(f func(p *thrift.BinaryProtocol) error) ([]byte, error) {
	p := thrift.NewBinaryProtocolBuffer()
	defer thrift.FreeBinaryProtocolBuffer(p)
	err := f(p)
	return append([]byte{}, p.Buf...), err
}

// c19Junk: half of the readers start at a non-zero cursor behind a few unrelated bytes.
func c19Junk(cs *h.Case) []byte {
	if cs.R.Bool() {
		return nil
	}
	cs.Cover("reads_from_nonzero_cursor")
	return cs.R.Bytes(1 + cs.R.Intn(9))
}

func runC19(c *h.Ctx) {
	// ---- exhaustive bool/byte/i16 ------------------------------------------------
	c.Run("scalar-exhaustive", 18, func(cs *h.Case) {
		cs.Info("phase-note", "chunk of 4096 i16 values (all 65536 over 16 chunks); chunk 16 = all bytes, 17 = bools")
		switch {
		case cs.I < 16:
			for k := 0; k < 4096; k++ {
				v := int16(uint16(cs.I*4096 + k))
				checkScalar(cs, tref.Int16(v))
			}
			cs.Cover("i16_values_exhaustive")
			cs.CoverN("scalar_roundtrips", 4096)
		case cs.I == 16:
			for k := 0; k < 256; k++ {
				checkScalar(cs, tref.Byte(int8(k)))
			}
			cs.CoverN("scalar_roundtrips", 256)
			cs.Cover("byte_values_exhaustive")
		default:
			checkScalar(cs, tref.Bool(true))
			checkScalar(cs, tref.Bool(false))
			cs.Cover("bool_values_exhaustive")
		}
		cs.Distinct(fmt.Sprintf("exh-%d", cs.I))
	})

	// ---- boundary + random i32/i64/double ---------------------------------------
	c.Run("scalar-random", c.N(200, 20000), func(cs *h.Case) {
		for k := 0; k < 500; k++ {
			var v *tref.Val
			switch k % 3 {
			case 0:
				v = tref.Int32(int32(gen.GenInt(cs.R, tref.I32)))
			case 1:
				v = tref.Int64(gen.GenInt(cs.R, tref.I64))
			default:
				if cs.R.Chance(20) {
					v = tref.Double(gen.GenNonFinite(cs.R))
				} else if cs.R.Bool() {
					v = tref.Double(math.Float64frombits(cs.R.U64()))
				} else {
					v = tref.Double(gen.GenDouble(cs.R, true))
				}
			}
			checkScalar(cs, v)
		}
		cs.CoverN("scalar_roundtrips", 500)
		cs.Distinct(fmt.Sprintf("rnd-%d", cs.I))
	})

	// ---- strings / binaries ------------------------------------------------------
	c.Run("strings", c.N(300, 6000), func(cs *h.Case) {
		var s []byte
		switch {
		case cs.I < 80:
			s = cs.R.Bytes(cs.I)
		case cs.I < 100:
			s = cs.R.Bytes([]int{4095, 4096, 4097, 65535, 65536, 65537, 70000, 1 << 17, 8191, 8192, 8193, 16384, 32768, 1000, 2000, 3000, 5000, 255, 256, 257}[cs.I-80])
		default:
			s = gen.GenStr(cs.R, gen.ValCfg{InvalidUTF8: cs.R.Bool()})
		}
		cs.Info("len", len(s))
		want := tref.Encode(tref.Bin(s))
		got, err := bpWrite(func(p *thrift.BinaryProtocol) error { return p.WriteString(string(s)) })
		if err != nil || !bytes.Equal(got, want) {
			cs.Viol("codec:WriteString:bytes", "err", err, "got", got, "want", want)
		}
		got, err = bpWrite(func(p *thrift.BinaryProtocol) error { return p.WriteBinary(s) })
		if err != nil || !bytes.Equal(got, want) {
			cs.Viol("codec:WriteBinary:bytes", "err", err, "got", got, "want", want)
		}
		for _, cp := range []bool{false, true} {
			pre := c19Junk(cs)
			tr := h.TrapCopy(append(append([]byte{}, pre...), want...), true, true)
			p := &thrift.BinaryProtocol{Buf: tr.B, Read: len(pre)}
			r, err := p.ReadString(cp)
			if err != nil || r != string(s) || p.Read != len(pre)+len(want) {
				cs.Viol("codec:ReadString", "err", err, "read", p.Read-len(pre), "want", len(want), "cursor", len(pre))
			}
			p.Read = len(pre)
			rb, err := p.ReadBinary(cp)
			if err != nil || !bytes.Equal(rb, s) || p.Read != len(pre)+len(want) {
				cs.Viol("codec:ReadBinary", "err", err, "read", p.Read-len(pre), "want", len(want), "cursor", len(pre))
			}
			tr.Free()
		}
		// fixed-offset encoders
		buf := make([]byte, len(want))
		thrift.BinaryEncoding{}.EncodeString(buf, string(s))
		if !bytes.Equal(buf, want) {
			cs.Viol("codec:BinaryEncoding.EncodeString", "got", buf, "want", want)
		}
		buf = make([]byte, len(want))
		thrift.BinaryEncoding{}.EncodeBinary(buf, s)
		if !bytes.Equal(buf, want) {
			cs.Viol("codec:BinaryEncoding.EncodeBinary", "got", buf, "want", want)
		}
		be := thrift.BinaryEncoding{}
		if be.DecodeString(want) != string(s) || !bytes.Equal(be.DecodeBytes(want), s) {
			cs.Viol("codec:BinaryEncoding.DecodeString")
		}
		cs.Cover("string_roundtrips")
		cs.Distinct(fmt.Sprintf("str-len-%d", len(s)))
		if cs.I == 3 {
			cs.Sample(map[string]interface{}{"phase": "strings", "bytes": hexs(want)})
		}
	})

	// ---- headers -----------------------------------------------------------------
	c.Run("headers", c.N(300, 5000), func(cs *h.Case) {
		types := []byte{tref.BOOL, tref.BYTE, tref.DOUBLE, tref.I16, tref.I32, tref.I64, tref.STRING, tref.STRUCT, tref.MAP, tref.SET, tref.LIST}
		t1 := types[cs.R.Intn(len(types))]
		t2 := types[cs.R.Intn(len(types))]
		id := int16(gen.GenInt(cs.R, tref.I16))
		if cs.I < 40 {
			id = []int16{0, 1, 2, 127, 128, 255, 256, 257, 32767, -1, -32768, 1000}[cs.I%12]
		}
		sz := int(gen.GenInt(cs.R, tref.I32))
		if sz < 0 {
			sz = -(sz + 1)
		}
		cs.Info("t1", t1)
		cs.Info("t2", t2)
		cs.Info("id", id)
		cs.Info("size", sz)
		var t4 [4]byte
		putU32(t4[:], uint32(sz))
		// field
		want := []byte{t1, byte(uint16(id) >> 8), byte(id)}
		got, err := bpWrite(func(p *thrift.BinaryProtocol) error { return p.WriteFieldBegin("x", tt(t1), thrift.FieldID(id)) })
		if err != nil || !bytes.Equal(got, want) {
			cs.Viol("codec:WriteFieldBegin", "err", err, "got", got, "want", want)
		}
		p := &thrift.BinaryProtocol{Buf: want}
		_, rt, rid, err := p.ReadFieldBegin()
		if err != nil || rt != tt(t1) || rid != thrift.FieldID(id) || p.Read != 3 {
			cs.Viol("codec:ReadFieldBegin", "err", err, "type", rt, "id", rid)
		}
		buf := make([]byte, 3)
		thrift.BinaryEncoding{}.EncodeFieldBegin(buf, tt(t1), thrift.FieldID(id))
		if !bytes.Equal(buf, want) {
			cs.Viol("codec:BinaryEncoding.EncodeFieldBegin", "got", buf, "want", want)
		}
		// list / set
		want = append([]byte{t1}, t4[:]...)
		got, err = bpWrite(func(p *thrift.BinaryProtocol) error { return p.WriteListBegin(tt(t1), sz) })
		if err != nil || !bytes.Equal(got, want) {
			cs.Viol("codec:WriteListBegin", "err", err, "got", got, "want", want)
		}
		got, err = bpWrite(func(p *thrift.BinaryProtocol) error { return p.WriteSetBegin(tt(t1), sz) })
		if err != nil || !bytes.Equal(got, want) {
			cs.Viol("codec:WriteSetBegin", "err", err, "got", got, "want", want)
		}
		got, err = bpWrite(func(p *thrift.BinaryProtocol) error {
			pos, e := p.WriteListBeginWithSizePos(tt(t1), sz)
			if e == nil && pos != 1 {
				return fmt.Errorf("size pos %d", pos)
			}
			return e
		})
		if err != nil || !bytes.Equal(got, want) {
			cs.Viol("codec:WriteListBeginWithSizePos", "err", err, "got", got, "want", want)
		}
		// reading a header: a size larger than the remaining bytes may legitimately be rejected;
		// so read headers followed by enough room only for small sizes
		small := sz % 50
		putU32(t4[:], uint32(small))
		hdr := append([]byte{t1}, t4[:]...)
		hdr = append(hdr, make([]byte, small*16)...)
		p = &thrift.BinaryProtocol{Buf: hdr}
		et, n, err := p.ReadListBegin()
		if err != nil || et != tt(t1) || n != small || p.Read != 5 {
			cs.Viol("codec:ReadListBegin", "err", err, "et", et, "n", n)
		}
		p.Read = 0
		et, n, err = p.ReadSetBegin()
		if err != nil || et != tt(t1) || n != small || p.Read != 5 {
			cs.Viol("codec:ReadSetBegin", "err", err, "et", et, "n", n)
		}
		// map
		putU32(t4[:], uint32(sz))
		want = append([]byte{t1, t2}, t4[:]...)
		got, err = bpWrite(func(p *thrift.BinaryProtocol) error { return p.WriteMapBegin(tt(t1), tt(t2), sz) })
		if err != nil || !bytes.Equal(got, want) {
			cs.Viol("codec:WriteMapBegin", "err", err, "got", got, "want", want)
		}
		got, err = bpWrite(func(p *thrift.BinaryProtocol) error {
			pos, e := p.WriteMapBeginWithSizePos(tt(t1), tt(t2), sz)
			if e == nil && pos != 2 {
				return fmt.Errorf("size pos %d", pos)
			}
			return e
		})
		if err != nil || !bytes.Equal(got, want) {
			cs.Viol("codec:WriteMapBeginWithSizePos", "err", err, "got", got, "want", want)
		}
		putU32(t4[:], uint32(small))
		hdr = append([]byte{t1, t2}, t4[:]...)
		hdr = append(hdr, make([]byte, small*32)...)
		p = &thrift.BinaryProtocol{Buf: hdr}
		kt, vt, n, err := p.ReadMapBegin()
		if err != nil || kt != tt(t1) || vt != tt(t2) || n != small || p.Read != 6 {
			cs.Viol("codec:ReadMapBegin", "err", err, "kt", kt, "vt", vt, "n", n)
		}
		// ModifyI32
		got, err = bpWrite(func(p *thrift.BinaryProtocol) error {
			if e := p.WriteListBegin(tt(t1), 0); e != nil {
				return e
			}
			return p.ModifyI32(1, int32(sz))
		})
		putU32(t4[:], uint32(sz))
		want = append([]byte{t1}, t4[:]...)
		if err != nil || !bytes.Equal(got, want) {
			cs.Viol("codec:ModifyI32", "err", err, "got", got, "want", want)
		}
		cs.Cover("header_roundtrips")
		cs.Distinct(fmt.Sprintf("hdr-%d-%d-%d", t1, t2, sizeClass(sz)))
	})

	// ---- skip --------------------------------------------------------------------
	c.Run("skip", c.N(1500, 60000), func(cs *h.Case) {
		sc := gen.GenSchema(cs.R, gen.Cfg{MaxDepth: 3, MaxFields: 6, StructKeys: true, BigIDs: true})
		root := structType(sc.Root)
		v := gen.GenVal(cs.R, root, gen.ValCfg{NonFinite: true, InvalidUTF8: true, ShuffleFlds: cs.R.Bool()}, 0)
		// pick a node to skip from: every node of the value is a skip start
		var nodes []*tref.Val
		b := tref.Encode(v)
		tref.Walk(v, func(n *tref.Val, d int) { nodes = append(nodes, n) })
		cs.Info("idl", sc.IDL())
		cs.Info("bytes", hexs(b))
		for ni, n := range nodes {
			if ni > 60 {
				break
			}
			sub, start := b[n.Start:], 0
			switch cs.R.Intn(10) {
			case 0, 1, 2:
				sub = b[n.Start:n.End]
			case 3, 4, 5, 6:
				sub, start = b, n.Start // in place: the cursor stands at the value inside the message
			}
			tr := h.TrapCopy(sub, true, true)
			wantAdv := start + n.End - n.Start
			if start > 0 {
				cs.Cover("skip_from_nonzero_cursor")
			}
			for mode := 0; mode < 4; mode++ {
				p := &thrift.BinaryProtocol{Buf: tr.B, Read: start}
				var err error
				name := ""
				switch mode {
				case 0:
					name = "SkipGo"
					err = p.SkipGo(tt(n.T), thrift.MaxSkipDepth)
				case 1:
					name = "SkipNative"
					err = p.SkipNative(tt(n.T), thrift.MaxSkipDepth)
				case 2:
					name = "Skip(false)"
					err = p.Skip(tt(n.T), false)
				case 3:
					name = "Skip(true)"
					err = p.Skip(tt(n.T), true)
				}
				if err != nil || p.Read != wantAdv {
					cs.Viol("skip:"+name+":"+tref.TypeName(n.T), "err", err, "advanced", p.Read, "want", wantAdv, "node", n.String(), "start", n.Start)
				}
				cs.Cover("skip_calls")
			}
			tr.Free()
			cs.Distinct(fmt.Sprintf("skip-%s-%s-%s-%d", tref.TypeName(n.T), tref.TypeName(n.ET), tref.TypeName(n.KT), sizeClass(len(n.L)+len(n.Fs))))
		}
		if cs.I == 1 {
			cs.Sample(map[string]interface{}{"phase": "skip", "value": v.String(), "bytes": hexs(b)})
		}
	})

	// wide containers of complex elements: the depth limit counts nesting levels, not elements
	c.Run("skip-wide", c.N(30, 120), func(cs *h.Case) {
		n := []int{1022, 1023, 1024, 1500, 4096, 70000}[cs.I%6]
		var v *tref.Val
		switch (cs.I / 6) % 5 {
		case 4:
			// a wide struct: many sibling members that are not fixed-size (siblings are not nesting levels)
			if n > 32000 {
				n = 32000
			}
			v = tref.Struct()
			for i := 0; i < n; i++ {
				var x *tref.Val
				switch i % 4 {
				case 0:
					x = tref.Str("s")
				case 1:
					x = tref.Struct()
				case 2:
					x = tref.List(tref.BYTE)
				default:
					x = &tref.Val{T: tref.MAP, KT: tref.BYTE, ET: tref.BYTE}
				}
				v.Fs = append(v.Fs, tref.Field{ID: int16(i + 1), V: x})
			}
		case 0:
			v = &tref.Val{T: tref.LIST, ET: tref.STRUCT}
			for i := 0; i < n; i++ {
				v.L = append(v.L, tref.Struct())
			}
		case 1:
			v = &tref.Val{T: tref.SET, ET: tref.LIST}
			for i := 0; i < n; i++ {
				v.L = append(v.L, tref.List(tref.BYTE, tref.Byte(int8(i))))
			}
		case 2:
			v = &tref.Val{T: tref.MAP, KT: tref.I32, ET: tref.STRUCT}
			for i := 0; i < n; i++ {
				v.K = append(v.K, tref.Int32(int32(i)))
				v.L = append(v.L, tref.Struct(tref.Field{ID: 1, V: tref.Bool(true)}))
			}
		default:
			v = &tref.Val{T: tref.LIST, ET: tref.MAP}
			for i := 0; i < n; i++ {
				v.L = append(v.L, &tref.Val{T: tref.MAP, KT: tref.BYTE, ET: tref.BYTE})
			}
		}
		root := tref.Struct(tref.Field{ID: 1, V: v}, tref.Field{ID: 2, V: tref.Int32(7)})
		b := tref.Encode(root)
		for _, x := range []*tref.Val{v, root} {
			sub := b[x.Start:]
			tr := h.TrapCopy(sub, true, true)
			wantAdv := x.End - x.Start
			for mode := 0; mode < 4; mode++ {
				p := &thrift.BinaryProtocol{Buf: tr.B}
				var err error
				name := []string{"SkipGo", "SkipNative", "Skip(false)", "Skip(true)"}[mode]
				switch mode {
				case 0:
					err = p.SkipGo(tt(x.T), thrift.MaxSkipDepth)
				case 1:
					err = p.SkipNative(tt(x.T), thrift.MaxSkipDepth)
				case 2:
					err = p.Skip(tt(x.T), false)
				default:
					err = p.Skip(tt(x.T), true)
				}
				if err != nil || p.Read != wantAdv {
					cs.Viol("skip-wide:"+name+":"+tref.TypeName(v.T)+"<"+tref.TypeName(v.ET)+">", "err", err, "advanced", p.Read, "want", wantAdv, "elements", n)
				}
				cs.Cover("skip_wide_calls")
			}
			tr.Free()
		}
		cs.Distinct(fmt.Sprintf("skipw-%d-%d", n, (cs.I/6)%5))
	})

	// ---- WriteAny / ReadAny (descriptor-free) -------------------------------------
	c.Run("any", c.N(1500, 60000), func(cs *h.Case) {
		sc := gen.GenSchema(cs.R, gen.Cfg{MaxDepth: 3, MaxFields: 5, StructKeys: true, BigIDs: true, NoSet: true})
		root := structType(sc.Root)
		v := gen.GenVal(cs.R, root, gen.ValCfg{NonFinite: true, InvalidUTF8: true, ShuffleFlds: true, MaxElems: 5}, 0)
		cs.Info("model", v.String())
		b := tref.Encode(v)
		cs.Info("bytes", hexs(b))
		// ReadAny of reference bytes, every option pair
		for opt := 0; opt < 4; opt++ {
			sab, bai := opt&1 == 1, opt&2 == 2
			pre := c19Junk(cs)
			tr := h.TrapCopy(append(append([]byte{}, pre...), b...), true, true)
			p := &thrift.BinaryProtocol{Buf: tr.B, Read: len(pre)}
			g, err := p.ReadAny(thrift.STRUCT, sab, bai)
			want := ToGo(v, nil, GoCfg{StrAsBinary: sab, ByteAsUint8: !bai})
			if err != nil || p.Read != len(pre)+len(b) {
				cs.Viol("any:ReadAny:err", "err", err, "read", p.Read-len(pre), "len", len(b), "strAsBinary", sab, "byteAsInt8", bai, "cursor", len(pre))
			} else if !GoEq(g, want) {
				cs.Viol("any:ReadAny:value", "got", GoStr(g), "want", GoStr(want), "strAsBinary", sab, "byteAsInt8", bai)
			}
			tr.Free()
			cs.Cover("readany_calls")
		}
		// WriteAny of Go values with non-empty containers only (documented restriction).
		if hasEmptyContainer(v) {
			cs.Cover("any_skipped_empty_container")
		} else {
			for opt := 0; opt < 4; opt++ {
				u8, typed := opt&1 == 1, opt&2 == 2
				g := ToGo(v, nil, GoCfg{ByteAsUint8: u8, TypedIntKey: typed, StrAsBinary: cs.R.Bool()})
				out, err := bpWrite(func(p *thrift.BinaryProtocol) error {
					t, e := p.WriteAny(g, false)
					if e == nil && t != thrift.STRUCT {
						return fmt.Errorf("returned type %d", t)
					}
					return e
				})
				if err != nil {
					cs.Viol("any:WriteAny:err", "err", err, "go", GoStr(g))
					continue
				}
				dec, derr := tref.Decode(out, tref.STRUCT)
				exp := v
				if !typed {
					exp = widenIntKeys(v) // map[int] keys are written as I64 (documented: int -> I64)
				}
				if derr != nil {
					cs.Viol("any:WriteAny:malformed", "decode-error", derr, "out", out, "go", GoStr(g))
				} else if !tref.EqualUnordered(dec, exp) {
					cs.Viol("any:WriteAny:value", "got", dec.String(), "want", exp.String())
				} else {
					// ReadAny(WriteAny(g)) == g
					p := &thrift.BinaryProtocol{Buf: out}
					g2, err := p.ReadAny(thrift.STRUCT, false, !u8)
					wantG := ToGo(exp, nil, GoCfg{ByteAsUint8: u8})
					if err != nil || !GoEq(g2, wantG) {
						cs.Viol("any:ReadAny(WriteAny)", "err", err, "got", GoStr(g2), "want", GoStr(wantG))
					}
				}
				cs.Cover("writeany_calls")
			}
		}
		cs.Distinct("any-" + shapeKey(v))
		if cs.I == 2 {
			cs.Sample(map[string]interface{}{"phase": "any", "model": v.String()})
		}
	})

	// ---- WriteAnyWithDesc / ReadAnyWithDesc ---------------------------------------
	c.Run("withdesc", c.N(1200, 50000), func(cs *h.Case) {
		sc := gen.GenSchema(cs.R, gen.Cfg{MaxDepth: 3, MaxFields: 5, StructKeys: true, BigIDs: true, Aliases: true, Recursive: true})
		root := structType(sc.Root)
		idl := sc.IDL()
		cs.Info("idl", idl)
		desc, _, err := ParseRoot(sc, thrift.NewDefaultOptions())
		if err != nil {
			cs.Viol("withdesc:parse", "err", err)
			return
		}
		v := gen.GenVal(cs.R, root, gen.ValCfg{NonFinite: true, InvalidUTF8: false, ShuffleFlds: true, MaxElems: 5}, 0)
		cs.Info("model", v.String())
		b := tref.Encode(v)
		cs.Info("bytes", hexs(b))
		for opt := 0; opt < 8; opt++ {
			u8, cp, fn := opt&1 == 1, opt&2 == 2, opt&4 == 4
			cfg := GoCfg{ByteAsUint8: u8, FieldName: fn}
			want := ToGo(v, root, cfg)
			pre := c19Junk(cs)
			tr := h.TrapCopy(append(append([]byte{}, pre...), b...), true, true)
			p := &thrift.BinaryProtocol{Buf: tr.B, Read: len(pre)}
			g, err := p.ReadAnyWithDesc(desc, u8, cp, true, fn)
			if err != nil || p.Read != len(pre)+len(b) {
				cs.Viol("withdesc:ReadAnyWithDesc:err", "err", err, "read", p.Read-len(pre), "len", len(b), "byteAsUint8", u8, "useFieldName", fn, "cursor", len(pre))
			} else if !GoEq(g, want) {
				cs.Viol("withdesc:ReadAnyWithDesc:value", "got", GoStr(g), "want", GoStr(want), "byteAsUint8", u8, "useFieldName", fn)
			}
			if err == nil {
				// what was read is itself a value the writer takes: Write(Read(bytes)) denotes the same message
				// (g may hold views of the input: written before the trap page goes away)
				outg, werr := bpWrite(func(p *thrift.BinaryProtocol) error { return p.WriteAnyWithDesc(desc, g, false, true, fn) })
				if werr != nil {
					cs.Viol("withdesc:Write(Read):err", "err", werr, "go", GoStr(g), "byteAsUint8", u8, "useFieldName", fn)
				} else if dec, derr := tref.Decode(outg, tref.STRUCT); derr != nil || !tref.EqualUnordered(dec, v) {
					cs.Viol("withdesc:Write(Read):value", "decode-error", derr, "go", GoStr(g))
				} else {
					cs.Cover("write_of_read_value_ok")
				}
			}
			tr.Free()
			cs.Cover("readanywithdesc_calls")
			// write back the documented Go value
			out, err := bpWrite(func(p *thrift.BinaryProtocol) error { return p.WriteAnyWithDesc(desc, want, false, true, fn) })
			cls := classifyDescShape(v)
			if err != nil {
				sig := "withdesc:WriteAnyWithDesc:err"
				if !u8 && cls.hasByte {
					sig = "withdesc:WriteAnyWithDesc:int8-rejected"
				}
				cs.Viol(sig, "err", err, "go", GoStr(want), "byteAsUint8", u8, "useFieldName", fn)
				continue
			}
			dec, derr := tref.Decode(out, tref.STRUCT)
			if derr != nil {
				sig := "withdesc:WriteAnyWithDesc:malformed"
				if cls.hasOtherKeyMap {
					sig = "withdesc:WriteAnyWithDesc:malformed:nonscalar-key-map"
				}
				cs.Viol(sig, "decode-error", derr, "out", out, "go", GoStr(want))
			} else if !tref.EqualUnordered(dec, v) {
				cs.Viol("withdesc:WriteAnyWithDesc:value", "got", dec.String(), "want", v.String())
			} else {
				p := &thrift.BinaryProtocol{Buf: out}
				g2, err := p.ReadAnyWithDesc(desc, u8, true, true, fn)
				if err != nil || !GoEq(g2, want) {
					cs.Viol("withdesc:Read(Write)", "err", err, "got", GoStr(g2), "want", GoStr(want))
				}
			}
			cs.Cover("writeanywithdesc_calls")
			// the same value with integer-keyed maps spelled map[int8|int16|int32|int64]interface{}: every documented
			// Go spelling of a map must give the same encoding
			if opt&2 == 0 {
				typed := ToGo(v, root, GoCfg{ByteAsUint8: u8, FieldName: fn, TypedIntKey: true})
				out2, err := bpWrite(func(p *thrift.BinaryProtocol) error { return p.WriteAnyWithDesc(desc, typed, false, true, fn) })
				if err != nil {
					if !(!u8 && cls.hasByte) { // int8 inside: recorded above
						cs.Viol("withdesc:WriteAnyWithDesc:typed-int-keys:err", "err", err, "go", GoStr(typed))
					}
				} else if d2, e2 := tref.Decode(out2, tref.STRUCT); e2 != nil || !tref.EqualUnordered(d2, v) {
					cs.Viol("withdesc:WriteAnyWithDesc:typed-int-keys:value", "decode-error", e2, "out", out2, "want", v.String())
				} else {
					cs.Cover("writeanywithdesc_typed_int_keys_ok")
				}
			}
		}
		cs.Distinct("wd-" + shapeKey(v))
		if cs.I == 2 {
			cs.Sample(map[string]interface{}{"phase": "withdesc", "idl": idl, "model": v.String()})
		}
	})

	// ---- envelope ----------------------------------------------------------------
	c.Run("envelope", c.N(600, 20000), func(cs *h.Case) {
		names := []string{"", "M", "Method", "méthode-ü", "a.b/c", string(gen.GenStr(cs.R, gen.ValCfg{MaxStr: 300}))}
		name := names[cs.R.Intn(len(names))]
		if cs.I%50 == 0 {
			name = string(bytes.Repeat([]byte("n"), 70000))
		}
		mt := []thrift.TMessageType{thrift.CALL, thrift.REPLY, thrift.EXCEPTION, thrift.ONEWAY}[cs.R.Intn(4)]
		seq := int32(gen.GenInt(cs.R, tref.I32))
		if cs.I < 8 {
			seq = []int32{0, 1, -1, math.MinInt32, math.MaxInt32, 255, 256, -256}[cs.I]
		}
		sid := int16(gen.GenInt(cs.R, tref.I16))
		if sid < 0 {
			sid = -(sid + 1)
		}
		sc := gen.GenSchema(cs.R, gen.Cfg{MaxDepth: 2, MaxFields: 4})
		body := tref.Encode(gen.GenVal(cs.R, structType(sc.Root), gen.ValCfg{MaxElems: 3}, 0))
		cs.Info("name", name)
		cs.Info("type", int(mt))
		cs.Info("seq", seq)
		cs.Info("id", sid)
		cs.Info("body", hexs(body))
		want := tref.WrapMessage(name, byte(mt), seq, sid, body)
		got, err := thrift.WrapBinaryBody(body, name, mt, thrift.FieldID(sid), seq)
		if err != nil || !bytes.Equal(got, want) {
			cs.Viol("envelope:WrapBinaryBody", "err", err, "got", got, "want", want)
		}
		hd, ft, err := thrift.GetBinaryMessageHeaderAndFooter(name, mt, thrift.FieldID(sid), seq)
		joined := append(append(append([]byte{}, hd...), body...), ft...)
		if err != nil || !bytes.Equal(joined, want) {
			cs.Viol("envelope:HeaderAndFooter", "err", err, "got", joined, "want", want)
		}
		tr := h.TrapCopy(want, true, true)
		n, t, s, id, bd, err := thrift.UnwrapBinaryMessage(tr.B)
		if err != nil || n != name || t != mt || s != seq || id != thrift.FieldID(sid) || !bytes.Equal(bd, body) {
			cs.Viol("envelope:UnwrapBinaryMessage", "err", err, "name", n, "type", int(t), "seq", s, "id", id, "body", bd)
		}
		tr.Free()
		// protocol-level message begin
		got, err = bpWrite(func(p *thrift.BinaryProtocol) error { return p.WriteMessageBegin(name, mt, seq) })
		if err != nil || !bytes.Equal(got, want[:len(got)]) || len(got) != 4+4+len(name)+4 {
			cs.Viol("envelope:WriteMessageBegin", "err", err, "got", got)
		}
		p := &thrift.BinaryProtocol{Buf: want}
		n, t, s, err = p.ReadMessageBegin(cs.R.Bool())
		if err != nil || n != name || t != mt || s != seq || p.Read != 12+len(name) {
			cs.Viol("envelope:ReadMessageBegin", "err", err, "name", n, "type", int(t), "seq", s)
		}
		cs.Cover("envelopes")
		cs.Distinct(fmt.Sprintf("env-%d-%d-%d", sizeClass(len(name)), mt, sizeClass(int(seq>>16))))
		if cs.I == 1 {
			cs.Sample(map[string]interface{}{"phase": "envelope", "name": name, "type": int(mt), "seq": seq, "id": sid, "wrapped": hexs(want)})
		}
	})
}

func putU32(b []byte, v uint32) {
	b[0], b[1], b[2], b[3] = byte(v>>24), byte(v>>16), byte(v>>8), byte(v)
}

func sizeClass(n int) int {
	switch {
	case n < 0:
		return -1
	case n == 0:
		return 0
	case n == 1:
		return 1
	case n < 16:
		return 2
	case n < 256:
		return 3
	case n < 65536:
		return 4
	}
	return 5
}

func checkScalar(cs *h.Case, v *tref.Val) {
	want := tref.Encode(v)
	var got []byte
	var err error
	name := tref.TypeName(v.T)
	switch v.T {
	case tref.BOOL:
		got, err = bpWrite(func(p *thrift.BinaryProtocol) error { return p.WriteBool(v.B) })
	case tref.BYTE:
		got, err = bpWrite(func(p *thrift.BinaryProtocol) error { return p.WriteByte(byte(v.I)) })
	case tref.I16:
		got, err = bpWrite(func(p *thrift.BinaryProtocol) error { return p.WriteI16(int16(v.I)) })
	case tref.I32:
		got, err = bpWrite(func(p *thrift.BinaryProtocol) error { return p.WriteI32(int32(v.I)) })
	case tref.I64:
		got, err = bpWrite(func(p *thrift.BinaryProtocol) error { return p.WriteI64(v.I) })
	case tref.DOUBLE:
		got, err = bpWrite(func(p *thrift.BinaryProtocol) error { return p.WriteDouble(v.F) })
	}
	if err != nil || !bytes.Equal(got, want) {
		cs.Viol("codec:Write"+name, "err", err, "got", got, "want", want, "value", v.String())
	}
	if v.T != tref.BOOL && v.T != tref.DOUBLE {
		got, err = bpWrite(func(p *thrift.BinaryProtocol) error { return p.WriteInt(tt(v.T), int(v.I)) })
		if err != nil || !bytes.Equal(got, want) {
			cs.Viol("codec:WriteInt:"+name, "err", err, "got", got, "want", want, "value", v.String())
		}
	}
	p := &thrift.BinaryProtocol{Buf: want}
	ok := true
	switch v.T {
	case tref.BOOL:
		r, e := p.ReadBool()
		ok = e == nil && r == v.B
	case tref.BYTE:
		r, e := p.ReadByte()
		ok = e == nil && int8(r) == int8(v.I)
	case tref.I16:
		r, e := p.ReadI16()
		ok = e == nil && int64(r) == v.I
	case tref.I32:
		r, e := p.ReadI32()
		ok = e == nil && int64(r) == v.I
	case tref.I64:
		r, e := p.ReadI64()
		ok = e == nil && r == v.I
	case tref.DOUBLE:
		r, e := p.ReadDouble()
		ok = e == nil && math.Float64bits(r) == math.Float64bits(v.F)
	}
	if !ok || p.Read != len(want) {
		cs.Viol("codec:Read"+name, "value", v.String(), "read", p.Read)
	}
	if v.T != tref.BOOL && v.T != tref.DOUBLE {
		p.Read = 0
		r, e := p.ReadInt(tt(v.T))
		if e != nil || (int64(r) != v.I && !(v.T == tref.BYTE && byte(r) == byte(v.I))) || p.Read != len(want) {
			cs.Viol("codec:ReadInt:"+name, "value", v.String(), "got", r)
		}
	}
	// fixed-offset encoders/decoders
	buf := make([]byte, len(want))
	be := thrift.BinaryEncoding{}
	dok := true
	switch v.T {
	case tref.BOOL:
		be.EncodeBool(buf, v.B)
		dok = be.DecodeBool(want) == v.B
	case tref.BYTE:
		be.EncodeByte(buf, byte(v.I))
		dok = be.DecodeByte(want) == byte(v.I)
	case tref.I16:
		be.EncodeInt16(buf, int16(v.I))
		dok = int64(be.DecodeInt16(want)) == v.I
	case tref.I32:
		be.EncodeInt32(buf, int32(v.I))
		dok = int64(be.DecodeInt32(want)) == v.I
	case tref.I64:
		be.EncodeInt64(buf, v.I)
		dok = be.DecodeInt64(want) == v.I
	case tref.DOUBLE:
		be.EncodeDouble(buf, v.F)
		dok = math.Float64bits(be.DecodeDouble(want)) == math.Float64bits(v.F)
	}
	if !bytes.Equal(buf, want) || !dok {
		cs.Viol("codec:BinaryEncoding:"+name, "got", buf, "want", want, "value", v.String())
	}
	// TypeSize must equal the encoded length of fixed-size types
	if ts := thrift.TypeSize(tt(v.T)); ts != len(want) {
		cs.Viol("codec:TypeSize:"+name, "got", ts, "want", len(want))
	}
}

func hasEmptyContainer(v *tref.Val) bool {
	empty := false
	tref.Walk(v, func(n *tref.Val, d int) {
		switch n.T {
		case tref.LIST, tref.SET, tref.MAP:
			if len(n.L) == 0 {
				empty = true
			}
		}
	})
	return empty
}

// widenIntKeys returns a copy where every integer map key type is I64 (what a
// Go map[int]interface{} denotes under the documented int -> I64 rule).
func widenIntKeys(v *tref.Val) *tref.Val {
	n := v.Clone()
	tref.Walk(n, func(x *tref.Val, d int) {
		if x.T == tref.MAP {
			switch x.KT {
			case tref.BYTE, tref.I16, tref.I32:
				x.KT = tref.I64
				for _, k := range x.K {
					k.T = tref.I64
				}
			}
		}
	})
	return n
}

type descShape struct {
	hasByte        bool
	hasOtherKeyMap bool
}

func classifyDescShape(v *tref.Val) descShape {
	var s descShape
	tref.Walk(v, func(n *tref.Val, d int) {
		if n.T == tref.BYTE {
			s.hasByte = true
		}
		if n.T == tref.MAP && (n.KT == tref.DOUBLE || n.KT == tref.STRUCT || n.KT == tref.BOOL) {
			s.hasOtherKeyMap = true
		}
	})
	return s
}

// shapeKey is a coarse structural class of a value (types, nesting, size classes).
func shapeKey(v *tref.Val) string {
	var sb bytes.Buffer
	n := 0
	tref.Walk(v, func(x *tref.Val, d int) {
		if n > 40 {
			return
		}
		n++
		fmt.Fprintf(&sb, "%d%c", d, 'a'+x.T)
		switch x.T {
		case tref.LIST, tref.SET, tref.MAP:
			fmt.Fprintf(&sb, "%d", sizeClass(len(x.L)))
		}
	})
	return sb.String()
}
