package props

import (
	"bytes"
	"context"
	"fmt"
	"math"
	"os"
	"runtime"
	"runtime/debug"
	"sort"
	"strings"

	dproto "github.com/cloudwego/dynamicgo/proto"
	pg "github.com/cloudwego/dynamicgo/proto/generic"
	"google.golang.org/protobuf/proto"
	"google.golang.org/protobuf/reflect/protoreflect"
	"google.golang.org/protobuf/types/dynamicpb"

	"verifharness/gen"
	"verifharness/h"
)

func init() { h.Register("C07", runC07) }

// pGenericScalar is proto/generic's documented Go mapping (Value.Interface): signed kinds -> int,
// unsigned kinds -> uint, float/double -> float64, enum -> int.
func pGenericScalar(fd protoreflect.FieldDescriptor, v protoreflect.Value) interface{} {
	switch fd.Kind() {
	case protoreflect.BoolKind:
		return v.Bool()
	case protoreflect.Int32Kind, protoreflect.Sint32Kind, protoreflect.Sfixed32Kind, protoreflect.Int64Kind, protoreflect.Sint64Kind, protoreflect.Sfixed64Kind:
		return int(v.Int())
	case protoreflect.Uint32Kind, protoreflect.Fixed32Kind, protoreflect.Uint64Kind, protoreflect.Fixed64Kind:
		return uint(v.Uint())
	case protoreflect.FloatKind:
		return float64(float32(v.Float()))
	case protoreflect.DoubleKind:
		return v.Float()
	case protoreflect.StringKind:
		return v.String()
	case protoreflect.BytesKind:
		return append([]byte{}, v.Bytes()...)
	case protoreflect.EnumKind:
		return int(v.Enum())
	}
	panic("pGenericScalar")
}

func pGenericField(fd protoreflect.FieldDescriptor, v protoreflect.Value, byID bool) interface{} {
	switch {
	case fd.IsMap():
		val := func(mv protoreflect.Value) interface{} {
			if fd.MapValue().Kind() == protoreflect.MessageKind {
				return PToGeneric(mv.Message(), byID)
			}
			return pGenericScalar(fd.MapValue(), mv)
		}
		if fd.MapKey().Kind() == protoreflect.StringKind {
			mm := map[string]interface{}{}
			v.Map().Range(func(k protoreflect.MapKey, mv protoreflect.Value) bool {
				mm[k.String()] = val(mv)
				return true
			})
			return mm
		}
		mm := map[int]interface{}{}
		v.Map().Range(func(k protoreflect.MapKey, mv protoreflect.Value) bool {
			mm[pIntKey(fd.MapKey(), k)] = val(mv)
			return true
		})
		return mm
	case fd.IsList():
		l := v.List()
		out := make([]interface{}, 0, l.Len())
		for i := 0; i < l.Len(); i++ {
			if fd.Kind() == protoreflect.MessageKind {
				out = append(out, PToGeneric(l.Get(i).Message(), byID))
			} else {
				out = append(out, pGenericScalar(fd, l.Get(i)))
			}
		}
		return out
	case fd.Kind() == protoreflect.MessageKind:
		return PToGeneric(v.Message(), byID)
	}
	return pGenericScalar(fd, v)
}

func pIntKey(kd protoreflect.FieldDescriptor, k protoreflect.MapKey) int {
	switch kd.Kind() {
	case protoreflect.Uint32Kind, protoreflect.Fixed32Kind, protoreflect.Uint64Kind, protoreflect.Fixed64Kind:
		return int(k.Uint())
	case protoreflect.BoolKind:
		if k.Bool() {
			return 1
		}
		return 0
	}
	return int(k.Int())
}

// PToGeneric: message -> map[int]interface{} (or map[FieldNumber]interface{}) of populated fields.
func PToGeneric(m protoreflect.Message, byID bool) interface{} {
	a := map[int]interface{}{}
	b := map[dproto.FieldNumber]interface{}{}
	m.Range(func(fd protoreflect.FieldDescriptor, v protoreflect.Value) bool {
		g := pGenericField(fd, v, byID)
		a[int(fd.Number())] = g
		b[dproto.FieldNumber(fd.Number())] = g
		return true
	})
	if byID {
		return b
	}
	return a
}

// pnode is one addressable element of a reference message.
type pnode struct {
	path  []pg.Path
	npath []pg.Path
	fd    protoreflect.FieldDescriptor // field this element belongs to
	v     protoreflect.Value
	kind  int // 0 whole field, 1 list element, 2 map value
	depth int
}

func pEnum(m protoreflect.Message, prefix, nprefix []pg.Path, depth int, out *[]pnode) {
	if depth > 3 || len(*out) > 250 {
		return
	}
	m.Range(func(fd protoreflect.FieldDescriptor, v protoreflect.Value) bool {
		p := append(append([]pg.Path{}, prefix...), pg.NewPathFieldId(dproto.FieldNumber(fd.Number())))
		np := append(append([]pg.Path{}, nprefix...), pg.NewPathFieldName(string(fd.Name())))
		*out = append(*out, pnode{path: p, npath: np, fd: fd, v: v, depth: depth})
		switch {
		case fd.IsMap():
			v.Map().Range(func(k protoreflect.MapKey, mv protoreflect.Value) bool {
				var kp pg.Path
				if fd.MapKey().Kind() == protoreflect.StringKind {
					kp = pg.NewPathStrKey(k.String())
				} else {
					kp = pg.NewPathIntKey(pIntKey(fd.MapKey(), k))
				}
				ep := append(append([]pg.Path{}, p...), kp)
				enp := append(append([]pg.Path{}, np...), kp)
				*out = append(*out, pnode{path: ep, npath: enp, fd: fd, v: mv, kind: 2, depth: depth + 1})
				if fd.MapValue().Kind() == protoreflect.MessageKind {
					pEnum(mv.Message(), ep, enp, depth+2, out)
				}
				return true
			})
		case fd.IsList():
			l := v.List()
			for i := 0; i < l.Len(); i++ {
				ep := append(append([]pg.Path{}, p...), pg.NewPathIndex(i))
				enp := append(append([]pg.Path{}, np...), pg.NewPathIndex(i))
				*out = append(*out, pnode{path: ep, npath: enp, fd: fd, v: l.Get(i), kind: 1, depth: depth + 1})
				if fd.Kind() == protoreflect.MessageKind {
					pEnum(l.Get(i).Message(), ep, enp, depth+2, out)
				}
			}
		case fd.Kind() == protoreflect.MessageKind:
			pEnum(v.Message(), p, np, depth+1, out)
		}
		return true
	})
}

func ppathStr(p []pg.Path) string {
	s := ""
	for _, x := range p {
		s += fmt.Sprintf("/%v", x.Value())
	}
	return s
}

func kindClass(fd protoreflect.FieldDescriptor, kind int) string {
	k := fd.Kind().String()
	if fd.IsMap() {
		if kind == 0 {
			return "map<" + fd.MapKey().Kind().String() + "," + fd.MapValue().Kind().String() + ">"
		}
		return "mapval:" + fd.MapKey().Kind().String() + ":" + fd.MapValue().Kind().String()
	}
	if fd.IsList() {
		pk := "unpacked"
		if fd.IsPacked() {
			pk = "packed"
		}
		if kind == 0 {
			return "list:" + pk + ":" + k
		}
		return "elem:" + pk + ":" + k
	}
	return "field:" + k
}

// ---- root-cause tags -----------------------------------------------------------
// A failing comparison is labelled with the known-defect features present in the element it concerns.
// An empty tag set means the element lies in the sub-domain where no defect is known: any failure there
// is a new violation. (See DESIGN.md C07 for the defects behind each tag.)

func isFixedK(k protoreflect.Kind) bool {
	switch k {
	case protoreflect.Fixed32Kind, protoreflect.Fixed64Kind, protoreflect.Sfixed32Kind, protoreflect.Sfixed64Kind, protoreflect.FloatKind, protoreflect.DoubleKind:
		return true
	}
	return false
}

func badKey(k protoreflect.Kind) bool {
	return k == protoreflect.BoolKind
}

// featField collects features of one populated field value (recursively). nested: inside a non-root message.
func featField(fd protoreflect.FieldDescriptor, v protoreflect.Value, nested bool, out map[string]bool) {
	switch {
	case fd.IsMap():
		if nested {
			out["nested-rep"] = true
		}
		if badKey(fd.MapKey().Kind()) {
			out["badkey"] = true
		}
		if fd.MapValue().Kind() == protoreflect.FloatKind && v.Map().Len() > 0 {
			out["float"] = true
		}
		if fd.MapValue().Kind() == protoreflect.MessageKind {
			v.Map().Range(func(_ protoreflect.MapKey, mv protoreflect.Value) bool {
				featMsg(mv.Message(), out)
				return true
			})
		}
	case fd.IsList():
		if nested {
			out["nested-rep"] = true
		}
		if fd.Kind() == protoreflect.FloatKind && v.List().Len() > 0 {
			out["float"] = true
		}
		if fd.IsPacked() && isFixedK(fd.Kind()) && v.List().Len() > 0 {
			out["fixedpacked"] = true
		}
		if fd.Kind() == protoreflect.MessageKind {
			for i := 0; i < v.List().Len(); i++ {
				featMsg(v.List().Get(i).Message(), out)
			}
		}
	case fd.Kind() == protoreflect.MessageKind:
		featMsg(v.Message(), out)
	case fd.Kind() == protoreflect.FloatKind:
		out["float"] = true
	}
}

func featMsg(m protoreflect.Message, out map[string]bool) {
	m.Range(func(fd protoreflect.FieldDescriptor, v protoreflect.Value) bool {
		featField(fd, v, true, out)
		return true
	})
}

func (n pnode) tags() string {
	out := map[string]bool{}
	// path features
	for i, p := range n.path {
		last := i == len(n.path)-1
		switch p.Type() {
		case pg.PathIndex, pg.PathStrKey, pg.PathIntKey:
			if !last {
				out["through"] = true
			}
		}
	}
	if n.kind == 1 && !n.fd.IsPacked() {
		out["idx-unpacked"] = true
	}
	if n.fd.IsMap() && badKey(n.fd.MapKey().Kind()) {
		out["badkey"] = true
	}
	// value features
	switch n.kind {
	case 0:
		featField(n.fd, n.v, n.depth > 0, out)
	case 1:
		if n.fd.Kind() == protoreflect.MessageKind {
			featMsg(n.v.Message(), out)
		} else if n.fd.Kind() == protoreflect.FloatKind {
			out["float"] = true
		}
	case 2:
		if n.fd.MapValue().Kind() == protoreflect.MessageKind {
			featMsg(n.v.Message(), out)
		} else if n.fd.MapValue().Kind() == protoreflect.FloatKind {
			out["float"] = true
		}
	}
	return tagStr(out)
}

func tagStr(out map[string]bool) string {
	var ks []string
	for k := range out {
		ks = append(ks, k)
	}
	sort.Strings(ks)
	if len(ks) == 0 {
		return "[clean]"
	}
	return "[" + strings.Join(ks, ",") + "]"
}

// c07Check compares a returned value with the reference element.
func c07Check(cs *h.Case, api string, got pg.Value, n pnode, opts *pg.Options) bool {
	cls := n.tags()
	if got.IsError() {
		cs.Viol("pread:"+api+":error-on-present:"+cls, "err", got.Error(), "path", ppathStr(n.path))
		return false
	}
	elemFD := n.fd
	scalar := true
	var want interface{}
	switch n.kind {
	case 0:
		want = pGenericField(n.fd, n.v, opts.MapStructById)
		scalar = !n.fd.IsMap() && !n.fd.IsList() && n.fd.Kind() != protoreflect.MessageKind
	case 1:
		if n.fd.Kind() == protoreflect.MessageKind {
			want = PToGeneric(n.v.Message(), opts.MapStructById)
			scalar = false
		} else {
			want = pGenericScalar(n.fd, n.v)
		}
	case 2:
		elemFD = n.fd.MapValue()
		if elemFD.Kind() == protoreflect.MessageKind {
			want = PToGeneric(n.v.Message(), opts.MapStructById)
			scalar = false
		} else {
			want = pGenericScalar(elemFD, n.v)
		}
	}
	if scalar {
		// typed cast by kind
		var g interface{}
		var err error
		switch elemFD.Kind() {
		case protoreflect.BoolKind:
			g, err = got.Bool()
		case protoreflect.Int32Kind, protoreflect.Sint32Kind, protoreflect.Sfixed32Kind, protoreflect.Int64Kind, protoreflect.Sint64Kind, protoreflect.Sfixed64Kind:
			g, err = got.Int()
		case protoreflect.Uint32Kind, protoreflect.Fixed32Kind, protoreflect.Uint64Kind, protoreflect.Fixed64Kind:
			g, err = got.Uint()
		case protoreflect.FloatKind, protoreflect.DoubleKind:
			g, err = got.Float64()
		case protoreflect.StringKind:
			g, err = got.String()
		case protoreflect.BytesKind:
			g, err = got.Binary()
		case protoreflect.EnumKind:
			g, err = got.Enum()
		}
		if err != nil {
			cs.Viol("pread:"+api+":cast-error:"+cls, "err", err, "path", ppathStr(n.path), "node-type", got.Type().String())
			return false
		}
		if !DeepEq(g, want) {
			cs.Viol("pread:"+api+":value:"+cls, "got", GoStr(g), "want", GoStr(want), "path", ppathStr(n.path))
			return false
		}
	}
	g, err := got.Interface(opts)
	if err != nil {
		cs.Viol("pread:"+api+":Interface-error:"+cls, "err", err, "path", ppathStr(n.path))
		return false
	}
	if !DeepEq(g, want) {
		cs.Viol("pread:"+api+":Interface-value:"+cls, "got", GoStr(g), "want", GoStr(want), "path", ppathStr(n.path))
		return false
	}
	return true
}

func runC07(c *h.Ctx) {
	// first, so that the worker death it causes on the unchanged tree loses no counters of later cases
	c07HeldNotFound(c)
	c.Run("preads", c.N(12000, 300000), func(cs *h.Case) { c07Reads(cs, false) })
	// field numbers at and above 2^28 (5-byte tags whose shifted value needs 32 bits). dynamicgo sizes a message's number
	// table by its largest field number - 2 to 4 GiB here - so this is a handful of single-message schemas
	c.Run("huge-field-numbers", c.N(12, 48), func(cs *h.Case) {
		c07Reads(cs, true)
		runtime.GC()
		debug.FreeOSMemory()
	})
}

func c07Reads(cs *h.Case, huge bool) {
	{
		cfg := gen.PCfg{MaxDepth: 2, MaxFields: 6, Nested: cs.R.Bool(), Enums: true, BigNums: true,
			// bool map keys are outside the property's domain (map<int*|uint*|string, ...>) and are rejected by design
			KeyKinds: []string{"int32", "int64", "uint32", "uint64", "sint32", "sint64", "fixed32", "fixed64", "sfixed32", "sfixed64", "string"}}
		if huge {
			cfg = gen.PCfg{MaxDepth: 0, MaxFields: 7, HugeNums: true, NoMaps: true, KeyKinds: cfg.KeyKinds}
			cs.Cover("huge_field_number_schemas")
		}
		if prof := os.Getenv("VERIF_C07_PROFILE"); prof != "" {
			for _, f := range strings.Split(prof, ",") {
				switch f {
				case "nofloat":
					cfg.NoFloat = true
				case "nofixedrep":
					cfg.NoFixedRepeated = true
				case "keys":
					cfg.KeyKinds = []string{"int32", "int64", "uint32", "uint64", "sint32", "sint64", "string"}
				case "nomsgrep":
					cfg.NoMsgInRepeated = true
				case "noenum":
					cfg.Enums = false
				case "nomaps":
					cfg.NoMaps = true
				}
			}
		}
		sc := gen.GenPSchema(cs.R, cfg)
		pc, err := PCompile(sc)
		if err != nil {
			cs.Cover("oracle_schema_rejected")
			return
		}
		cs.Info("proto", pc.Text)
		svc, err := dproto.NewDescritorFromContent(context.Background(), "verif.proto", pc.Text, nil)
		if err != nil {
			cs.Viol("pread:parse", "err", err)
			return
		}
		desc := svc.LookupMethodByName("M").Input()
		m := PGenMsg(cs.R, pc.Root, PValCfg{NonFinite: true, MaxElems: 5, MaxDepth: 3}, 0)
		if !huge && cs.R.Chance(20) {
			if k := pPadTo128(cs.R, m, 0); k > 0 {
				cs.CoverN("containers_sized_to_a_multiple_of_128", k)
			}
		}
		b := PMarshal(m)
		if cs.R.Intn(2) == 0 {
			// field groups in the arbitrary order protobuf-go's default marshalling produces
			sb := pShuffleWire(cs.R, b, pc.Root, 0)
			chk := dynamicpb.NewMessage(pc.Root)
			if err := proto.Unmarshal(sb, chk); err != nil || !proto.Equal(chk, m) {
				panic("harness: shuffled encoding differs for the reference decoder")
			}
			if !bytes.Equal(sb, b) {
				cs.Cover("wire_order_non_ascending")
			}
			b = sb
		}
		cs.Info("bytes", hexs(b))
		cs.Info("message", fmt.Sprint(m))
		opts := &pg.Options{MapStructById: cs.R.Bool(), UseNativeSkip: cs.R.Bool()}
		tr := h.TrapCopy(b, cs.R.Bool(), true)
		defer tr.Free()
		root := pg.NewRootValue(desc, tr.B)

		// whole message
		g, err := root.Interface(opts)
		want := PToGeneric(m, opts.MapStructById)
		if err != nil {
			cs.Viol("pread:root.Interface:error", "err", err)
		} else if !DeepEq(g, want) {
			cs.Viol("pread:root.Interface:value", "got", GoStr(g), "want", GoStr(want))
		}
		cs.Cover("api_root_Interface")

		var nodes []pnode
		pEnum(m, nil, nil, 0, &nodes)
		for _, n := range nodes {
			x := root.GetByPath(n.path...)
			c07Check(cs, "GetByPath", x, n, opts)
			y := root.GetByPath(n.npath...)
			c07Check(cs, "GetByPath(name)", y, n, opts)
			z, addr := root.GetByPathWithAddress(n.path...)
			if c07Check(cs, "GetByPathWithAddress", z, n, opts) {
				for _, a := range addr {
					if a < 0 || a > len(b) {
						cs.Viol("pread:GetByPathWithAddress:address-out-of-bounds", "addr", fmt.Sprint(addr), "len", len(b))
						break
					}
				}
			}
			cs.Cover("getbypath_present")
			cs.Distinct(fmt.Sprintf("%s/d%d", kindClass(n.fd, n.kind), n.depth))
			// single-step APIs from the root
			if len(n.path) == 1 {
				c07Check(cs, "Field", root.Field(dproto.FieldNumber(n.fd.Number())), n, opts)
				c07Check(cs, "FieldByName", root.FieldByName(string(n.fd.Name())), n, opts)
				cs.Cover("api_Field")
			}
			if len(n.path) == 2 && n.kind != 0 {
				parent := root.GetByPath(n.path[:1]...)
				if !parent.IsError() {
					last := n.path[1]
					switch last.Type() {
					case pg.PathIndex:
						c07Check(cs, "Index", parent.Index(last.Int()), n, opts)
						cs.Cover("api_Index")
					case pg.PathStrKey:
						c07Check(cs, "GetByStr", parent.GetByStr(last.Str()), n, opts)
						cs.Cover("api_GetByStr")
					case pg.PathIntKey:
						c07Check(cs, "GetByInt", parent.GetByInt(last.Int()), n, opts)
						cs.Cover("api_GetByInt")
					}
				}
			}
		}
		// absent elements
		fds := pc.Root.Fields()
		for i := 0; i < fds.Len(); i++ {
			fd := fds.Get(i)
			if m.Has(fd) {
				// one past the end / absent key
				if fd.IsList() {
					x := root.GetByPath(pg.NewPathFieldId(dproto.FieldNumber(fd.Number())), pg.NewPathIndex(m.Get(fd).List().Len()))
					if !x.IsError() {
						cs.Viol("pread:GetByPath:found-absent:index-len:"+kindClass(fd, 0), "field", fd.Number())
					} else if !x.IsErrNotFound() {
						cs.Viol("pread:GetByPath:absent-not-notfound:index-len:"+kindClass(fd, 0), "err", x.Error())
					}
					cs.Cover("absent_lookups")
				}
				if fd.IsMap() {
					var kp pg.Path
					if fd.MapKey().Kind() == protoreflect.StringKind {
						kp = pg.NewPathStrKey("no-such-key-\x01")
					} else {
						k := 123456789
						if fd.MapKey().Kind() == protoreflect.BoolKind {
							continue
						}
						kp = pg.NewPathIntKey(k)
						dup := false
						m.Get(fd).Map().Range(func(mk protoreflect.MapKey, _ protoreflect.Value) bool {
							if pIntKey(fd.MapKey(), mk) == k {
								dup = true
							}
							return true
						})
						if dup {
							continue
						}
					}
					x := root.GetByPath(pg.NewPathFieldId(dproto.FieldNumber(fd.Number())), kp)
					if !x.IsError() {
						cs.Viol("pread:GetByPath:found-absent:key:"+kindClass(fd, 0), "field", fd.Number())
					} else if !x.IsErrNotFound() {
						cs.Viol("pread:GetByPath:absent-not-notfound:key:"+kindClass(fd, 0), "err", x.Error())
					}
					cs.Cover("absent_lookups")
				}
				continue
			}
			x := root.GetByPath(pg.NewPathFieldId(dproto.FieldNumber(fd.Number())))
			if !x.IsError() {
				cs.Viol("pread:GetByPath:found-absent:"+kindClass(fd, 0), "field", fd.Number(), "raw", hexs(x.Raw()))
			} else if !x.IsErrNotFound() {
				cs.Viol("pread:GetByPath:absent-not-notfound:"+kindClass(fd, 0), "err", x.Error())
			}
			y := root.GetByPath(pg.NewPathFieldName(string(fd.Name())))
			if !y.IsError() {
				cs.Viol("pread:GetByPath(name):found-absent:"+kindClass(fd, 0), "field", fd.Number())
			}
			f := root.Field(dproto.FieldNumber(fd.Number()))
			if !f.IsError() {
				cs.Viol("pread:Field:found-absent:"+kindClass(fd, 0), "field", fd.Number())
			}
			cs.Cover("absent_lookups")
		}
		// absent fields of nested messages reached through singular message fields
		var walkAbsent func(mm protoreflect.Message, prefix []pg.Path, depth int)
		walkAbsent = func(mm protoreflect.Message, prefix []pg.Path, depth int) {
			if depth > 3 {
				return
			}
			fs := mm.Descriptor().Fields()
			for i := 0; i < fs.Len(); i++ {
				fd := fs.Get(i)
				p := append(append([]pg.Path{}, prefix...), pg.NewPathFieldId(dproto.FieldNumber(fd.Number())))
				if !mm.Has(fd) {
					if depth == 0 {
						continue // root level handled above
					}
					x := root.GetByPath(p...)
					if !x.IsError() {
						cs.Viol("pread:GetByPath:found-absent:nested", "path", ppathStr(p), "raw", hexs(x.Raw()))
					} else if !x.IsErrNotFound() {
						cs.Viol("pread:GetByPath:absent-not-notfound:nested", "path", ppathStr(p), "err", x.Error())
					}
					np := append(append([]pg.Path{}, prefix...), pg.NewPathFieldName(string(fd.Name())))
					if y := root.GetByPath(np...); !y.IsError() {
						cs.Viol("pread:GetByPath(name):found-absent:nested", "path", ppathStr(np))
					}
					cs.Cover("absent_lookups_nested")
					continue
				}
				if fd.Kind() == protoreflect.MessageKind && !fd.IsList() && !fd.IsMap() {
					walkAbsent(mm.Get(fd).Message(), p, depth+1)
				}
			}
		}
		walkAbsent(m, nil, 0)
		// GetMany on the root with all populated field numbers
		var pns []pg.PathNode
		var pfds []protoreflect.FieldDescriptor
		m.Range(func(fd protoreflect.FieldDescriptor, v protoreflect.Value) bool {
			pns = append(pns, pg.PathNode{Path: pg.NewPathFieldId(dproto.FieldNumber(fd.Number()))})
			pfds = append(pfds, fd)
			return true
		})
		if len(pns) > 0 {
			if err := root.GetMany(pns, opts); err != nil {
				cs.Viol("pread:GetMany:error", "err", err)
			} else {
				for i, fd := range pfds {
					v := pg.Value{Node: pns[i].Node, Desc: desc.Message().ByNumber(dproto.FieldNumber(fd.Number())).Type()}
					c07Check(cs, "GetMany", v, pnode{path: []pg.Path{pns[i].Path}, fd: fd, v: m.Get(fd)}, opts)
				}
			}
			cs.Cover("api_GetMany")
		}
		// conversion to Go values with CastStringAsBinary: a string field arrives as its bytes
		m.Range(func(fd protoreflect.FieldDescriptor, v protoreflect.Value) bool {
			if fd.Kind() != protoreflect.StringKind || fd.IsList() || fd.IsMap() {
				return true
			}
			got, err := root.Field(dproto.FieldNumber(fd.Number())).Interface(&pg.Options{CastStringAsBinary: true})
			if b, ok := got.([]byte); err != nil || !ok || string(b) != v.String() {
				cs.Viol("pread:Interface(CastStringAsBinary)", "err", err, "got", fmt.Sprintf("%T %v", got, got), "want", v.String())
			}
			cs.Cover("api_Interface_string_as_binary")
			return true
		})
		// bulk lookup inside containers: several indexes / keys at once, asked for in another order than they lie on
		// the wire, on the container as GetByPath delivers it (sized) and as Field delivers it (size unknown);
		// one past the last index is an error there too
		m.Range(func(fd protoreflect.FieldDescriptor, v protoreflect.Value) bool {
			if !fd.IsList() && !fd.IsMap() {
				return true
			}
			fdesc := desc.Message().ByNumber(dproto.FieldNumber(fd.Number()))
			if fdesc == nil {
				return true
			}
			for vi, cont := range []pg.Value{root.GetByPath(pg.NewPathFieldId(dproto.FieldNumber(fd.Number()))), root.Field(dproto.FieldNumber(fd.Number()))} {
				api := []string{"GetByPath+GetMany", "Field+GetMany"}[vi]
				if cont.IsError() {
					continue
				}
				var ps []pg.PathNode
				var wants []pnode
				base := []pg.Path{pg.NewPathFieldId(dproto.FieldNumber(fd.Number()))}
				if fd.IsList() {
					l := v.List()
					for k := 0; k < l.Len() && k < 8; k++ {
						ps = append(ps, pg.PathNode{Path: pg.NewPathIndex(k)})
						wants = append(wants, pnode{path: append(append([]pg.Path{}, base...), pg.NewPathIndex(k)), fd: fd, v: l.Get(k), kind: 1, depth: 1})
					}
					if x := cont.Index(l.Len()); !x.IsError() {
						cs.Viol("pread:"+api[:len(api)-8]+"+Index:found-absent:index-len:"+kindClass(fd, 0), "field", fd.Number(), "len", l.Len())
					}
				} else {
					v.Map().Range(func(k protoreflect.MapKey, mv protoreflect.Value) bool {
						if len(ps) >= 8 {
							return false
						}
						var p pg.Path
						if fd.MapKey().Kind() == protoreflect.StringKind {
							p = pg.NewPathStrKey(k.String())
						} else if fd.MapKey().Kind() == protoreflect.BoolKind {
							return false
						} else if u, ok := k.Interface().(uint64); ok {
							if u > 1<<62 {
								return true
							}
							p = pg.NewPathIntKey(int(u))
						} else if u, ok := k.Interface().(uint32); ok {
							p = pg.NewPathIntKey(int(u))
						} else {
							p = pg.NewPathIntKey(int(k.Int()))
						}
						ps = append(ps, pg.PathNode{Path: p})
						wants = append(wants, pnode{path: append(append([]pg.Path{}, base...), p), fd: fd, v: mv, kind: 2, depth: 1})
						return true
					})
				}
				// another order than the wire's
				for i := len(ps) - 1; i > 0; i-- {
					j := cs.R.Intn(i + 1)
					ps[i], ps[j] = ps[j], ps[i]
					wants[i], wants[j] = wants[j], wants[i]
				}
				if len(ps) == 0 {
					continue
				}
				if err := cont.GetMany(ps, opts); err != nil {
					cs.Viol("pread:"+api+":error:"+kindClass(fd, 0), "err", err, "paths", len(ps))
					continue
				}
				et := fdesc.Type().Elem()
				for i := range ps {
					c07Check(cs, api, pg.Value{Node: ps[i].Node, Desc: et}, wants[i], opts)
				}
				cs.Cover("api_GetMany_in_container")
			}
			return true
		})
		// DOM load (recursive and lazy) and Children listing: every first-level child is re-read as a whole, and
		// the elements of list and map children through the single-step accessors of the child node
		domCheck := func(api string, kids []pg.PathNode) {
			cnt := 0
			m.Range(func(fd protoreflect.FieldDescriptor, v protoreflect.Value) bool { cnt++; return true })
			if len(kids) != cnt {
				cs.Viol("pread:"+api+":child-count", "got", len(kids), "want", cnt)
			}
			for i := range kids {
				ch := &kids[i]
				fd := pc.Root.Fields().ByNumber(protoreflect.FieldNumber(ch.Path.Id()))
				if fd == nil || !m.Has(fd) {
					cs.Viol("pread:"+api+":unexpected-child", "id", ch.Path.Id())
					continue
				}
				v := pg.Value{Node: ch.Node, Desc: desc.Message().ByNumber(dproto.FieldNumber(fd.Number())).Type()}
				if !c07Check(cs, api, v, pnode{path: []pg.Path{ch.Path}, fd: fd, v: m.Get(fd)}, opts) {
					continue
				}
				switch {
				case fd.IsMap():
					n := 0
					m.Get(fd).Map().Range(func(k protoreflect.MapKey, mv protoreflect.Value) bool {
						var e pg.Value
						var kp pg.Path
						if fd.MapKey().Kind() == protoreflect.StringKind {
							e, kp = v.GetByStr(k.String()), pg.NewPathStrKey(k.String())
						} else {
							e, kp = v.GetByInt(pIntKey(fd.MapKey(), k)), pg.NewPathIntKey(pIntKey(fd.MapKey(), k))
						}
						c07Check(cs, api+"+Get", e, pnode{path: []pg.Path{ch.Path, kp}, fd: fd, v: mv, kind: 2, depth: 1}, opts)
						n++
						return n < 4
					})
					cs.Cover("dom_map_child_elements")
				case fd.IsList():
					l := m.Get(fd).List()
					for k := 0; k < l.Len() && k < 4; k++ {
						c07Check(cs, api+"+Index", v.Index(k), pnode{path: []pg.Path{ch.Path, pg.NewPathIndex(k)}, fd: fd, v: l.Get(k), kind: 1, depth: 1}, opts)
					}
					cs.Cover("dom_list_child_elements")
				}
			}
		}
		for _, recurse := range []bool{true, false} {
			api := "Load"
			if !recurse {
				api = "Load-lazy"
			}
			tree := pg.PathNode{Node: root.Node}
			if err := tree.Load(recurse, opts, desc); err != nil {
				cs.Viol("pread:"+api+":error", "err", err)
				continue
			}
			domCheck(api, tree.Next)
			cs.Cover("api_" + api)
			if !recurse {
				// lazy loading continued on demand: a message-typed child is loaded in its turn
				for i := range tree.Next {
					ch := &tree.Next[i]
					fd := pc.Root.Fields().ByNumber(protoreflect.FieldNumber(ch.Path.Id()))
					if fd == nil || fd.IsList() || fd.IsMap() || fd.Kind() != protoreflect.MessageKind || !m.Has(fd) {
						continue
					}
					cnt := 0
					m.Get(fd).Message().Range(func(protoreflect.FieldDescriptor, protoreflect.Value) bool { cnt++; return true })
					if cnt == 0 {
						continue
					}
					if err := ch.Load(false, opts, desc.Message().ByNumber(dproto.FieldNumber(fd.Number())).Type()); err != nil {
						cs.Viol("pread:Load-lazy:child-message-Load:error", "field", fd.Number(), "err", err, "child-raw", hexs(ch.Node.Raw()))
					} else if len(ch.Next) != cnt {
						cs.Viol("pread:Load-lazy:child-message-Load:child-count", "field", fd.Number(), "got", len(ch.Next), "want", cnt)
					} else {
						cs.Cover("lazy_child_message_loaded")
					}
					break
				}
			}
		}
		{
			var kids []pg.PathNode
			recurse := cs.R.Bool()
			if err := root.Node.Children(&kids, recurse, opts, desc); err != nil {
				cs.Viol("pread:Children:error", "err", err)
			} else {
				domCheck("Children", kids)
				cs.Cover("api_Children")
			}
		}
		if cs.I == 2 {
			cs.Sample(map[string]interface{}{"proto": pc.Text, "message": fmt.Sprint(m), "bytes": hexs(b), "paths": len(nodes)})
		}
	}
}

// c07HeldNotFound is the deterministic witness of the known finding C07-K1: GetByPath of an absent field returns
// an error Value that carries the insertion point as a raw pointer; when the field would be appended at the end of
// a buffer whose length equals its allocation size, that pointer is one past the end of the buffer's object,
// i.e. inside the *next* heap object. While such a Value is alive the garbage collector can meet a pointer into
// a free slot and kills the process ("found bad pointer in Go heap"). The case holds 20000 of them over 6 GCs.
func c07HeldNotFound(c *h.Ctx) {
	c.Run("held-notfound-gc", 1, func(cs *h.Case) {
		const text = "syntax = \"proto3\";\noption go_package = \"verif/pb\";\nmessage R { string s = 1; int32 v = 2; }\nservice Svc { rpc M(R) returns (R); }\n"
		svc, err := dproto.NewDescritorFromContent(context.Background(), "verif.proto", text, nil)
		if err != nil {
			cs.Viol("pread:parse", "err", err)
			return
		}
		desc := svc.LookupMethodByName("M").Input()
		const N = 20000
		bufs := make([][]byte, N)
		held := make([]pg.Value, N)
		for i := range bufs {
			b := make([]byte, 96) // exactly one allocation size class: tag, length 94, 94 bytes of string
			b[0], b[1] = 0x0a, 94
			for k := 2; k < 96; k++ {
				b[k] = 'a'
			}
			bufs[i] = b
			held[i] = pg.NewRootValue(desc, b).GetByPath(pg.NewPathFieldId(2)) // absent: would be appended at the end
			if !held[i].IsErrNotFound() {
				cs.Viol("pread:GetByPath:absent-not-notfound", "i", i)
				return
			}
		}
		cs.WriteAhead("proto.generic.Value.GetByPath(absent field at the end of a 96-byte buffer), value held across GC", bufs[0])
		for i := 1; i < N; i += 2 {
			bufs[i], held[i] = nil, pg.Value{}
		}
		for k := 0; k < 6; k++ {
			runtime.GC()
		}
		runtime.KeepAlive(held)
		runtime.KeepAlive(bufs)
		cs.Cover("held_notfound_values_survived_gc")
	})
}

var _ = bytes.Equal
var _ = math.Float64bits
