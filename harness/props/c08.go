package props

import (
	"bytes"
	"context"
	"encoding/base64"
	"fmt"
	"math"
	"strconv"

	"github.com/cloudwego/dynamicgo/conv"
	"github.com/cloudwego/dynamicgo/conv/p2j"
	"github.com/cloudwego/dynamicgo/meta"
	dproto "github.com/cloudwego/dynamicgo/proto"
	rwire "google.golang.org/protobuf/encoding/protowire"
	"google.golang.org/protobuf/reflect/protoreflect"

	"verifharness/gen"
	"verifharness/h"
)

func init() { h.Register("C08", runC08) }

func pHasNonFinite(m protoreflect.Message) bool {
	nf := false
	var chk func(fd protoreflect.FieldDescriptor, v protoreflect.Value)
	chk = func(fd protoreflect.FieldDescriptor, v protoreflect.Value) {
		if fd.Kind() == protoreflect.FloatKind || fd.Kind() == protoreflect.DoubleKind {
			f := v.Float()
			if math.IsNaN(f) || math.IsInf(f, 0) {
				nf = true
			}
		}
	}
	var rec func(m protoreflect.Message)
	rec = func(m protoreflect.Message) {
		m.Range(func(fd protoreflect.FieldDescriptor, v protoreflect.Value) bool {
			switch {
			case fd.IsMap():
				v.Map().Range(func(k protoreflect.MapKey, mv protoreflect.Value) bool {
					if fd.MapValue().Kind() == protoreflect.MessageKind {
						rec(mv.Message())
					} else {
						chk(fd.MapValue(), mv)
					}
					return true
				})
			case fd.IsList():
				for i := 0; i < v.List().Len(); i++ {
					if fd.Kind() == protoreflect.MessageKind {
						rec(v.List().Get(i).Message())
					} else {
						chk(fd, v.List().Get(i))
					}
				}
			case fd.Kind() == protoreflect.MessageKind:
				rec(v.Message())
			default:
				chk(fd, v)
			}
			return true
		})
	}
	rec(m)
	return nf
}

// cmpPJScalar compares one JSON value with a reference scalar.
func cmpPJScalar(j *JV, fd protoreflect.FieldDescriptor, v protoreflect.Value, int642str bool) string {
	num := func(allowStr bool) (string, bool) {
		if j.K == '#' {
			return j.N, true
		}
		if allowStr && j.K == 's' {
			return j.S, true
		}
		return "", false
	}
	switch fd.Kind() {
	case protoreflect.BoolKind:
		if j.K != 'b' || j.B != v.Bool() {
			return fmt.Sprintf("bool %v vs %s", v.Bool(), j)
		}
	case protoreflect.Int32Kind, protoreflect.Sint32Kind, protoreflect.Sfixed32Kind:
		t, ok := num(false)
		got, err := strconv.ParseInt(t, 10, 64)
		if !ok || err != nil || got != v.Int() {
			return fmt.Sprintf("%s %d vs %s", fd.Kind(), v.Int(), j)
		}
	case protoreflect.Int64Kind, protoreflect.Sint64Kind, protoreflect.Sfixed64Kind:
		t, ok := num(int642str)
		if int642str && fd.Kind() == protoreflect.Int64Kind && j.K != 's' {
			return fmt.Sprintf("int64 expected as string under Int642String, got %s", j)
		}
		got, err := strconv.ParseInt(t, 10, 64)
		if !ok || err != nil || got != v.Int() {
			return fmt.Sprintf("%s %d vs %s", fd.Kind(), v.Int(), j)
		}
	case protoreflect.Uint32Kind, protoreflect.Fixed32Kind:
		t, ok := num(false)
		got, err := strconv.ParseUint(t, 10, 64)
		if !ok || err != nil || got != v.Uint() {
			return fmt.Sprintf("%s %d vs %s", fd.Kind(), v.Uint(), j)
		}
	case protoreflect.Uint64Kind, protoreflect.Fixed64Kind:
		t, ok := num(int642str)
		got, err := strconv.ParseUint(t, 10, 64)
		if !ok || err != nil || got != v.Uint() {
			return fmt.Sprintf("%s %d vs %s", fd.Kind(), v.Uint(), j)
		}
	case protoreflect.FloatKind:
		f := float32(v.Float())
		if math.IsNaN(float64(f)) || math.IsInf(float64(f), 0) {
			return ""
		}
		if j.K != '#' {
			return fmt.Sprintf("number expected, got %s", j)
		}
		got, err := strconv.ParseFloat(j.N, 64)
		if err != nil || math.Float32bits(float32(got)) != math.Float32bits(f) {
			return fmt.Sprintf("float %v vs %s", f, j)
		}
	case protoreflect.DoubleKind:
		f := v.Float()
		if math.IsNaN(f) || math.IsInf(f, 0) {
			return ""
		}
		if j.K != '#' {
			return fmt.Sprintf("number expected, got %s", j)
		}
		got, err := strconv.ParseFloat(j.N, 64)
		if err != nil || math.Float64bits(got) != math.Float64bits(f) {
			return fmt.Sprintf("double %v vs %s", f, j)
		}
	case protoreflect.StringKind:
		if j.K != 's' || j.S != v.String() {
			return fmt.Sprintf("string %q vs %s", v.String(), trunc(j.String()))
		}
	case protoreflect.BytesKind:
		if j.K != 's' {
			return "bytes expected as base64 string"
		}
		dec, err := base64.StdEncoding.DecodeString(j.S)
		if err != nil || !bytes.Equal(dec, v.Bytes()) {
			return fmt.Sprintf("bytes %x vs %q", v.Bytes(), j.S)
		}
	case protoreflect.EnumKind:
		// number (or the value name) is accepted
		if j.K == '#' {
			got, err := strconv.ParseInt(j.N, 10, 64)
			if err != nil || got != int64(v.Enum()) {
				return fmt.Sprintf("enum %d vs %s", v.Enum(), j)
			}
		} else if j.K == 's' {
			ev := fd.Enum().Values().ByNumber(v.Enum())
			if ev == nil || string(ev.Name()) != j.S {
				return fmt.Sprintf("enum %d vs %s", v.Enum(), j)
			}
		} else {
			return "enum expected as number or name"
		}
	}
	return ""
}

func pKeyText(kd protoreflect.FieldDescriptor, k protoreflect.MapKey) string {
	switch kd.Kind() {
	case protoreflect.StringKind:
		return k.String()
	case protoreflect.BoolKind:
		return strconv.FormatBool(k.Bool())
	case protoreflect.Uint32Kind, protoreflect.Fixed32Kind, protoreflect.Uint64Kind, protoreflect.Fixed64Kind:
		return strconv.FormatUint(k.Uint(), 10)
	}
	return strconv.FormatInt(k.Int(), 10)
}

// cmpPJ checks that JSON object j denotes message m (keys = JSON names of populated fields, any order of
// map entries; wire order of fields = number order is not asserted).
func cmpPJ(j *JV, m protoreflect.Message, int642str bool, skip map[protoreflect.FullName]bool) string {
	if j.K != 'o' {
		return "object expected, got " + trunc(j.String())
	}
	seen := map[string]bool{}
	for _, k := range j.Keys {
		if seen[k] {
			return fmt.Sprintf("duplicate member %q", k)
		}
		seen[k] = true
	}
	cnt := 0
	mismatch := ""
	m.Range(func(fd protoreflect.FieldDescriptor, v protoreflect.Value) bool {
		if skip[fd.FullName()] {
			return true
		}
		cnt++
		name := fd.JSONName()
		var jv *JV
		for i, k := range j.Keys {
			if k == name {
				jv = j.Vals[i]
			}
		}
		if jv == nil {
			mismatch = fmt.Sprintf("member %q (field %d) missing", name, fd.Number())
			return false
		}
		switch {
		case fd.IsMap():
			if jv.K != 'o' || len(jv.Keys) != v.Map().Len() {
				mismatch = fmt.Sprintf(".%s: object with %d members expected, got %s", name, v.Map().Len(), trunc(jv.String()))
				return false
			}
			v.Map().Range(func(k protoreflect.MapKey, mv protoreflect.Value) bool {
				kt := pKeyText(fd.MapKey(), k)
				var ev *JV
				for i, jk := range jv.Keys {
					if jk == kt {
						ev = jv.Vals[i]
					}
				}
				if ev == nil {
					mismatch = fmt.Sprintf(".%s: key %q missing in %s", name, kt, trunc(jv.String()))
					return false
				}
				if fd.MapValue().Kind() == protoreflect.MessageKind {
					if mm := cmpPJ(ev, mv.Message(), int642str, skip); mm != "" {
						mismatch = fmt.Sprintf(".%s[%q]%s", name, kt, mm)
						return false
					}
				} else if mm := cmpPJScalar(ev, fd.MapValue(), mv, int642str); mm != "" {
					mismatch = fmt.Sprintf(".%s[%q]: %s", name, kt, mm)
					return false
				}
				return true
			})
		case fd.IsList():
			l := v.List()
			if jv.K != 'a' || len(jv.A) != l.Len() {
				mismatch = fmt.Sprintf(".%s: array of %d expected, got %s", name, l.Len(), trunc(jv.String()))
				return false
			}
			for i := 0; i < l.Len(); i++ {
				if fd.Kind() == protoreflect.MessageKind {
					if mm := cmpPJ(jv.A[i], l.Get(i).Message(), int642str, skip); mm != "" {
						mismatch = fmt.Sprintf(".%s[%d]%s", name, i, mm)
						return false
					}
				} else if mm := cmpPJScalar(jv.A[i], fd, l.Get(i), int642str); mm != "" {
					mismatch = fmt.Sprintf(".%s[%d]: %s", name, i, mm)
					return false
				}
			}
		case fd.Kind() == protoreflect.MessageKind:
			if mm := cmpPJ(jv, v.Message(), int642str, skip); mm != "" {
				mismatch = "." + name + mm
				return false
			}
		default:
			if mm := cmpPJScalar(jv, fd, v, int642str); mm != "" {
				mismatch = "." + name + ": " + mm
				return false
			}
		}
		return mismatch == ""
	})
	if mismatch != "" {
		return mismatch
	}
	if cnt != len(j.Keys) {
		return fmt.Sprintf(": %d members for %d populated fields: %s", len(j.Keys), cnt, trunc(j.String()))
	}
	return ""
}

// pHasSkipped reports whether a field the reader schema does not declare is populated anywhere in m
// (below declared fields only: content of an undeclared field is never looked at).
func pHasSkipped(m protoreflect.Message, skip map[protoreflect.FullName]bool) bool {
	found := false
	m.Range(func(fd protoreflect.FieldDescriptor, v protoreflect.Value) bool {
		if skip[fd.FullName()] {
			found = true
			return false
		}
		switch {
		case fd.IsMap():
			if fd.MapValue().Kind() == protoreflect.MessageKind {
				v.Map().Range(func(k protoreflect.MapKey, mv protoreflect.Value) bool {
					found = found || pHasSkipped(mv.Message(), skip)
					return !found
				})
			}
		case fd.IsList():
			if fd.Kind() == protoreflect.MessageKind {
				for i := 0; i < v.List().Len() && !found; i++ {
					found = pHasSkipped(v.List().Get(i).Message(), skip)
				}
			}
		case fd.Kind() == protoreflect.MessageKind:
			found = pHasSkipped(v.Message(), skip)
		}
		return !found
	})
	return found
}

// readerSchema renders sc with a random subset of fields removed (the reader's older/narrower view of the
// writer's schema) and returns the full names of the removed fields.
func readerSchema(r *h.Rand, sc *gen.PSchema) (string, map[protoreflect.FullName]bool) {
	skip := map[protoreflect.FullName]bool{}
	var saved []func()
	var rec func(ms []*gen.PMsg)
	rec = func(ms []*gen.PMsg) {
		for _, m := range ms {
			m := m
			orig := m.Fields
			var keep []*gen.PField
			for _, f := range orig {
				if r.Chance(30) {
					skip[protoreflect.FullName(m.FullName()+"."+f.Name)] = true
				} else {
					keep = append(keep, f)
				}
			}
			m.Fields = keep
			saved = append(saved, func() { m.Fields = orig })
			rec(m.Nested)
		}
	}
	rec(sc.Msgs)
	text := sc.Proto()
	for _, f := range saved {
		f()
	}
	return text, skip
}

func runC08(c *h.Ctx) {
	c.Run("messages", c.N(8000, 300000), func(cs *h.Case) {
		sc := gen.GenPSchema(cs.R, gen.PCfg{Unpacked: true, MaxDepth: 2, MaxFields: 6, Nested: cs.R.Bool(), Enums: true, BigNums: true, JSONNames: true, Optionals: cs.R.Bool()})
		pc, err := PCompile(sc)
		if err != nil {
			cs.Cover("oracle_schema_rejected")
			return
		}
		cs.Info("proto", pc.Text)
		readerText := pc.Text
		var skip map[protoreflect.FullName]bool
		if cs.R.Chance(30) {
			readerText, skip = readerSchema(cs.R, sc)
			cs.Info("reader-proto", readerText)
		}
		svc, err := dproto.NewDescritorFromContent(context.Background(), "verif.proto", readerText, nil)
		if err != nil {
			cs.Viol("p2j:parse", "err", err)
			return
		}
		desc := svc.LookupMethodByName("M").Input()
		m := PGenMsg(cs.R, pc.Root, PValCfg{NonFinite: cs.R.Chance(25), MaxElems: 5, MaxDepth: 3}, 0)
		b := PMarshal(m)
		unknown := cs.R.Chance(20)
		defer func() {
			if skip != nil {
				cs.Cover("reader_schema_narrower")
			}
		}()
		if unknown {
			// append unknown fields (numbers not declared in the root)
			num := rwire.Number(18000 + cs.R.Intn(900))
			switch cs.R.Intn(3) {
			case 0:
				b = rwire.AppendTag(b, num, rwire.VarintType)
				b = rwire.AppendVarint(b, cs.R.U64())
			case 1:
				b = rwire.AppendTag(b, num, rwire.BytesType)
				b = rwire.AppendBytes(b, []byte("unknown payload"))
			default:
				b = rwire.AppendTag(b, num, rwire.Fixed64Type)
				b = rwire.AppendFixed64(b, cs.R.U64())
			}
		}
		cs.Info("bytes", hexs(b))
		cs.Info("message", fmt.Sprint(m))
		ob := cs.R.Intn(4)
		o := conv.Options{Int642String: ob&1 != 0, DisallowUnknownField: ob&2 != 0}
		cs.Info("opts", fmt.Sprintf("Int642String=%v Disallow=%v unknown=%v", o.Int642String, o.DisallowUnknownField, unknown))
		cv := p2j.NewBinaryConv(o)
		tr := h.TrapCopy(b, cs.R.Bool(), true)
		defer tr.Free()
		var out []byte
		if cs.R.Chance(40) {
			canary := []byte{1, 2, 3}
			buf := append(make([]byte, 0, 3+cs.R.Intn(100)), canary...)
			err = cv.DoInto(context.Background(), desc, tr.B, &buf)
			if len(buf) < 3 || !bytes.Equal(buf[:3], canary) {
				cs.Viol("p2j:DoInto-clobbered-prefix", "buf", buf)
				return
			}
			out = buf[3:]
		} else {
			out, err = cv.Do(context.Background(), desc, tr.B)
		}
		nf := pHasNonFinite(m)
		if skip != nil && pHasSkipped(m, skip) {
			unknown = true
			cs.Cover("unknown_field_inside_message")
		}
		if unknown && o.DisallowUnknownField {
			if err == nil {
				cs.Viol("p2j:unknown-field-accepted", "out", string(out))
			} else if !isErrCode(err, meta.ErrUnknownField) && !nf {
				cs.Viol("p2j:unknown-field-wrong-error", "err", err)
			}
			cs.Cover("p2j_unknown_rejected")
			return
		}
		if err != nil {
			cs.Cover("p2j_error_returned")
			if !nf {
				cs.Cover("p2j_error_on_finite_message")
			}
			return
		}
		j, perr := ParseJSON(out)
		if perr != nil {
			sig := "p2j:malformed-json"
			if nf {
				sig += ":non-finite"
			}
			cs.Viol(sig, "parse-error", perr, "out", trunc(string(out)))
			return
		}
		if mm := cmpPJ(j, m, o.Int642String, skip); mm != "" {
			cs.Viol("p2j:value", "mismatch", mm, "out", trunc(string(out)))
			return
		}
		cs.Cover("p2j_ok")
		cs.Distinct(fmt.Sprintf("p-%d-%v-%s", ob, unknown, c20Shape(m)))
		if cs.I == 4 {
			cs.Sample(map[string]interface{}{"proto": pc.Text, "message": fmt.Sprint(m), "json": trunc(string(out))})
		}
	})
}
