package props

import (
	"context"
	"fmt"
	"math"
	"strings"

	"github.com/cloudwego/dynamicgo/conv"
	"github.com/cloudwego/dynamicgo/conv/j2t"
	"github.com/cloudwego/dynamicgo/conv/t2j"
	"github.com/cloudwego/dynamicgo/meta"
	"github.com/cloudwego/dynamicgo/thrift"
	"github.com/cloudwego/dynamicgo/thrift/generic"

	"verifharness/gen"
	"verifharness/h"
	"verifharness/tref"
)

func init() { h.Register("C16", runC16) }

var c16IDs = []int16{1, 2, 3, 63, 64, 65, 127, 128, 255, 256, 257, 300}

// c16Struct builds a struct mixing requiredness and defaults; depth>0 adds struct-typed fields.
func c16Struct(r *h.Rand, sc *gen.Schema, depth int, n *int) *gen.StructT {
	*n++
	st := &gen.StructT{Name: fmt.Sprintf("R%d", *n)}
	nf := 2 + r.Intn(5)
	if *n > 1 && r.Chance(15) {
		nf = 0 // a struct that declares no fields (below the root)
	}
	used := map[int16]bool{}
	for i := 0; i < nf; i++ {
		var id int16
		for {
			id = c16IDs[r.Intn(len(c16IDs))]
			if !used[id] {
				break
			}
		}
		used[id] = true
		f := &gen.FieldT{ID: id, Name: fmt.Sprintf("f%d_%d", *n, i), Req: r.Intn(3)}
		kinds := []byte{tref.I32, tref.STRING, tref.BOOL, tref.DOUBLE, tref.I64, tref.BYTE, tref.I16, tref.LIST, tref.MAP, tref.SET}
		k := kinds[r.Intn(len(kinds))]
		if depth > 0 && r.Chance(30) {
			k = tref.STRUCT
		}
		switch k {
		case tref.LIST:
			f.T = &gen.Type{T: tref.LIST, Elem: &gen.Type{T: tref.I32}}
		case tref.SET:
			f.T = &gen.Type{T: tref.SET, Elem: &gen.Type{T: tref.I32}}
		case tref.MAP:
			f.T = &gen.Type{T: tref.MAP, Key: &gen.Type{T: tref.STRING}, Elem: &gen.Type{T: tref.I64}}
		case tref.STRUCT:
			f.T = &gen.Type{T: tref.STRUCT, S: c16Struct(r, sc, depth-1, n)}
			// the same rules hold for structs inside containers
			switch r.Intn(5) {
			case 0:
				f.T = &gen.Type{T: tref.LIST, Elem: f.T}
			case 1:
				f.T = &gen.Type{T: tref.MAP, Key: &gen.Type{T: tref.STRING}, Elem: f.T}
			}
		default:
			f.T = &gen.Type{T: k}
			if r.Chance(50) {
				switch k {
				case tref.I32:
					f.Default = tref.Int32(int32(7 + r.Intn(1000)))
				case tref.STRING:
					f.Default = tref.Str(fmt.Sprintf("dflt%d", r.Intn(100)))
					if r.Chance(30) {
						// characters that have to be escaped in JSON but not in the IDL literal
						f.Default = tref.Str([]string{`say "hi" %d`, `"%d"`, `a"b"c%d"`, `it's %d`, `<%d> & co`}[r.Intn(5)])
						f.Default.S = []byte(fmt.Sprintf(string(f.Default.S), r.Intn(100)))
					}
				case tref.BOOL:
					f.Default = tref.Bool(true)
				case tref.DOUBLE:
					f.Default = tref.Double(float64(r.Intn(100)) + 0.5)
				case tref.I64:
					f.Default = tref.Int64(int64(r.Intn(100000)) + 1)
				case tref.BYTE:
					f.Default = tref.Byte(int8(1 + r.Intn(100)))
				case tref.I16:
					f.Default = tref.Int16(int16(1 + r.Intn(30000)))
				}
				// a declared default that equals the type's zero value is still a declared default
				if f.Default != nil && r.Chance(25) {
					f.Default = zeroOf(f.T)
				}
				// negative defaults and the ends of the type's range
				if f.Default != nil && r.Chance(30) {
					pick := func(min, max int64) int64 {
						return []int64{min, max, min + 1, max - 1, -1, -(1 + int64(r.Intn(100)))}[r.Intn(6)]
					}
					switch k {
					case tref.BYTE:
						f.Default = tref.Byte(int8(pick(math.MinInt8, math.MaxInt8)))
					case tref.I16:
						f.Default = tref.Int16(int16(pick(math.MinInt16, math.MaxInt16)))
					case tref.I32:
						f.Default = tref.Int32(int32(pick(math.MinInt32, math.MaxInt32)))
					case tref.I64:
						f.Default = tref.Int64(pick(math.MinInt64, math.MaxInt64))
					case tref.DOUBLE:
						f.Default = tref.Double(-float64(r.Intn(100)) - 0.25)
					}
				}
			}
		}
		st.Fields = append(st.Fields, f)
	}
	sc.Structs = append(sc.Structs, st)
	return st
}

type c16Opts struct {
	WriteRequire, WriteDefault, WriteOptional, DisallowUnknown bool
	SB, DV                                                     bool // parse options SetOptionalBitmap / UseDefaultValue
}

// c16ExpectWith computes, for a struct value v (the present fields) typed t, the expected output fields:
// present fields unchanged (recursively expected) plus filled absent fields, or the error class "miss-required".
// optDefaultWrites=false is the defect model of known finding C16-K1 (an optional field with a parsed default
// is not a reason to write).
func c16ExpectWith(v *tref.Val, t *gen.Type, o c16Opts, optDefaultWrites bool) (*tref.Val, string) {
	out := &tref.Val{T: tref.STRUCT}
	present := map[int16]bool{}
	for _, f := range v.Fs {
		fd := t.S.Field(f.ID)
		if fd == nil {
			continue
		}
		present[f.ID] = true
		ev := f.V
		switch {
		case f.V.T == tref.STRUCT:
			var cls string
			ev, cls = c16ExpectWith(f.V, fd.T, o, optDefaultWrites)
			if cls != "" {
				return nil, cls
			}
		case (f.V.T == tref.LIST || f.V.T == tref.MAP) && fd.T.Elem.T == tref.STRUCT:
			ev = &tref.Val{T: f.V.T, ET: f.V.ET, KT: f.V.KT, K: f.V.K}
			for _, e := range f.V.L {
				x, cls := c16ExpectWith(e, fd.T.Elem, o, optDefaultWrites)
				if cls != "" {
					return nil, cls
				}
				ev.L = append(ev.L, x)
			}
		}
		out.Fs = append(out.Fs, tref.Field{ID: f.ID, V: ev})
	}
	for _, fd := range t.S.Fields {
		if present[fd.ID] {
			continue
		}
		dv := o.DV && fd.Default != nil
		write := false
		switch fd.Req {
		case gen.ReqRequired:
			if !o.WriteRequire {
				return nil, "miss-required"
			}
			write = true
		case gen.ReqDefault:
			write = o.WriteDefault
		case gen.ReqOptional:
			write = o.SB && (o.WriteOptional || (dv && optDefaultWrites))
		}
		if !write {
			continue
		}
		var val *tref.Val
		if dv {
			val = fd.Default.Clone()
		} else {
			val = zeroOf(fd.T)
		}
		out.Fs = append(out.Fs, tref.Field{ID: fd.ID, V: val})
	}
	return out, ""
}

// c16Doc renders the JSON document for v; absent fields may be spelled as explicit null; unknown members optional.
func c16Doc(cs *h.Case, v *tref.Val, t *gen.Type, nulls bool, unknown *bool, depth int) string {
	var parts []string
	present := map[int16]bool{}
	for _, f := range v.Fs {
		fd := t.S.Field(f.ID)
		present[f.ID] = true
		var val string
		switch {
		case f.V.T == tref.STRUCT:
			val = c16Doc(cs, f.V, fd.T, nulls, unknown, depth+1)
		case f.V.T == tref.LIST && fd.T.Elem.T == tref.STRUCT:
			var es []string
			for _, e := range f.V.L {
				es = append(es, c16Doc(cs, e, fd.T.Elem, nulls, unknown, depth+1))
			}
			val = "[" + strings.Join(es, ",") + "]"
		case f.V.T == tref.MAP && fd.T.Elem.T == tref.STRUCT:
			var es []string
			for i, e := range f.V.L {
				es = append(es, fmt.Sprintf("%q:%s", string(f.V.K[i].S), c16Doc(cs, e, fd.T.Elem, nulls, unknown, depth+1)))
			}
			val = "{" + strings.Join(es, ",") + "}"
		default:
			val = RenderJSON(cs.R, f.V, fd.T, JSpell{}, JOpts{})
		}
		parts = append(parts, fmt.Sprintf("%q:%s", fd.Name, val))
	}
	if nulls {
		// an explicit null is only generated for absent *required* fields: the statement equates null with absent
		// for the missing-required clause only; whether a null optional/default member is filled in is unasserted
		for _, fd := range t.S.Fields {
			if !present[fd.ID] && fd.Req == gen.ReqRequired && cs.R.Chance(60) {
				parts = append(parts, fmt.Sprintf("%q:null", fd.Name))
			}
		}
	}
	if unknown != nil && *unknown && depth == 0 {
		parts = append(parts, `"no_such_member":{"a":[1,2]}`)
	}
	for i := len(parts) - 1; i > 0; i-- {
		j := cs.R.Intn(i + 1)
		parts[i], parts[j] = parts[j], parts[i]
	}
	return "{" + strings.Join(parts, ",") + "}"
}

// c16Value picks a presence subset for every struct level.
func c16Value(cs *h.Case, t *gen.Type, depth int) *tref.Val {
	v := &tref.Val{T: tref.STRUCT}
	for _, fd := range t.S.Fields {
		if !cs.R.Chance(50) {
			continue
		}
		if fd.T.T == tref.STRUCT {
			v.Fs = append(v.Fs, tref.Field{ID: fd.ID, V: c16Value(cs, fd.T, depth+1)})
		} else if (fd.T.T == tref.LIST || fd.T.T == tref.MAP) && fd.T.Elem.T == tref.STRUCT {
			x := &tref.Val{T: fd.T.T, ET: tref.STRUCT}
			if fd.T.T == tref.MAP {
				x.KT = tref.STRING
			}
			for k := cs.R.Intn(3); k > 0; k-- {
				if fd.T.T == tref.MAP {
					x.K = append(x.K, tref.Str(fmt.Sprintf("k%d", k)))
				}
				x.L = append(x.L, c16Value(cs, fd.T.Elem, depth+1))
			}
			v.Fs = append(v.Fs, tref.Field{ID: fd.ID, V: x})
		} else {
			x := gen.GenVal(cs.R, fd.T, gen.ValCfg{MaxElems: 2, MaxStr: 12, PlainStr: true}, 2)
			if x.T == tref.DOUBLE && x.F == 0 {
				x.F = 0 // the sign of -0 is a separate known finding (C02-K1)
			}
			v.Fs = append(v.Fs, tref.Field{ID: fd.ID, V: x})
		}
	}
	return v
}

// jsonToVal converts a parsed t2j output back to a model for comparison (typed by t).
func jsonToVal(j *JV, t *gen.Type) (*tref.Val, error) {
	switch t.T {
	case tref.BOOL:
		if j.K != 'b' {
			return nil, fmt.Errorf("bool expected")
		}
		return tref.Bool(j.B), nil
	case tref.BYTE, tref.I16, tref.I32, tref.I64:
		if j.K != '#' {
			return nil, fmt.Errorf("number expected, got %s", j)
		}
		var i int64
		if _, err := fmt.Sscan(j.N, &i); err != nil {
			return nil, err
		}
		return &tref.Val{T: t.T, I: i}, nil
	case tref.DOUBLE:
		if j.K != '#' {
			return nil, fmt.Errorf("number expected")
		}
		var f float64
		if _, err := fmt.Sscan(j.N, &f); err != nil {
			return nil, err
		}
		return tref.Double(f), nil
	case tref.STRING:
		if j.K != 's' {
			return nil, fmt.Errorf("string expected")
		}
		return tref.Str(j.S), nil
	case tref.LIST, tref.SET:
		if j.K != 'a' {
			return nil, fmt.Errorf("array expected")
		}
		out := &tref.Val{T: t.T, ET: t.Elem.T}
		for _, e := range j.A {
			x, err := jsonToVal(e, t.Elem)
			if err != nil {
				return nil, err
			}
			out.L = append(out.L, x)
		}
		return out, nil
	case tref.MAP:
		if j.K != 'o' {
			return nil, fmt.Errorf("object expected")
		}
		out := &tref.Val{T: tref.MAP, KT: t.Key.T, ET: t.Elem.T}
		for i, k := range j.Keys {
			x, err := jsonToVal(j.Vals[i], t.Elem)
			if err != nil {
				return nil, err
			}
			out.K = append(out.K, tref.Str(k))
			out.L = append(out.L, x)
		}
		return out, nil
	case tref.STRUCT:
		if j.K != 'o' {
			return nil, fmt.Errorf("object expected")
		}
		out := &tref.Val{T: tref.STRUCT}
		for i, k := range j.Keys {
			var fd *gen.FieldT
			for _, f := range t.S.Fields {
				if f.Name == k || (f.Alias != "" && f.Alias == k) {
					fd = f
				}
			}
			if fd == nil {
				return nil, fmt.Errorf("undeclared member %q", k)
			}
			x, err := jsonToVal(j.Vals[i], fd.T)
			if err != nil {
				return nil, fmt.Errorf(".%s: %v", k, err)
			}
			out.Fs = append(out.Fs, tref.Field{ID: fd.ID, V: x})
		}
		return out, nil
	}
	return nil, fmt.Errorf("type")
}

func runC16(c *h.Ctx) {
	c.Run("table", c.N(6000, 300000), func(cs *h.Case) {
		sc := &gen.Schema{}
		n := 0
		root := c16Struct(cs.R, sc, 2, &n)
		sc.Root = root
		rt := structType(root)
		ob := cs.R.Intn(64)
		o := c16Opts{WriteRequire: ob&1 != 0, WriteDefault: ob&2 != 0, WriteOptional: ob&4 != 0, DisallowUnknown: ob&8 != 0, SB: ob&16 != 0, DV: ob&32 != 0}
		popts := thrift.NewDefaultOptions()
		popts.SetOptionalBitmap = o.SB
		popts.UseDefaultValue = o.DV
		idl := sc.IDL()
		cs.Info("idl", idl)
		cs.Info("opts", fmt.Sprintf("%+v", o))
		desc, _, err := ParseRoot(sc, popts)
		if err != nil {
			cs.Viol("req:parse-idl", "err", err)
			return
		}
		copts := conv.Options{WriteRequireField: o.WriteRequire, WriteDefaultField: o.WriteDefault, WriteOptionalField: o.WriteOptional, DisallowUnknownField: o.DisallowUnknown}
		v := c16Value(cs, rt, 0)
		cs.Info("present", v.String())
		want, cls := c16ExpectWith(v, rt, o, true)
		cs.Cover(fmt.Sprintf("optvec_%02d", ob))

		// ---------------- j2t ----------------
		unknown := cs.R.Chance(25)
		doc := c16Doc(cs, v, rt, cs.R.Bool() && !o.WriteRequire, &unknown, 0)
		cs.Info("doc", doc)
		// pollute the pooled bitmap: a larger struct converted first (dirty pooled state)
		if cs.R.Chance(30) {
			pc := j2t.NewBinaryConv(conv.Options{WriteDefaultField: true, WriteOptionalField: true, WriteRequireField: true})
			pc.Do(context.Background(), desc, []byte(`{}`))
		}
		jc := newJ2T(cs, copts)
		out, jerr := jc.Do(context.Background(), desc, []byte(doc))
		switch {
		case cls == "miss-required":
			if jerr == nil {
				cs.Viol("req:j2t:missing-required-accepted", "out", out)
			} else if !isErrCode(jerr, meta.ErrMissRequiredField) && !(unknown && o.DisallowUnknown) {
				cs.Viol("req:j2t:missing-required-wrong-error", "err", jerr)
			}
			cs.Cover("j2t_miss_required")
		case unknown && o.DisallowUnknown:
			if jerr == nil {
				cs.Viol("req:j2t:unknown-accepted", "out", out)
			} else if !isErrCode(jerr, meta.ErrUnknownField) {
				cs.Viol("req:j2t:unknown-wrong-error", "err", jerr)
			}
			cs.Cover("j2t_unknown")
		case jerr != nil:
			cs.Viol("req:j2t:unexpected-error", "err", jerr)
		default:
			dec, derr := tref.Decode(out, tref.STRUCT)
			if derr != nil {
				cs.Viol("req:j2t:malformed", "decode-error", derr, "out", out)
			} else if !tref.EqualUnordered(dec, want) {
				sig := "req:j2t:fields"
				if alt, _ := c16ExpectWith(v, rt, o, false); alt != nil && tref.EqualUnordered(dec, alt) {
					sig = "req:j2t:optional-with-default-not-written"
				}
				cs.Viol(sig, "got", dec.String(), "want", want.String())
			} else {
				cs.Cover("j2t_table_ok")
			}
		}

		// ---------------- t2j ----------------
		b := tref.Encode(v)
		withUnknown := cs.R.Chance(25)
		if withUnknown {
			vv := v.Clone()
			// the undeclared member sits in the root or in any struct below it (field value, list element, map value)
			target := vv
			if cs.R.Bool() {
				var sts []*tref.Val
				tref.Walk(vv, func(x *tref.Val, d int) {
					if x.T == tref.STRUCT && d > 0 {
						sts = append(sts, x)
					}
				})
				if len(sts) > 0 {
					target = sts[cs.R.Intn(len(sts))]
					cs.Cover("unknown_member_below_root")
					if len(target.Fs) == 0 {
						cs.Cover("unknown_member_in_empty_struct")
					}
				}
			}
			target.Fs = append(target.Fs, tref.Field{ID: 30999, V: tref.Int32(1)})
			b = tref.Encode(vv)
		}
		tc := t2j.NewBinaryConv(copts)
		jout, terr := tc.Do(context.Background(), desc, b)
		switch {
		case cls == "miss-required":
			if terr == nil {
				cs.Viol("req:t2j:missing-required-accepted", "out", string(jout))
			} else if !isErrCode(terr, meta.ErrMissRequiredField) && !(withUnknown && o.DisallowUnknown) {
				cs.Viol("req:t2j:missing-required-wrong-error", "err", terr)
			}
			cs.Cover("t2j_miss_required")
		case withUnknown && o.DisallowUnknown:
			if terr == nil {
				cs.Viol("req:t2j:unknown-accepted", "out", string(jout))
			} else if !isErrCode(terr, meta.ErrUnknownField) {
				cs.Viol("req:t2j:unknown-wrong-error", "err", terr)
			}
			cs.Cover("t2j_unknown")
		case terr != nil:
			cs.Viol("req:t2j:unexpected-error", "err", terr)
		default:
			jv, perr := ParseJSON(jout)
			if perr != nil {
				cs.Viol("req:t2j:malformed-json", "err", perr, "out", string(jout))
			} else if got, cerr := jsonToVal(jv, rt); cerr != nil {
				cs.Viol("req:t2j:unreadable-output", "err", cerr, "out", string(jout))
			} else if !tref.EqualUnordered(got, normStrMapKeys(want)) {
				cs.Viol("req:t2j:fields", "got", got.String(), "want", want.String(), "out", string(jout))
			} else {
				cs.Cover("t2j_table_ok")
			}
		}

		// ---------------- MarshalTo (cutting onto a second parse of the same IDL) ----------------
		desc2, _, err := ParseRoot(sc, popts)
		if err == nil {
			mb := cs.R.Intn(8)
			gopts := &generic.Options{WriteDefault: mb&1 != 0, NotCheckRequireNess: mb&2 != 0, DisallowUnknow: mb&4 != 0}
			val := generic.NewValue(desc, b)
			mout, merr := val.MarshalTo(desc2, gopts)
			mwant, mcls := c16ExpectMarshalTo(v, rt, gopts, o)
			switch {
			case withUnknown && gopts.DisallowUnknow:
				if merr == nil {
					cs.Viol("req:marshalto:unknown-accepted", "out", mout)
				}
			case mcls == "miss-required":
				if merr == nil {
					cs.Viol("req:marshalto:missing-required-accepted", "out", mout)
				}
				cs.Cover("marshalto_miss_required")
			case merr != nil:
				cs.Viol("req:marshalto:unexpected-error", "err", merr, "gopts", fmt.Sprintf("%+v", *gopts))
			default:
				dec, derr := tref.Decode(mout, tref.STRUCT)
				if derr != nil {
					cs.Viol("req:marshalto:malformed", "decode-error", derr)
				} else if !c16MarshalToOK(dec, v, rt, gopts, o) {
					cs.Viol("req:marshalto:fields", "got", dec.String(), "want-like", mwant.String(), "gopts", fmt.Sprintf("%+v", *gopts))
				} else {
					cs.Cover("marshalto_table_ok")
				}
			}
		}
		cs.Distinct(fmt.Sprintf("t-%02d-%s-%s", ob, cls, presenceKey(v, rt)))
		if cs.I == 6 {
			cs.Sample(map[string]interface{}{"idl": idl, "opts": fmt.Sprintf("%+v", o), "doc": doc, "expected": fmt.Sprint(want)})
		}
	})
	c16IncludedDefaults(c)
}

// c16IncludedDefaults: IDL defaults that name constants of an included file (literal, identifier-valued,
// enum-valued) must be the values written for absent fields when default parsing is on.
func c16IncludedDefaults(c *h.Ctx) {
	inc := `namespace go inc
enum Level { LOW = 1, HIGH = 5 }
const string Hello = "hi"
const string Greeting = Hello
const Level DefaultLevel = Level.HIGH
const i32 Base = 7
const i32 Limit = Base
const double Ratio = 2.5
const bool Flag = true
`
	mainIDL := `include "inc.thrift"
namespace go verif
struct Sub { 1: string tag = inc.Greeting, 2: inc.Level lvl = inc.DefaultLevel, }
struct D {
  1: string alias = inc.Greeting,
  2: inc.Level lvl = inc.DefaultLevel,
  3: i32 num = inc.Limit,
  4: string direct = inc.Hello,
  5: inc.Level lit = inc.Level.HIGH,
  6: double ratio = inc.Ratio,
  7: bool flag = inc.Flag,
  8: i64 plain = 42,
  9: Sub sub,
}
service Svc { D M(1: D req), }
`
	c.Run("included-defaults", c.N(16, 64), func(cs *h.Case) {
		po := thrift.NewDefaultOptions()
		po.UseDefaultValue = true
		po.SetOptionalBitmap = cs.I&1 != 0
		if cs.I&2 != 0 {
			po.ParseEnumAsInt64 = true
		}
		svc, err := po.NewDescritorFromContent(context.Background(), "main.thrift", mainIDL, map[string]string{"inc.thrift": inc}, false)
		if err != nil {
			cs.Viol("req:included-defaults:parse", "err", err)
			return
		}
		desc, err := RootOf(svc, "M")
		if err != nil {
			cs.Viol("req:included-defaults:parse", "err", err)
			return
		}
		et := byte(tref.I32)
		if po.ParseEnumAsInt64 {
			et = tref.I64
		}
		want := tref.Struct(
			tref.Field{ID: 1, V: tref.Str("hi")}, tref.Field{ID: 2, V: &tref.Val{T: et, I: 5}}, tref.Field{ID: 3, V: tref.Int32(7)},
			tref.Field{ID: 4, V: tref.Str("hi")}, tref.Field{ID: 5, V: &tref.Val{T: et, I: 5}}, tref.Field{ID: 6, V: tref.Double(2.5)},
			tref.Field{ID: 7, V: tref.Bool(true)}, tref.Field{ID: 8, V: tref.Int64(42)}, tref.Field{ID: 9, V: tref.Struct()})
		// j2t: nothing present, write-default on
		jc := j2t.NewBinaryConv(conv.Options{WriteDefaultField: true})
		doc := `{}`
		if cs.I&4 != 0 {
			doc = `{"sub":{}}`
			want.Fs[8].V = tref.Struct(tref.Field{ID: 1, V: tref.Str("hi")}, tref.Field{ID: 2, V: &tref.Val{T: et, I: 5}})
		}
		out, err := jc.Do(context.Background(), desc, []byte(doc))
		if err != nil {
			cs.Viol("req:included-defaults:j2t:error", "err", err)
		} else if dec, derr := tref.Decode(out, tref.STRUCT); derr != nil || !tref.EqualUnordered(dec, want) {
			cs.Viol("req:included-defaults:j2t:values", "got", fmt.Sprint(dec), "want", want.String(), "decode-error", derr)
		}
		// t2j: empty message, write-default on
		tc := t2j.NewBinaryConv(conv.Options{WriteDefaultField: true})
		in := tref.Encode(tref.Struct())
		if cs.I&4 != 0 {
			in = tref.Encode(tref.Struct(tref.Field{ID: 9, V: tref.Struct()}))
		}
		jout, err := tc.Do(context.Background(), desc, in)
		if err != nil {
			cs.Viol("req:included-defaults:t2j:error", "err", err)
		} else {
			dT := &gen.StructT{Name: "D"}
			subT := &gen.StructT{Name: "Sub", Fields: []*gen.FieldT{{ID: 1, Name: "tag", T: &gen.Type{T: tref.STRING}}, {ID: 2, Name: "lvl", T: &gen.Type{T: et}}}}
			dT.Fields = []*gen.FieldT{{ID: 1, Name: "alias", T: &gen.Type{T: tref.STRING}}, {ID: 2, Name: "lvl", T: &gen.Type{T: et}}, {ID: 3, Name: "num", T: &gen.Type{T: tref.I32}},
				{ID: 4, Name: "direct", T: &gen.Type{T: tref.STRING}}, {ID: 5, Name: "lit", T: &gen.Type{T: et}}, {ID: 6, Name: "ratio", T: &gen.Type{T: tref.DOUBLE}},
				{ID: 7, Name: "flag", T: &gen.Type{T: tref.BOOL}}, {ID: 8, Name: "plain", T: &gen.Type{T: tref.I64}}, {ID: 9, Name: "sub", T: &gen.Type{T: tref.STRUCT, S: subT}}}
			jv, perr := ParseJSON(jout)
			if perr != nil {
				cs.Viol("req:included-defaults:t2j:malformed", "out", string(jout))
			} else if got, cerr := jsonToVal(jv, structType(dT)); cerr != nil || !tref.EqualUnordered(got, want) {
				cs.Viol("req:included-defaults:t2j:values", "out", string(jout), "want", want.String(), "err", cerr)
			}
		}
		cs.Cover("included_default_cases")
		cs.Distinct(fmt.Sprintf("incdef-%d", cs.I&7))
	})
}

func presenceKey(v *tref.Val, t *gen.Type) string {
	s := ""
	for _, fd := range t.S.Fields {
		c := "a"
		if v.FieldByID(fd.ID) != nil {
			c = "p"
		}
		s += fmt.Sprintf("%d%s", fd.Req, c)
	}
	if len(s) > 16 {
		s = s[:16]
	}
	return s
}

// normStrMapKeys: t2j output maps come back string-keyed; expected maps in this schema are string-keyed too.
func normStrMapKeys(v *tref.Val) *tref.Val { return v }

// c16ExpectMarshalTo: present fields unchanged; absent required -> error unless NotCheckRequireNess;
// absent default-requiredness -> written iff WriteDefault && !NotCheckRequireNess (zero or IDL default).
func c16ExpectMarshalTo(v *tref.Val, t *gen.Type, g *generic.Options, o c16Opts) (*tref.Val, string) {
	out := &tref.Val{T: tref.STRUCT}
	present := map[int16]bool{}
	for _, f := range v.Fs {
		fd := t.S.Field(f.ID)
		if fd == nil {
			continue
		}
		present[f.ID] = true
		ev := f.V
		switch {
		case f.V.T == tref.STRUCT:
			var cls string
			ev, cls = c16ExpectMarshalTo(f.V, fd.T, g, o)
			if cls != "" {
				return nil, cls
			}
		case (f.V.T == tref.LIST || f.V.T == tref.MAP) && fd.T.Elem.T == tref.STRUCT:
			ev = &tref.Val{T: f.V.T, ET: f.V.ET, KT: f.V.KT, K: f.V.K}
			for _, e := range f.V.L {
				x, cls := c16ExpectMarshalTo(e, fd.T.Elem, g, o)
				if cls != "" {
					return nil, cls
				}
				ev.L = append(ev.L, x)
			}
		}
		out.Fs = append(out.Fs, tref.Field{ID: f.ID, V: ev})
	}
	if !g.NotCheckRequireNess {
		for _, fd := range t.S.Fields {
			if present[fd.ID] {
				continue
			}
			if fd.Req == gen.ReqRequired {
				return nil, "miss-required"
			}
			if fd.Req == gen.ReqDefault && g.WriteDefault {
				out.Fs = append(out.Fs, tref.Field{ID: fd.ID, V: zeroOf(fd.T)})
			}
		}
	}
	return out, ""
}

// c16MarshalToOK checks dec against the rules; optional absent fields under SetOptionalBitmap are unasserted,
// filled values may be the zero value or the IDL default.
func c16MarshalToOK(dec, v *tref.Val, t *gen.Type, g *generic.Options, o c16Opts) bool {
	if dec.T != tref.STRUCT {
		return false
	}
	seen := map[int16]bool{}
	for _, df := range dec.Fs {
		fd := t.S.Field(df.ID)
		if fd == nil || seen[df.ID] {
			return false
		}
		seen[df.ID] = true
		if pv := v.FieldByID(df.ID); pv != nil {
			switch {
			case pv.T == tref.STRUCT:
				if !c16MarshalToOK(df.V, pv, fd.T, g, o) {
					return false
				}
			case (pv.T == tref.LIST || pv.T == tref.MAP) && fd.T.Elem.T == tref.STRUCT:
				if df.V.T != pv.T || len(df.V.L) != len(pv.L) {
					return false
				}
				for i := range pv.L {
					if pv.T == tref.MAP && !tref.Equal(df.V.K[i], pv.K[i]) {
						return false
					}
					if !c16MarshalToOK(df.V.L[i], pv.L[i], fd.T.Elem, g, o) {
						return false
					}
				}
			default:
				if !tref.Equal(df.V, pv) {
					return false
				}
			}
			continue
		}
		// a filled field
		switch fd.Req {
		case gen.ReqDefault:
			if !g.WriteDefault || g.NotCheckRequireNess {
				return false
			}
		case gen.ReqOptional:
			if !o.SB {
				return false
			}
		case gen.ReqRequired:
			return false
		}
		if !tref.Equal(df.V, zeroOf(fd.T)) && !(fd.Default != nil && tref.Equal(df.V, fd.Default)) {
			return false
		}
	}
	for _, f := range v.Fs {
		if t.S.Field(f.ID) != nil && !seen[f.ID] {
			return false // a present field was dropped
		}
	}
	if !g.NotCheckRequireNess && g.WriteDefault {
		for _, fd := range t.S.Fields {
			if fd.Req == gen.ReqDefault && !seen[fd.ID] {
				return false
			}
		}
	}
	return true
}
