package props

import (
	"bytes"
	"context"
	"encoding/base64"
	"encoding/json"
	"fmt"
	dhttp "github.com/cloudwego/dynamicgo/http"
	"math"
	stdhttp "net/http"
	"sort"
	"strconv"
	"strings"
	"unicode/utf8"

	"github.com/cloudwego/dynamicgo/conv"
	"github.com/cloudwego/dynamicgo/conv/j2t"
	"github.com/cloudwego/dynamicgo/thrift"
	"github.com/cloudwego/dynamicgo/thrift/annotation"
	"github.com/cloudwego/dynamicgo/verifbridge"

	"verifharness/gen"
	"verifharness/h"
	"verifharness/tref"
)

func init() { h.Register("C18", runC18) }

func runC18(c *h.Ctx) {
	c.Note("native_flavour_bound", verifbridge.NativeFlavour())
	c.Note("portable", verifbridge.Portable)
	c.Cover("flavour_bound_" + verifbridge.NativeFlavour())

	// ---- (a0) DoInto with a caller's buffer that already holds bytes and has less free room than the document is
	// long (every flavour has to move to a larger buffer): same bytes behind the prefix, and no flavour stores
	// behind the capacity of the caller's buffer (canary region behind cap)
	var preDesc *thrift.TypeDescriptor
	c.Run("j2t-prefilled-join", c.N(600, 12000), func(cs *h.Case) {
		if preDesc == nil {
			svc, err := thrift.NewDescritorFromContent(context.Background(), "pre.thrift", "namespace go verif\nstruct S { 1: string A, 6: binary F, 7: list<i32> L }\nservice Svc { S M(1: S req) }\n", nil, false)
			if err != nil {
				cs.Viol("flavour:parse-idl", "err", err)
				return
			}
			preDesc, _ = RootOf(svc, "M")
		}
		blob := cs.R.Bytes([]int{0, 5, 100, 700, 1500, 4000}[cs.R.Intn(6)] + cs.R.Intn(30))
		doc := fmt.Sprintf(`{"A":"%s","F":"%s","L":[%d]}`, strings.Repeat("a", cs.R.Intn(20)), base64.StdEncoding.EncodeToString(blob), cs.R.Intn(100))
		prefix := []int{1, 16, 300, 2600, 4000, 9000}[cs.R.Intn(6)] + cs.R.Intn(8)
		capN := prefix + cs.R.Intn(len(doc)) // free room < len(doc)
		if cs.R.Chance(30) {
			capN = prefix + cs.R.Intn(5)
		}
		const canaryLen = 16 << 10
		tr := h.TrapCopy(make([]byte, capN+canaryLen), false, false)
		defer tr.Free()
		for i := range tr.B {
			tr.B[i] = 0xa5
		}
		buf := tr.B[0:prefix:capN]
		cv := j2t.NewBinaryConv(conv.Options{})
		err := cv.DoInto(context.Background(), preDesc, []byte(doc), &buf)
		behind := 0
		for i := capN; i < len(tr.B); i++ {
			if tr.B[i] != 0xa5 {
				behind++
			}
		}
		cs.Info("shape", fmt.Sprintf("doc=%d blob=%d prefix=%d cap=%d", len(doc), len(blob), prefix, capN))
		if behind > 0 {
			cs.Viol("flavour:j2t-prefilled:stored-behind-capacity", "bytes", behind)
			return
		}
		res := fmt.Sprintf("err=%v", err != nil)
		if err == nil {
			if len(buf) < prefix || bytes.Count(buf[:prefix], []byte{0xa5}) != prefix {
				cs.Viol("flavour:j2t-prefilled:prefix-clobbered", "prefix", prefix)
				return
			}
			res += " out=" + h.Sha(buf[prefix:])
		}
		cs.Res("j2t-prefilled", res)
		cs.Cover("j2t_prefilled_cases")
	})

	// ---- (a00) agw.body_dynamic (a value mapping handled by a Go callback of the native converter, inline by the
	// portable one): the raw JSON text of the member - whatever its kind, null included - is the string's bytes
	var dynDesc *thrift.TypeDescriptor
	c.Run("j2t-body-dynamic-join", c.N(800, 20000), func(cs *h.Case) {
		if dynDesc == nil {
			annotation.InitAGWAnnos()
			svc, err := thrift.NewDescritorFromContent(context.Background(), "dyn.thrift", "namespace go verif\nstruct S { 1: string dyn (agw.body_dynamic=\"\"), 2: i32 n, 3: optional string dyn2 (agw.body_dynamic=\"\"), 4: string plain }\nservice Svc { S M(1: S req) }\n", nil, false)
			if err != nil {
				cs.Viol("flavour:parse-idl", "err", err)
				return
			}
			dynDesc, _ = RootOf(svc, "M")
		}
		var val func(d int) string
		val = func(d int) string {
			switch k := cs.R.Intn(9); {
			case k == 0:
				return "null"
			case k == 1:
				return []string{"true", "false"}[cs.R.Intn(2)]
			case k == 2:
				return strconv.Itoa(cs.R.Intn(100000) - 50000)
			case k == 3:
				return []string{"1.5", "-0.25e3", "1E+2", "0"}[cs.R.Intn(4)]
			case k == 4 || d > 2:
				return []string{`"text"`, `""`, `"q\"uote"`, `"\u00e9\n"`, `"null"`}[cs.R.Intn(5)]
			case k <= 6:
				var xs []string
				for i := cs.R.Intn(3); i > 0; i-- {
					xs = append(xs, val(d+1))
				}
				return "[" + strings.Join(xs, ",") + "]"
			default:
				var xs []string
				for i := cs.R.Intn(3); i > 0; i-- {
					xs = append(xs, fmt.Sprintf(`"k%d":%s`, i, val(d+1)))
				}
				return "{" + strings.Join(xs, ",") + "}"
			}
		}
		v1, v3 := val(0), val(0)
		with3 := cs.R.Bool()
		n := cs.R.Intn(1000)
		doc := fmt.Sprintf(`{"dyn":%s,"n":%d`, v1, n)
		if with3 {
			doc += `,"dyn2":` + v3
		}
		doc += `,"plain":"p"}`
		cs.Info("doc", doc)
		cv := j2t.NewBinaryConv(conv.Options{EnableValueMapping: true})
		out, err := cv.Do(context.Background(), dynDesc, []byte(doc))
		res := fmt.Sprintf("err=%v", err != nil)
		if err == nil {
			res += " out=" + h.Sha(out)
			want := tref.Struct(tref.Field{ID: 1, V: tref.Str(v1)}, tref.Field{ID: 2, V: tref.Int32(int32(n))})
			if with3 {
				want.Fs = append(want.Fs, tref.Field{ID: 3, V: tref.Str(v3)})
			}
			want.Fs = append(want.Fs, tref.Field{ID: 4, V: tref.Str("p")})
			if got, derr := tref.Decode(out, tref.STRUCT); derr != nil || !tref.Equal(got, want) {
				cs.Viol("flavour:j2t-body-dynamic:wrong-bytes", "out", out, "want", want.String())
				return
			}
		} else {
			cs.Viol("flavour:j2t-body-dynamic:error-on-conforming", "err", err)
			return
		}
		cs.Res("j2t-body-dynamic", res)
		cs.Cover("j2t_body_dynamic_cases")
	})

	// ---- (a000) many http-mapped structs in one document: the native converter hands control to Go once per JSON
	// object whose struct has an http-mapped field, so the number of hand-backs grows with the width of the
	// document (thousands of list elements) - every flavour converts them all
	var wideDesc *thrift.TypeDescriptor
	c.Run("j2t-http-wide-join", c.N(12, 48), func(cs *h.Case) {
		if wideDesc == nil {
			svc, err := thrift.NewDescritorFromContent(context.Background(), "hw.thrift", "namespace go verif\nstruct E { 1: string h (api.header=\"X-H\"), 2: i32 n }\nstruct R { 1: list<E> es, 2: string tail }\nservice Svc { R M(1: R req) }\n", nil, false)
			if err != nil {
				cs.Viol("flavour:parse-idl", "err", err)
				return
			}
			wideDesc, _ = RootOf(svc, "M")
		}
		n := []int{100, 4095, 4096, 4097, 5000, 9000}[cs.I%6]
		var sb strings.Builder
		sb.WriteString(`{"es":[`)
		want := tref.Struct()
		l := &tref.Val{T: tref.LIST, ET: tref.STRUCT}
		for i := 0; i < n; i++ {
			if i > 0 {
				sb.WriteByte(',')
			}
			fmt.Fprintf(&sb, `{"n":%d}`, i)
			l.L = append(l.L, tref.Struct(tref.Field{ID: 1, V: tref.Str("hv")}, tref.Field{ID: 2, V: tref.Int32(int32(i))}))
		}
		sb.WriteString(`],"tail":"t"}`)
		want.Fs = append(want.Fs, tref.Field{ID: 1, V: l}, tref.Field{ID: 2, V: tref.Str("t")})
		sr, _ := stdhttp.NewRequest("POST", "http://verif.example/w", bytes.NewReader([]byte(sb.String())))
		sr.Header.Set("Content-Type", "application/json")
		sr.Header.Set("X-H", "hv")
		req, err := dhttp.NewHTTPRequestFromStdReq(sr)
		if err != nil {
			cs.Viol("flavour:request-build", "err", err)
			return
		}
		cs.Info("elements", n)
		ctx := context.WithValue(context.Background(), conv.CtxKeyHTTPRequest, req)
		cv := j2t.NewBinaryConv(conv.Options{EnableHttpMapping: true})
		out, err := cv.Do(ctx, wideDesc, []byte(sb.String()))
		if err != nil {
			cs.Viol("flavour:j2t-http-wide:error-on-conforming", "err", err, "elements", n)
			return
		}
		if got, derr := tref.Decode(out, tref.STRUCT); derr != nil || !tref.EqualUnordered(got, want) {
			cs.Viol("flavour:j2t-http-wide:wrong-bytes", "elements", n, "decode-error", derr)
			return
		}
		cs.Res("j2t-http-wide", "ok:"+h.Sha(out))
		cs.Cover("j2t_http_wide_cases")
	})

	// ---- (a') api.js_conv value mapping in every flavour (the inline native writer vs the Go fallback)
	c.Run("j2t-jsconv-join", c.N(1500, 40000), func(cs *h.Case) {
		k := jsConvCase(cs)
		if k == nil {
			return
		}
		cs.Info("idl", k.sc.IDL())
		cs.Info("doc", k.doc)
		cv := j2t.NewBinaryConv(conv.Options{EnableValueMapping: true})
		out, err := cv.Do(context.Background(), k.desc, []byte(k.doc))
		res := "rejected"
		if err == nil {
			res = "ok:" + fmt.Sprintf("%x", out)
		}
		kind := "j2t-jsconv"
		if k.mappedI16 {
			kind = "j2t-jsconv-i16" // subject of the known finding C02-K2 / C18-K1
		}
		cs.Res(kind, res)
		cs.Cover("j2t_jsconv_join_cases")
		cs.Distinct(fmt.Sprintf("jj-%v-%s", k.mappedI16, shapeKey(k.want)[:min(len(shapeKey(k.want)), 14)]))
	})

	// ---- (a'') hard double spellings (exact expansions, ties, near-ties) in every flavour
	var dblDesc *thrift.TypeDescriptor
	c.Run("j2t-double-join", c.N(1000, 30000), func(cs *h.Case) {
		if dblDesc == nil {
			st := &gen.StructT{Name: "Dbl", Fields: []*gen.FieldT{
				{ID: 1, Name: "d", T: &gen.Type{T: tref.DOUBLE}},
				{ID: 2, Name: "l", T: &gen.Type{T: tref.LIST, Elem: &gen.Type{T: tref.DOUBLE}}},
			}}
			d, _, err := ParseRoot(&gen.Schema{Structs: []*gen.StructT{st}, Root: st}, thrift.NewDefaultOptions())
			if err != nil {
				cs.Viol("flavour:parse-idl", "err", err)
				return
			}
			dblDesc = d
		}
		doc, _, ok := doubleSpellingCase(cs)
		if !ok {
			return
		}
		cs.Info("doc", trunc(doc))
		cv := j2t.NewBinaryConv(conv.Options{})
		out, err := cv.Do(context.Background(), dblDesc, []byte(doc))
		res := "rejected"
		if err == nil {
			res = "ok:" + fmt.Sprintf("%x", out)
		}
		cs.Res("j2t-double", res)
		cs.Cover("j2t_double_join_cases")
		cs.Distinct(fmt.Sprintf("jd-%d", cs.I))
	})

	// ---- (a3) non-struct root descriptors: the value document and the same document cut inside its value
	c.Run("j2t-root-join", c.N(1500, 40000), func(cs *h.Case) {
		rc, ok := rootValueCase(cs)
		if !ok {
			return
		}
		cs.Info("idl", rc.idl)
		cs.Info("root-type", rc.t.String())
		for i, doc := range []string{rc.full, rc.bad} {
			if doc == "" {
				continue
			}
			cs.Info("doc", trunc(doc))
			cv := j2t.NewBinaryConv(rc.o)
			out, err := cv.Do(context.Background(), rc.td, []byte(doc))
			res := "rejected"
			if err == nil {
				res = "ok:" + fmt.Sprintf("%x", out)
			}
			kind := "j2t-root"
			if i == 1 {
				kind = "j2t-root-cut"
				if rc.t.T == tref.STRING && (len(doc)-1)%32 == 0 {
					kind = "j2t-root-cut-whole-vectors" // see C02-K3: the native scanners accept these
				}
			}
			cs.Res(kind, res)
		}
		cs.Cover("j2t_root_join_cases")
		cs.Distinct(fmt.Sprintf("jr-%s-%d", tref.TypeName(rc.t.T), len(rc.full)/4))
	})

	// ---- (a) the same j2t case list in every flavour: results are joined by the driver ------------
	c.Run("j2t-join", c.N(4000, 120000), func(cs *h.Case) {
		cc, ok := c02Make(cs)
		if !ok {
			return
		}
		negative := cs.R.Chance(25)
		if negative {
			cc.opts.String2Int64 = false
			cc.opts.EnableValueMapping = false
			doc := c02FlipKind(cs, cc)
			if doc == "" {
				negative = false
			} else {
				cc.doc = doc
			}
		}
		// a third of the conforming cases also switch on write options (absent fields get filled): these are judged by the
		// join alone (C16 holds the absolute table)
		wopts := false
		if !negative && cs.R.Chance(33) {
			x := 1 + cs.R.Intn(7)
			cc.opts.WriteRequireField, cc.opts.WriteDefaultField, cc.opts.WriteOptionalField = x&1 != 0, x&2 != 0, x&4 != 0
			wopts = true
		}
		cs.Info("idl", cc.idl)
		cs.Info("doc", cc.doc)
		cs.Info("opts", fmt.Sprintf("%+v", cc.opts))
		cv := newJ2T(cs, cc.opts)
		out, err := cv.Do(context.Background(), cc.desc, []byte(cc.doc))
		res := ""
		switch {
		case err != nil:
			res = "rejected"
		default:
			res = "ok:" + fmt.Sprintf("%x", out)
			if len(out) > 600 {
				res = "ok:sha:" + h.Sha(out)
			}
		}
		if wopts {
			cs.Res("j2t-write-options", res)
			cs.Cover("j2t_join_cases_with_write_options")
			return
		}
		kind := "j2t"
		if negative {
			kind = "j2t-negative"
			// every flavour must reject a kind contradiction
			if err == nil {
				cs.Viol("flavour:j2t-negative:accepted", "out", out)
			}
		} else if err == nil && !bytes.Equal(out, cc.want) {
			// the absolute oracle of C02, so that the deviating build is named even when all builds agree
			if d, derr := tref.Decode(out, tref.STRUCT); derr != nil || !equalModNegZero(d, cc.model) {
				cs.Viol("flavour:j2t:wrong-bytes", "got", out, "want", cc.want)
			} else {
				cs.Cover("neg_zero_sign_lost_in_this_flavour")
			}
		} else if err != nil {
			cs.Viol("flavour:j2t:error-on-conforming", "err", err)
		}
		cs.Res(kind, res)
		cs.Cover("j2t_join_cases")
		cs.Distinct(fmt.Sprintf("j-%v-%s", negative, shapeKey(cc.model)[:min(len(shapeKey(cc.model)), 20)]))
		if cs.I == 1 {
			cs.Sample(map[string]interface{}{"phase": "j2t-join", "doc": cc.doc, "result": res})
		}
	})

	// ---- (a4) documents with null and unknown members (nested objects/arrays, strings ending in escapes): the value
	// skipper of every flavour
	c.Run("j2t-unknown-join", c.N(2000, 60000), func(cs *h.Case) {
		cc, hasUnknown, _ := c02NullUnknownCase(cs)
		if cc == nil {
			return
		}
		cs.Info("idl", cc.idl)
		cs.Info("doc", cc.doc)
		cs.Info("opts", fmt.Sprintf("%+v", cc.opts))
		cv := newJ2T(cs, cc.opts)
		out, err := cv.Do(context.Background(), cc.desc, []byte(cc.doc))
		res := "rejected"
		if err == nil {
			res = "ok:" + fmt.Sprintf("%x", out)
			if len(out) > 600 {
				res = "ok:sha:" + h.Sha(out)
			}
		}
		switch {
		case cc.wantErr != "":
			if err == nil {
				cs.Viol("flavour:j2t-unknown:accepted-under-disallow", "out", out)
			}
		case err != nil:
			cs.Viol("flavour:j2t-unknown:error-on-conforming", "err", err)
		case !bytes.Equal(out, cc.want):
			if d, derr := tref.Decode(out, tref.STRUCT); derr != nil || !equalModNegZero(d, cc.model) {
				cs.Viol("flavour:j2t-unknown:wrong-bytes", "got", out, "want", cc.want)
			}
		}
		cs.Res("j2t-unknown", res)
		cs.Cover("j2t_unknown_join_cases")
		if hasUnknown {
			cs.Cover("j2t_unknown_join_with_unknown_members")
		}
		cs.Distinct(fmt.Sprintf("ju-%v-%s", hasUnknown, shapeKey(cc.model)[:min(len(shapeKey(cc.model)), 18)]))
	})

	// ---- (a5) http-mapped requests, preceded in half of the cases by a failing conversion (missing required source,
	// with body fallback): the pooled native state must not leak into the next call of any flavour
	var httpDesc *thrift.TypeDescriptor
	c.Run("j2t-http-join", c.N(1500, 40000), func(cs *h.Case) {
		if httpDesc == nil {
			hs, err := thrift.NewDescritorFromContent(context.Background(), "h.thrift", c12HTTPIDL, nil, false)
			if err != nil {
				cs.Viol("flavour:parse-idl", "err", err)
				return
			}
			if httpDesc, err = RootOf(hs, "M"); err != nil {
				cs.Viol("flavour:parse-idl", "err", err)
				return
			}
		}
		mk := func(q, rq string, hdr int, cookie string, body string) *dhttp.HTTPRequest {
			u := "http://verif.example/p"
			if q != "" {
				u += "?q=" + q + "&rq=" + rq
			}
			sr, _ := stdhttp.NewRequest("POST", u, bytes.NewReader([]byte(body)))
			sr.Header.Set("X-H", strconv.Itoa(hdr))
			sr.Header.Set("Content-Type", "application/json")
			sr.AddCookie(&stdhttp.Cookie{Name: "c", Value: cookie})
			r, _ := dhttp.NewHTTPRequestFromStdReq(sr)
			return r
		}
		q, cookie, dflt := c17Word(cs.R, false), c17Word(cs.R, false), c17Word(cs.R, false)
		rq, hdr, plain := cs.R.Intn(100000), cs.R.Intn(100000), int64(cs.R.Intn(1<<40))
		body := fmt.Sprintf(`{"Plain":%d,"Dflt":%s}`, plain, jsonQuote(dflt))
		failFirst := cs.R.Bool()
		if failFirst {
			// no query: the required fields Q and RQ have no source and are not in the body
			o := conv.Options{EnableHttpMapping: true, ReadHttpValueFallback: true, TracebackRequredOrRootFields: cs.R.Bool()}
			cv := j2t.NewBinaryConv(o)
			ctx := context.WithValue(context.Background(), conv.CtxKeyHTTPRequest, mk("", "", hdr, cookie, body))
			if _, err := cv.Do(ctx, httpDesc, []byte(body)); err != nil {
				cs.Cover("j2t_http_join_failing_call_first")
			}
		}
		o := conv.Options{EnableHttpMapping: true, WriteDefaultField: cs.R.Bool()}
		cv := j2t.NewBinaryConv(o)
		ctx := context.WithValue(context.Background(), conv.CtxKeyHTTPRequest, mk(q, strconv.Itoa(rq), hdr, cookie, body))
		out, err := cv.Do(ctx, httpDesc, []byte(body))
		want := tref.Struct(tref.Field{ID: 1, V: tref.Str(q)}, tref.Field{ID: 2, V: tref.Int32(int32(hdr))}, tref.Field{ID: 3, V: tref.Str(cookie)},
			tref.Field{ID: 4, V: tref.Int64(plain)}, tref.Field{ID: 5, V: tref.Str(dflt)}, tref.Field{ID: 6, V: tref.Int32(int32(rq))})
		res := "rejected"
		if err != nil {
			cs.Viol("flavour:j2t-http:error-on-conforming", "err", err, "after-failing-call", failFirst)
		} else if got, derr := tref.Decode(out, tref.STRUCT); derr != nil {
			cs.Viol("flavour:j2t-http:malformed", "out", out, "after-failing-call", failFirst)
			res = "malformed"
		} else {
			if !tref.EqualUnordered(got, want) {
				cs.Viol("flavour:j2t-http:wrong-value", "got", got.String(), "want", want.String(), "after-failing-call", failFirst)
			}
			sort.Slice(got.Fs, func(i, j int) bool { return got.Fs[i].ID < got.Fs[j].ID })
			res = "ok:" + got.String()
		}
		cs.Res("j2t-http", res)
		cs.Cover("j2t_http_join_cases")
		cs.Distinct(fmt.Sprintf("jh-%v-%d", failFirst, cs.I%200))
	})

	// ---- (b) SkipGo vs SkipNative --------------------------------------------------------------------
	c.Run("skip", c.N(1500, 60000), func(cs *h.Case) {
		sc := gen.GenSchema(cs.R, gen.Cfg{MaxDepth: 3, MaxFields: 6, StructKeys: true, BigIDs: true, Typedefs: true})
		v := gen.GenVal(cs.R, structType(sc.Root), gen.ValCfg{NonFinite: true, InvalidUTF8: true, ShuffleFlds: true}, 0)
		b := tref.Encode(v)
		var nodes []*tref.Val
		tref.Walk(v, func(n *tref.Val, d int) { nodes = append(nodes, n) })
		cs.Info("bytes", hexs(b))
		for ni, n := range nodes {
			if ni > 40 {
				break
			}
			// whole, and truncated at a random point (both must fail or both consume the same)
			for _, cut := range []int{n.End, n.Start + cs.R.Intn(n.End-n.Start+1)} {
				// the value alone (cursor 0), or in place inside the message (cursor at its start)
				sub, start := b[n.Start:cut], 0
				if cs.R.Bool() {
					sub, start = b[:cut], n.Start
				}
				tr := h.TrapCopy(sub, true, true)
				p1 := &thrift.BinaryProtocol{Buf: tr.B, Read: start}
				e1 := p1.SkipGo(thrift.Type(n.T), thrift.MaxSkipDepth)
				p2 := &thrift.BinaryProtocol{Buf: tr.B, Read: start}
				e2 := p2.SkipNative(thrift.Type(n.T), thrift.MaxSkipDepth)
				tr.Free()
				if (e1 == nil) != (e2 == nil) || (e1 == nil && p1.Read != p2.Read) {
					cs.Viol("flavour:skip:go-vs-native:"+tref.TypeName(n.T), "go-err", e1, "native-err", e2, "go-read", p1.Read, "native-read", p2.Read, "cut", cut-n.Start, "full", n.End-n.Start, "cursor", start)
				}
				if cut == n.End && (e1 != nil || p1.Read-start != n.End-n.Start) {
					cs.Viol("flavour:skip:wrong-length:"+tref.TypeName(n.T), "err", e1, "read", p1.Read-start, "want", n.End-n.Start, "cursor", start)
				}
				if start > 0 {
					cs.Cover("skip_pairs_from_nonzero_cursor")
				}
				cs.Cover("skip_pairs")
			}
			cs.Distinct(fmt.Sprintf("sk-%s-%s-%s", tref.TypeName(n.T), tref.TypeName(n.KT), tref.TypeName(n.ET)))
		}
	})

	// ---- (c) scalar text encoders vs the standard library ---------------------------------------------
	c.Run("itoa", c.N(300, 20000), func(cs *h.Case) {
		check := func(v int64) {
			got := string(verifbridge.EncodeInt64(nil, v))
			if got != strconv.FormatInt(v, 10) {
				cs.Viol("flavour:i64toa", "value", v, "got", got)
			}
		}
		if cs.I < 64 {
			b := int64(1) << uint(cs.I)
			for d := int64(-2); d <= 2; d++ {
				check(b + d)
				check(-(b + d))
			}
			p := int64(1)
			for k := 0; k < 19; k++ {
				check(p - 1)
				check(p)
				check(p + 1)
				check(-p)
				check(-p + 1)
				p *= 10
			}
			check(math.MaxInt64)
			check(math.MinInt64)
		}
		for k := 0; k < 400; k++ {
			check(gen.GenInt(cs.R, tref.I64))
			check(int64(cs.R.U64()))
		}
		cs.CoverN("i64toa_values", 800)
		cs.Distinct(fmt.Sprintf("itoa-%d", cs.I))
	})

	c.Run("ftoa", c.N(600, 40000), func(cs *h.Case) {
		check := func(f float64) {
			if math.IsNaN(f) || math.IsInf(f, 0) {
				return
			}
			got := string(verifbridge.EncodeFloat64(nil, f))
			back, err := strconv.ParseFloat(got, 64)
			if err != nil || math.Float64bits(back) != math.Float64bits(f) {
				cs.Viol("flavour:f64toa", "bits", fmt.Sprintf("0x%016x", math.Float64bits(f)), "got", got)
			}
			if !json.Valid([]byte(got)) {
				cs.Viol("flavour:f64toa:not-a-json-number", "bits", fmt.Sprintf("0x%016x", math.Float64bits(f)), "got", got)
			}
		}
		for k := 0; k < 40; k++ {
			idx := cs.I*40 + k
			if idx < 2047*4 {
				exp := uint64(idx / 4 % 2047)
				man := []uint64{0, 1, 0xfffffffffffff, cs.R.U64() & 0xfffffffffffff}[idx%4]
				check(math.Float64frombits(exp<<52 | man))
				check(math.Float64frombits(1<<63 | exp<<52 | man))
			} else {
				check(math.Float64frombits(cs.R.U64()))
				check(gen.GenDouble(cs.R, false))
			}
		}
		cs.CoverN("f64toa_values", 80)
		cs.Distinct(fmt.Sprintf("ftoa-%d", cs.I))
	})

	// strings: exhaustive over a 24-symbol alphabet up to length 3, then lengths around the lanes with an
	// escape at every position, on trap pages in both alignments
	alphabet := []string{"\"", "\\", "/", "\b", "\f", "\n", "\r", "\t", "\x00", "\x1f", "\x7f", " ", "a", "\u00e9", "\u4e2d", "\u2028", "\u2029", "\U0001f600", "\ufffd", "<", "&", "\u00a0", "\uffff", "\U0010ffff"}
	checkQuote := func(cs *h.Case, s string) {
		for _, endAligned := range []bool{true, false} {
			tr := h.TrapCopy([]byte(s), endAligned, true)
			in := string(tr.B) // copies; to keep the trap effective use the unsafe alias below
			_ = in
			got := verifbridge.EncodeString(make([]byte, 0, cs.R.Intn(8)), bytesToStringAlias(tr.B))
			var back string
			err := json.Unmarshal(got, &back)
			tr.Free()
			if err != nil || back != s {
				cs.Viol("flavour:quote", "input", []byte(s), "got", string(got), "err", err)
				return
			}
		}
		cs.Cover("quote_values")
	}
	n := len(alphabet)
	c.Run("quote-exhaustive", 1+n+n*n/8, func(cs *h.Case) {
		// case 0: length 0 and 1; cases 1..n: length 2 with first symbol fixed; rest: length 3 in blocks of 8 prefixes
		switch {
		case cs.I == 0:
			checkQuote(cs, "")
			for _, a := range alphabet {
				checkQuote(cs, a)
			}
		case cs.I <= n:
			for _, b := range alphabet {
				checkQuote(cs, alphabet[cs.I-1]+b)
			}
		default:
			blk := cs.I - n - 1
			for p := blk * 8; p < blk*8+8 && p < n*n; p++ {
				for _, c3 := range alphabet {
					checkQuote(cs, alphabet[p/n]+alphabet[p%n]+c3)
				}
			}
		}
		cs.Distinct(fmt.Sprintf("qx-%d", cs.I))
	})
	c.Run("quote-lengths", c.N(800, 20000), func(cs *h.Case) {
		lens := []int{}
		for l := 0; l <= 70; l++ {
			lens = append(lens, l)
		}
		for l := 4090; l <= 4100; l++ {
			lens = append(lens, l)
		}
		l := lens[cs.I%len(lens)]
		base := bytes.Repeat([]byte("x"), l)
		sym := alphabet[cs.R.Intn(len(alphabet))]
		if l > 0 {
			// an escape at position (cs.I / len(lens)) mod l, and also a sweep of all positions for short strings
			if l <= 70 {
				for pos := 0; pos+len(sym) <= l; pos++ {
					s := append([]byte{}, base...)
					copy(s[pos:], sym)
					if utf8.Valid(s) {
						checkQuote(cs, string(s))
					}
				}
			} else {
				pos := (cs.I / len(lens) * 7) % l
				if pos+len(sym) <= l {
					copy(base[pos:], sym)
				}
				if utf8.Valid(base) {
					checkQuote(cs, string(base))
				}
			}
		} else {
			checkQuote(cs, "")
		}
		cs.Distinct(fmt.Sprintf("ql-%d-%q", l, sym))
	})
}
