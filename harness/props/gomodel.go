package props

import (
	"bytes"
	"fmt"
	"math"
	"reflect"

	"github.com/cloudwego/dynamicgo/thrift"

	"verifharness/gen"
	"verifharness/tref"
)

// GoCfg selects the documented Go representation of a Thrift value.
type GoCfg struct {
	ByteAsUint8 bool // BYTE -> uint8, else int8
	StrAsBinary bool // (descriptor-free) STRING -> []byte
	FieldName   bool // (descriptor) struct -> map[string]interface{} keyed by alias
	IntAsInt    bool // all ints -> int (generic.Node.Interface mapping)
	StructByID  bool // struct -> map[thrift.FieldID] (else map[int]) for generic.Interface
	GenericNode bool // generic.Node.Interface() conventions
	TypedIntKey bool // int-keyed maps as map[int8|int16|int32|int64]interface{} (WriteAny input)
}

// ToGo builds the documented Go value for model v. t may be nil (descriptor-free).
func ToGo(v *tref.Val, t *gen.Type, c GoCfg) interface{} {
	switch v.T {
	case tref.BOOL:
		return v.B
	case tref.BYTE:
		if c.IntAsInt {
			return int(uint8(v.I)) // Node.Int() of a BYTE is unsigned (repo test TestCastInt8)
		}
		if c.ByteAsUint8 {
			return uint8(v.I)
		}
		return int8(v.I)
	case tref.I16:
		if c.IntAsInt {
			return int(v.I)
		}
		return int16(v.I)
	case tref.I32:
		if c.IntAsInt {
			return int(v.I)
		}
		return int32(v.I)
	case tref.I64:
		if c.IntAsInt {
			return int(v.I)
		}
		return v.I
	case tref.DOUBLE:
		return v.F
	case tref.STRING:
		bin := c.StrAsBinary
		if t != nil {
			bin = t.Bin
			if c.GenericNode {
				bin = c.StrAsBinary
			}
		}
		if bin {
			return append([]byte{}, v.S...)
		}
		return string(v.S)
	case tref.LIST, tref.SET:
		out := make([]interface{}, 0, len(v.L))
		var et *gen.Type
		if t != nil {
			et = t.Elem
		}
		for _, e := range v.L {
			out = append(out, ToGo(e, et, c))
		}
		return out
	case tref.MAP:
		var kt, et *gen.Type
		if t != nil {
			kt, et = t.Key, t.Elem
		}
		switch v.KT {
		case tref.STRING:
			m := make(map[string]interface{}, len(v.L))
			for i := range v.L {
				m[string(v.K[i].S)] = ToGo(v.L[i], et, c)
			}
			return m
		case tref.BYTE, tref.I16, tref.I32, tref.I64:
			if c.TypedIntKey {
				switch v.KT {
				case tref.BYTE:
					m := map[int8]interface{}{}
					for i := range v.L {
						m[int8(v.K[i].I)] = ToGo(v.L[i], et, c)
					}
					return m
				case tref.I16:
					m := map[int16]interface{}{}
					for i := range v.L {
						m[int16(v.K[i].I)] = ToGo(v.L[i], et, c)
					}
					return m
				case tref.I32:
					m := map[int32]interface{}{}
					for i := range v.L {
						m[int32(v.K[i].I)] = ToGo(v.L[i], et, c)
					}
					return m
				default:
					m := map[int64]interface{}{}
					for i := range v.L {
						m[v.K[i].I] = ToGo(v.L[i], et, c)
					}
					return m
				}
			}
			m := make(map[int]interface{}, len(v.L))
			for i := range v.L {
				m[int(v.K[i].I)] = ToGo(v.L[i], et, c)
			}
			return m
		default:
			m := make(map[interface{}]interface{}, len(v.L))
			for i := range v.L {
				k := ToGo(v.K[i], kt, c)
				switch x := k.(type) {
				case map[string]interface{}:
					m[&x] = ToGo(v.L[i], et, c)
				case map[int]interface{}:
					m[&x] = ToGo(v.L[i], et, c)
				case map[interface{}]interface{}:
					m[&x] = ToGo(v.L[i], et, c)
				case []interface{}:
					m[&x] = ToGo(v.L[i], et, c)
				case map[thrift.FieldID]interface{}:
					m[&x] = ToGo(v.L[i], et, c)
				default:
					m[k] = ToGo(v.L[i], et, c)
				}
			}
			return m
		}
	case tref.STRUCT:
		if c.FieldName && t != nil {
			m := make(map[string]interface{}, len(v.Fs))
			for _, f := range v.Fs {
				ft := t.S.Field(f.ID)
				if ft == nil {
					continue
				}
				key := ft.Name
				if ft.Alias != "" {
					key = ft.Alias
				}
				m[key] = ToGo(f.V, ft.T, c)
			}
			return m
		}
		if c.GenericNode && !c.StructByID {
			m := make(map[int]interface{}, len(v.Fs))
			for _, f := range v.Fs {
				var ft *gen.Type
				if t != nil {
					if fd := t.S.Field(f.ID); fd != nil {
						ft = fd.T
					}
				}
				m[int(uint16(f.ID))] = ToGo(f.V, ft, c)
			}
			return m
		}
		m := make(map[thrift.FieldID]interface{}, len(v.Fs))
		for _, f := range v.Fs {
			var ft *gen.Type
			if t != nil {
				fd := t.S.Field(f.ID)
				if fd == nil {
					continue // unknown field: skipped by descriptor-driven readers
				}
				ft = fd.T
			}
			m[thrift.FieldID(f.ID)] = ToGo(f.V, ft, c)
		}
		return m
	}
	panic(fmt.Sprintf("ToGo: type %d", v.T))
}

// GoEq compares documented Go values: floats by bit pattern, pointer-keyed
// maps by pointee, everything else structurally.
func GoEq(a, b interface{}) bool {
	if a == nil || b == nil {
		return a == nil && b == nil
	}
	switch x := a.(type) {
	case float64:
		y, ok := b.(float64)
		return ok && math.Float64bits(x) == math.Float64bits(y)
	case []byte:
		y, ok := b.([]byte)
		return ok && bytes.Equal(x, y)
	case []interface{}:
		y, ok := b.([]interface{})
		if !ok || len(x) != len(y) {
			return false
		}
		for i := range x {
			if !GoEq(x[i], y[i]) {
				return false
			}
		}
		return true
	case map[string]interface{}:
		y, ok := b.(map[string]interface{})
		if !ok || len(x) != len(y) {
			return false
		}
		for k, v := range x {
			w, ok := y[k]
			if !ok || !GoEq(v, w) {
				return false
			}
		}
		return true
	case map[int]interface{}:
		y, ok := b.(map[int]interface{})
		if !ok || len(x) != len(y) {
			return false
		}
		for k, v := range x {
			w, ok := y[k]
			if !ok || !GoEq(v, w) {
				return false
			}
		}
		return true
	case map[thrift.FieldID]interface{}:
		y, ok := b.(map[thrift.FieldID]interface{})
		if !ok || len(x) != len(y) {
			return false
		}
		for k, v := range x {
			w, ok := y[k]
			if !ok || !GoEq(v, w) {
				return false
			}
		}
		return true
	case map[interface{}]interface{}:
		y, ok := b.(map[interface{}]interface{})
		if !ok || len(x) != len(y) {
			return false
		}
		used := map[interface{}]bool{}
	outer:
		for k, v := range x {
			for k2, v2 := range y {
				if used[k2] {
					continue
				}
				if keyEq(k, k2) && GoEq(v, v2) {
					used[k2] = true
					continue outer
				}
			}
			return false
		}
		return true
	}
	ra, rb := reflect.ValueOf(a), reflect.ValueOf(b)
	if ra.Type() != rb.Type() {
		return false
	}
	if ra.Kind() == reflect.Ptr {
		return GoEq(ra.Elem().Interface(), rb.Elem().Interface())
	}
	return reflect.DeepEqual(a, b)
}

func keyEq(a, b interface{}) bool {
	ra, rb := reflect.ValueOf(a), reflect.ValueOf(b)
	if ra.Kind() == reflect.Ptr && rb.Kind() == reflect.Ptr {
		return GoEq(ra.Elem().Interface(), rb.Elem().Interface())
	}
	return GoEq(a, b)
}

// GoStr renders a Go value for witnesses (pointer keys dereferenced).
func GoStr(v interface{}) string {
	s := goStr(v, 0)
	if len(s) > 3000 {
		s = s[:3000] + "…"
	}
	return s
}

func goStr(v interface{}, d int) string {
	if v == nil {
		return "nil"
	}
	if d > 8 {
		return "…"
	}
	rv := reflect.ValueOf(v)
	switch rv.Kind() {
	case reflect.Ptr:
		if rv.IsNil() {
			return "nil"
		}
		return "&" + goStr(rv.Elem().Interface(), d+1)
	case reflect.Map:
		s := fmt.Sprintf("%s{", rv.Type())
		for i, k := range rv.MapKeys() {
			if i > 0 {
				s += ","
			}
			if i > 40 {
				s += "…"
				break
			}
			s += goStr(k.Interface(), d+1) + ":" + goStr(rv.MapIndex(k).Interface(), d+1)
		}
		return s + "}"
	case reflect.Slice:
		if b, ok := v.([]byte); ok {
			return fmt.Sprintf("[]byte(%q)", b)
		}
		s := "["
		for i := 0; i < rv.Len(); i++ {
			if i > 0 {
				s += ","
			}
			if i > 40 {
				s += "…"
				break
			}
			s += goStr(rv.Index(i).Interface(), d+1)
		}
		return s + "]"
	case reflect.Float64:
		f := rv.Float()
		return fmt.Sprintf("%v(0x%x)", f, math.Float64bits(f))
	case reflect.String:
		return fmt.Sprintf("%q", rv.String())
	}
	return fmt.Sprintf("%T(%v)", v, v)
}
