package props

import (
	"context"
	"fmt"
	"math"
	"sort"
	"strings"

	"github.com/cloudwego/dynamicgo/conv"
	"github.com/cloudwego/dynamicgo/conv/j2t"
	"github.com/cloudwego/dynamicgo/meta"
	"github.com/cloudwego/dynamicgo/thrift"
	"github.com/cloudwego/dynamicgo/thrift/annotation"

	"verifharness/gen"
	"verifharness/h"
	"verifharness/tref"
)

func init() { h.Register("C14", runC14) }

type c14Walk struct {
	cs      *h.Case
	o       thrift.Options
	seen    map[*thrift.StructDescriptor]*gen.TStruct
	structs int
	fields  int
	idLk    int
	keyLk   int
	natLk   int
	defs    int
	bad     bool
	foreign []string
	swept   map[*thrift.StructDescriptor]bool
}

func (w *c14Walk) viol(sig string, kv ...interface{}) {
	w.bad = true
	w.cs.Viol(sig, kv...)
}

func builtinThrift(kind string) thrift.Type {
	switch kind {
	case "bool":
		return thrift.BOOL
	case "byte", "i8":
		return thrift.BYTE
	case "i16":
		return thrift.I16
	case "i32":
		return thrift.I32
	case "i64":
		return thrift.I64
	case "double":
		return thrift.DOUBLE
	case "string", "binary":
		return thrift.STRING
	}
	return 0
}

func (w *c14Walk) typ(d *thrift.TypeDescriptor, t *gen.TType, path string) {
	if d == nil {
		w.viol("tdesc:type-nil", "path", path, "want", t.Kind)
		return
	}
	t = t.Resolved()
	switch t.Kind {
	case "enum":
		want := thrift.I32
		if w.o.ParseEnumAsInt64 {
			want = thrift.I64
		}
		if d.Type() != want {
			w.viol("tdesc:enum-type", "path", path, "got", d.Type().String(), "want", want.String())
		}
	case "list", "set":
		want := thrift.LIST
		if t.Kind == "set" {
			want = thrift.SET
		}
		if d.Type() != want {
			w.viol("tdesc:container-type", "path", path, "got", d.Type().String(), "want", want.String())
			return
		}
		w.typ(d.Elem(), t.Elem, path+"[]")
	case "map":
		if d.Type() != thrift.MAP {
			w.viol("tdesc:container-type", "path", path, "got", d.Type().String(), "want", "MAP")
			return
		}
		w.typ(d.Key(), t.Key, path+"{key}")
		w.typ(d.Elem(), t.Elem, path+"{}")
	case "struct":
		if d.Type() != thrift.STRUCT || d.Struct() == nil {
			w.viol("tdesc:struct-type", "path", path, "got", d.Type().String())
			return
		}
		w.strct(d.Struct(), t.S, path)
	default:
		if d.Type() != builtinThrift(t.Kind) {
			w.viol("tdesc:builtin-type", "path", path, "got", d.Type().String(), "want", t.Kind)
		}
		if d.IsBinary() != (t.Kind == "binary") {
			w.viol("tdesc:binary-flag", "path", path, "got", d.IsBinary(), "declared", t.Kind)
		}
	}
}

func wantReq(r int) thrift.Requireness {
	switch r {
	case gen.ReqRequired:
		return thrift.RequiredRequireness
	case gen.ReqOptional:
		return thrift.OptionalRequireness
	}
	return thrift.DefaultRequireness
}

// keysOf returns the lookup keys a field answers to under the parse options.
func (w *c14Walk) keysOf(f *gen.TField) []string {
	alias := f.Alias
	if alias == "" {
		alias = f.Name
	}
	switch w.o.MapFieldWay {
	case meta.MapFieldUseAlias:
		return []string{alias}
	case meta.MapFieldUseFieldName:
		return []string{f.Name}
	}
	if alias == f.Name {
		return []string{alias}
	}
	return []string{alias, f.Name}
}

func (w *c14Walk) defaultValue(fd *thrift.FieldDescriptor, f *gen.TField, p string) {
	dv := fd.DefaultValue()
	if !w.o.UseDefaultValue {
		if dv != nil {
			w.viol("tdesc:default-without-option", "path", p)
		}
		return
	}
	if f.DefVal == nil {
		if dv != nil && f.DefKind != "unsupported" {
			w.viol("tdesc:default-undeclared", "path", p, "json", dv.JSONValue())
		}
		return
	}
	w.defs++
	w.cs.Cover("default_" + f.DefKind)
	if dv == nil {
		w.viol("tdesc:default-missing:"+f.DefKind, "path", p, "declared", f.DefExpr)
		return
	}
	want := f.DefVal.Clone()
	if f.T.Resolved().Kind == "enum" {
		want.T = tref.I32
		if w.o.ParseEnumAsInt64 {
			want.T = tref.I64
		}
	} else if want.T != tref.STRING && want.T != tref.BOOL && want.T != tref.DOUBLE {
		want.T = gen.BuiltinT(f.T.Resolved().Kind) // constants of another width
	}
	got, err := tref.Decode([]byte(dv.ThriftBinary()), want.T)
	if err != nil || !tref.Equal(got, want) {
		w.viol("tdesc:default-thrift-value:"+f.DefKind, "path", p, "declared", f.DefExpr, "got", []byte(dv.ThriftBinary()), "want", want.String())
		return
	}
	// Go and JSON forms
	okGo := false
	switch want.T {
	case tref.BOOL:
		b, ok := dv.GoValue().(bool)
		okGo = ok && b == want.B && dv.JSONValue() == fmt.Sprint(want.B)
	case tref.DOUBLE:
		x, ok := dv.GoValue().(float64)
		okGo = ok && x == want.F
		if j, e := ParseJSON([]byte(dv.JSONValue())); e != nil || j.K != '#' {
			okGo = false
		}
	case tref.STRING:
		s, ok := dv.GoValue().(string)
		okGo = ok && s == string(want.S)
		if j, e := ParseJSON([]byte(dv.JSONValue())); e != nil || j.K != 's' || j.S != string(want.S) {
			okGo = false
		}
	default:
		x, ok := dv.GoValue().(int64)
		okGo = ok && x == want.I && dv.JSONValue() == fmt.Sprint(want.I)
	}
	if !okGo {
		w.viol("tdesc:default-go-json-value:"+f.DefKind, "path", p, "go", fmt.Sprintf("%T %v", dv.GoValue(), dv.GoValue()), "json", dv.JSONValue(), "want", want.String())
	}
}

func (w *c14Walk) strct(d *thrift.StructDescriptor, s *gen.TStruct, path string) {
	if prev, ok := w.seen[d]; ok {
		if prev != s {
			w.viol("tdesc:struct-identity", "path", path, "descriptor-first-seen-as", prev.File.Path+":"+prev.Name, "idl-names", s.File.Path+":"+s.Name)
		}
		return
	}
	w.seen[d] = s
	w.structs++
	if d.Name() != s.Name {
		w.viol("tdesc:struct-name", "path", path, "got", d.Name(), "want", s.Name)
	}
	if d.Len() != len(s.Fields) || len(d.Fields()) != len(s.Fields) {
		w.viol("tdesc:field-count", "path", path, "struct", s.File.Path+":"+s.Name, "got", d.Len(), "want", len(s.Fields))
	}
	declaredIDs := map[int]*gen.TField{}
	declaredKeys := map[string]*gen.TField{}
	for _, f := range s.Fields {
		declaredIDs[int(f.ID)] = f
		for _, k := range w.keysOf(f) {
			declaredKeys[k] = f
		}
	}
	bm := d.Requires()
	for _, f := range s.Fields {
		p := path + "." + f.Name
		fd := d.FieldById(thrift.FieldID(f.ID))
		if fd == nil {
			w.viol("tdesc:field-missing-by-id", "path", p, "id", int(f.ID))
			continue
		}
		w.fields++
		alias := f.Alias
		if alias == "" {
			alias = f.Name
		}
		if int(fd.ID()) != int(f.ID) || fd.Name() != f.Name || fd.Alias() != alias {
			w.viol("tdesc:field-identity", "path", p, "got", fmt.Sprintf("%d %s %q", fd.ID(), fd.Name(), fd.Alias()), "want", fmt.Sprintf("%d %s %q", f.ID, f.Name, alias))
		}
		if fd.Required() != wantReq(f.Req) {
			w.viol("tdesc:requiredness", "path", p, "got", int(fd.Required()), "want", int(wantReq(f.Req)))
		}
		// bitmap: required and default fields are marked; optional ones too under SetOptionalBitmap
		wantBit := f.Req != gen.ReqOptional || w.o.SetOptionalBitmap
		if int(f.ID)/64 >= len(bm) {
			if wantBit {
				w.viol("tdesc:requires-bitmap-short", "path", p, "words", len(bm))
			}
		} else if bm.IsSet(thrift.FieldID(f.ID)) != wantBit {
			w.viol("tdesc:requires-bitmap", "path", p, "got", bm.IsSet(thrift.FieldID(f.ID)), "want", wantBit)
		}
		for _, k := range w.keysOf(f) {
			if g := d.FieldByKey(k); g != fd {
				w.viol("tdesc:lookup-by-key", "path", p, "key", k, "got-nil", g == nil)
			}
		}
		w.defaultValue(fd, f, p)
		w.typ(fd.Type(), f.T, p)
	}
	// no bit for undeclared ids
	for wi, word := range bm {
		for b := 0; b < 64; b++ {
			if word&(1<<uint(b)) != 0 && declaredIDs[wi*64+b] == nil {
				w.viol("tdesc:requires-bitmap-extra-bit", "path", path, "id", wi*64+b)
			}
		}
	}
	// ---- id sweep: every id in 0..65535
	if !w.swept[d] {
		w.swept[d] = true
		for id := 0; id <= 65535; id++ {
			fd := d.FieldById(thrift.FieldID(id))
			f := declaredIDs[id]
			if (fd == nil) != (f == nil) {
				w.viol("tdesc:lookup-id-iff", "path", path, "id", id, "got-nil", fd == nil, "declared", f != nil)
				break
			}
			if fd != nil && int(fd.ID()) != id {
				w.viol("tdesc:lookup-id-other-field", "path", path, "id", id, "got", int(fd.ID()))
				break
			}
		}
		w.idLk += 65536
		// ---- key sweep
		var keys []string
		for k := range declaredKeys {
			keys = append(keys, k)
		}
		sort.Strings(keys)
		probe := []string{"", "f", "a", "ab", "abc", "abd", "abcd", "id", "iD", "name", "names", strings.Repeat("k", 300), strings.Repeat("a", 8), "\x00", "\xff\xfe", "-", " ", "é", "éé", "ééééééé", "\xc3"}
		for i, k := range keys {
			if len(keys) > 20 && i%4 != 0 {
				probe = append(probe, k+"a", k[:len(k)-1])
				continue
			}
			probe = append(probe, keyVariants(w.cs.R, k)...)
		}
		probe = append(probe, keys...)
		probe = append(probe, w.foreign...)
		// names hidden by the key mode must not resolve
		for _, f := range s.Fields {
			probe = append(probe, f.Name)
			if f.Alias != "" {
				probe = append(probe, f.Alias)
			}
		}
		for _, k := range probe {
			w.keyLk++
			fd := d.FieldByKey(k)
			f := declaredKeys[k]
			if (fd == nil) != (f == nil) {
				w.viol("tdesc:lookup-key-iff", "path", path, "key", k, "got-nil", fd == nil, "declared", f != nil, "mode", int(w.o.MapFieldWay))
			} else if fd != nil && int(fd.ID()) != int(f.ID) {
				w.viol("tdesc:lookup-key-other-field", "path", path, "key", k, "got", int(fd.ID()), "want", int(f.ID))
			}
		}
	}
}

// ---- native lookup observed through j2t -----------------------------------------------------------------

func c14JSONFor(t *gen.TType, w *c14Walk, depth int) string {
	t = t.Resolved()
	switch t.Kind {
	case "bool":
		return "true"
	case "byte", "i8", "i16", "i32", "i64", "enum":
		return "1"
	case "double":
		return "1.5"
	case "string":
		return `"s"`
	case "binary":
		return `"YQ=="`
	case "list", "set":
		return "[]"
	case "map":
		return "{}"
	}
	return c14JSONStruct(t.S, w, "", "", depth+1)
}

// c14JSONStruct renders an object holding the required fields of s plus one probe member.
func c14JSONStruct(s *gen.TStruct, w *c14Walk, probeKey, probeVal string, depth int) string {
	var ms []string
	if probeVal != "" {
		ms = append(ms, jsonQuote(probeKey)+":"+probeVal)
	}
	for _, f := range s.Fields {
		if f.Req != gen.ReqRequired {
			continue
		}
		k := w.keysOf(f)[0]
		if k == probeKey {
			continue
		}
		dup := false
		for _, k2 := range w.keysOf(f) {
			if k2 == probeKey {
				dup = true
			}
		}
		if dup {
			continue
		}
		ms = append(ms, jsonQuote(k)+":"+c14JSONFor(f.T, w, depth))
	}
	return "{" + strings.Join(ms, ",") + "}"
}

func jsonQuote(s string) string {
	var sb strings.Builder
	sb.WriteByte('"')
	for i := 0; i < len(s); i++ {
		c := s[i]
		switch {
		case c == '"' || c == '\\':
			sb.WriteByte('\\')
			sb.WriteByte(c)
		case c < 0x20:
			fmt.Fprintf(&sb, `\u%04x`, c)
		default:
			sb.WriteByte(c)
		}
	}
	sb.WriteByte('"')
	return sb.String()
}

func validUTF8NoCtl(s string) bool {
	for _, r := range s {
		if r == 0xfffd {
			return false
		}
	}
	return true
}

// nativeLookups converts single-probe documents with the struct as root: a key is accepted iff declared.
func (w *c14Walk) nativeLookups(td *thrift.TypeDescriptor, s *gen.TStruct, path string) {
	declared := map[string]*gen.TField{}
	var keys []string
	for _, f := range s.Fields {
		for _, k := range w.keysOf(f) {
			declared[k] = f
			keys = append(keys, k)
		}
	}
	sort.Strings(keys)
	probes := append([]string{}, keys...)
	probes = append(probes, "", "zz", "a", "ab", "abc", "abcd", strings.Repeat("k", 200), "é", "éé")
	for i, k := range keys {
		if len(keys) > 12 && i%5 != 0 {
			probes = append(probes, k+"b")
			continue
		}
		for _, v := range keyVariants(w.cs.R, k) {
			if validUTF8NoCtl(v) {
				probes = append(probes, v)
			}
		}
	}
	cv := j2t.NewBinaryConv(conv.Options{DisallowUnknownField: true})
	for _, k := range probes {
		f := declared[k]
		val := "1"
		if f != nil {
			val = c14JSONFor(f.T, w, 0)
		}
		doc := c14JSONStruct(s, w, k, val, 0)
		out, err := cv.Do(context.Background(), td, []byte(doc))
		w.natLk++
		if f == nil {
			if err == nil {
				w.viol("tdesc:native-lookup-accepts-undeclared-key", "path", path, "key", k, "doc", doc, "out", out)
			} else if !isErrCode(err, meta.ErrUnknownField) {
				w.viol("tdesc:native-lookup-undeclared-key-other-error", "path", path, "key", k, "doc", doc, "err", err)
			}
			continue
		}
		if err != nil {
			w.viol("tdesc:native-lookup-misses-declared-key", "path", path, "key", k, "doc", doc, "err", err)
			continue
		}
		got, derr := tref.Decode(out, tref.STRUCT)
		if derr != nil || got.FieldByID(f.ID) == nil {
			w.viol("tdesc:native-lookup-wrong-field", "path", path, "key", k, "doc", doc, "out", out, "want-id", int(f.ID))
		}
	}
}

// c14Base: thrift-base fields (Options.EnableThriftBase).  A field of type base.Base / base.BaseResp on the top
// layer of a function's root struct is flagged as request / response base and its bit in the requires bitmap is
// cleared (the base travels in the conversion context); everything else about it - id, name, type and the
// DECLARED requiredness - stays, and the same type one level down is an ordinary field.
func c14Base(c *h.Ctx) {
	c.Run("thrift-base", c.N(1200, 40000), func(cs *h.Case) {
		reqWord := []string{"", "required ", "optional "} // gen.ReqDefault, ReqRequired, ReqOptional
		reqOf := func(i int) int { return []int{gen.ReqDefault, gen.ReqRequired, gen.ReqOptional}[i] }
		type fld struct {
			id           int
			name, typ    string
			req          int
			reqBase      bool // expected to be flagged when EnableThriftBase
			respBase     bool
			structFields int
		}
		type st struct {
			name   string
			fields []fld
		}
		usedIDs := func() func() int {
			used := map[int]bool{}
			return func() int {
				for {
					id := 1 + cs.R.Intn(40)
					if cs.R.Chance(25) {
						id = []int{63, 64, 65, 127, 128, 255, 256, 1000, 32767}[cs.R.Intn(9)]
					}
					if !used[id] {
						used[id] = true
						return id
					}
				}
			}
		}
		plain := []string{"i32", "string", "i64", "bool", "list<string>", "map<string,i64>"}
		mk := func(name string, baseType string, withBase bool, nestedBase bool) st {
			next := usedIDs()
			out := st{name: name}
			n := cs.R.Intn(4)
			pos := cs.R.Intn(n + 1)
			for i := 0; i <= n; i++ {
				if i == pos && withBase {
					f := fld{id: next(), name: []string{"Base", "BaseResp", "b", "base_field"}[cs.R.Intn(4)], typ: "base." + baseType, req: reqOf(cs.R.Intn(3)), structFields: 6}
					if baseType == "BaseResp" {
						f.respBase, f.structFields = true, 3
					} else {
						f.reqBase = true
					}
					out.fields = append(out.fields, f)
				}
				if i < n {
					out.fields = append(out.fields, fld{id: next(), name: fmt.Sprintf("f%d", i), typ: plain[cs.R.Intn(len(plain))], req: reqOf(cs.R.Intn(3))})
				}
			}
			if nestedBase {
				out.fields = append(out.fields, fld{id: next(), name: "inner", typ: "Inner", req: reqOf(cs.R.Intn(3)), structFields: 2})
			}
			return out
		}
		inner := st{name: "Inner", fields: []fld{{id: 1 + cs.R.Intn(300), name: "nb", typ: "base.Base", req: reqOf(cs.R.Intn(3)), structFields: 6}, {id: 400, name: "nr", typ: "base.BaseResp", req: reqOf(cs.R.Intn(3)), structFields: 3}}}
		nf := 1 + cs.R.Intn(3)
		var structs []st
		type fn struct{ name, req, resp string }
		var fns []fn
		for k := 0; k < nf; k++ {
			rq := mk(fmt.Sprintf("Req%d", k), "Base", cs.R.Chance(80), cs.R.Chance(40))
			rs := mk(fmt.Sprintf("Resp%d", k), "BaseResp", cs.R.Chance(80), cs.R.Chance(40))
			structs = append(structs, rq, rs)
			fns = append(fns, fn{fmt.Sprintf("M%d", k), rq.name, rs.name})
		}
		var sb strings.Builder
		sb.WriteString("include \"base.thrift\"\nnamespace go verif\n\n")
		render := func(x st) {
			fmt.Fprintf(&sb, "struct %s {\n", x.name)
			for _, f := range x.fields {
				fmt.Fprintf(&sb, "  %d: %s%s %s,\n", f.id, reqWord[map[int]int{gen.ReqDefault: 0, gen.ReqRequired: 1, gen.ReqOptional: 2}[f.req]], f.typ, f.name)
			}
			sb.WriteString("}\n\n")
		}
		render(inner)
		for _, x := range structs {
			render(x)
		}
		sb.WriteString("service Svc {\n")
		for _, f := range fns {
			fmt.Fprintf(&sb, "  %s %s(1: %s req),\n", f.resp, f.name, f.req)
		}
		sb.WriteString("}\n")
		idl := sb.String()
		cs.Info("idl", idl)
		ob := cs.R.Intn(8)
		o := thrift.Options{EnableThriftBase: ob&1 != 0, SetOptionalBitmap: ob&2 != 0, UseDefaultValue: ob&4 != 0}
		cs.Info("opts", fmt.Sprintf("EnableThriftBase=%v SetOptionalBitmap=%v UseDefaultValue=%v", o.EnableThriftBase, o.SetOptionalBitmap, o.UseDefaultValue))
		svc, err := o.NewDescritorFromContent(context.Background(), "main.thrift", idl, map[string]string{"main.thrift": idl, "base.thrift": gen.TBaseIDL}, false)
		if err != nil {
			cs.Viol("tdesc:parse-error-on-valid-idl", "err", err)
			return
		}
		byName := map[string]st{"Inner": inner}
		for _, x := range structs {
			byName[x.name] = x
		}
		var check func(d *thrift.StructDescriptor, x st, top bool, path string)
		check = func(d *thrift.StructDescriptor, x st, top bool, path string) {
			if d == nil {
				cs.Viol("tdesc:base:struct-missing", "path", path)
				return
			}
			if d.Len() != len(x.fields) {
				cs.Viol("tdesc:field-count", "path", path, "got", d.Len(), "want", len(x.fields))
			}
			var wantReqBase, wantRespBase *thrift.FieldDescriptor
			bm := d.Requires()
			for _, f := range x.fields {
				p := path + "." + f.name
				fd := d.FieldById(thrift.FieldID(f.id))
				if fd == nil || fd.Name() != f.name || d.FieldByKey(f.name) != fd {
					cs.Viol("tdesc:field-missing-by-id", "path", p, "id", f.id)
					continue
				}
				isReq := o.EnableThriftBase && top && f.reqBase
				isResp := o.EnableThriftBase && top && f.respBase
				if fd.IsRequestBase() != isReq || fd.IsResponseBase() != isResp {
					cs.Viol("tdesc:base:flag", "path", p, "got", fmt.Sprintf("req=%v resp=%v", fd.IsRequestBase(), fd.IsResponseBase()), "want", fmt.Sprintf("req=%v resp=%v", isReq, isResp))
				}
				if isReq {
					wantReqBase = fd
				}
				if isResp {
					wantRespBase = fd
				}
				if fd.Required() != wantReq(f.req) {
					cs.Viol("tdesc:requiredness", "path", p, "got", int(fd.Required()), "want", int(wantReq(f.req)), "base-field", isReq || isResp)
				}
				wantBit := (f.req != gen.ReqOptional || o.SetOptionalBitmap) && !isReq && !isResp
				if f.id/64 >= len(bm) {
					if wantBit {
						cs.Viol("tdesc:requires-bitmap-short", "path", p, "words", len(bm))
					}
				} else if bm.IsSet(thrift.FieldID(f.id)) != wantBit {
					cs.Viol("tdesc:requires-bitmap", "path", p, "got", bm.IsSet(thrift.FieldID(f.id)), "want", wantBit, "base-field", isReq || isResp)
				}
				if f.structFields > 0 {
					if fd.Type().Type() != thrift.STRUCT || fd.Type().Struct() == nil || fd.Type().Struct().Len() != f.structFields {
						cs.Viol("tdesc:base:type", "path", p, "type", fd.Type().Type().String())
					} else if f.typ == "Inner" {
						check(fd.Type().Struct(), inner, false, p)
					}
				}
				cs.CoverN("base_fields_checked", 1)
				if isReq || isResp {
					cs.Cover(fmt.Sprintf("base_field_declared_req%d", f.req))
				}
			}
			if d.GetRequestBase() != wantReqBase {
				cs.Viol("tdesc:base:GetRequestBase", "path", path, "got-nil", d.GetRequestBase() == nil, "want-nil", wantReqBase == nil)
			}
			if d.GetResponseBase() != wantRespBase {
				cs.Viol("tdesc:base:GetResponseBase", "path", path, "got-nil", d.GetResponseBase() == nil, "want-nil", wantRespBase == nil)
			}
		}
		for _, f := range fns {
			fd := svc.Functions()[f.name]
			if fd == nil {
				cs.Viol("tdesc:function-set", "missing", f.name)
				continue
			}
			rq := fd.Request().Struct().FieldById(1)
			if rq == nil || rq.Type().Type() != thrift.STRUCT {
				cs.Viol("tdesc:base:request-wrapper", "fn", f.name)
				continue
			}
			check(rq.Type().Struct(), byName[f.req], true, f.name+".req")
			wantHas := false
			for _, x := range byName[f.req].fields {
				wantHas = wantHas || (x.reqBase && o.EnableThriftBase)
			}
			if fd.HasRequestBase() != wantHas {
				cs.Viol("tdesc:base:HasRequestBase", "fn", f.name, "got", fd.HasRequestBase(), "want", wantHas)
			}
			rs := fd.Response().Struct().FieldById(0)
			if rs == nil || rs.Type().Type() != thrift.STRUCT {
				cs.Viol("tdesc:base:response-wrapper", "fn", f.name)
				continue
			}
			check(rs.Type().Struct(), byName[f.resp], true, f.name+".resp")
		}
		cs.Cover("base_programs_ok")
		if o.EnableThriftBase {
			cs.Cover("base_enabled")
			if o.SetOptionalBitmap {
				cs.Cover("base_enabled_with_optional_bitmap")
			}
		}
		cs.Distinct(fmt.Sprintf("base-%d-%d-%d", ob, nf, len(structs[0].fields)))
	})
}

// c14BodyFast: Options.ApiBodyFastPath.  A field annotated api.body="x" on the top layer of a function's request or
// response struct is turned into an alias (its lookup key becomes x and it carries no HTTP mapping) when the option
// is set; without the option, and always below the top layer, the alias stays the field name and the field keeps
// one HTTP mapping.  Keys resolve according to MapFieldWay in both cases.
func c14BodyFast(c *h.Ctx) {
	c.Run("api-body-fastpath", c.N(800, 25000), func(cs *h.Case) {
		type fld struct {
			id         int
			name, body string // body: api.body value, "" = none
			key        string // api.key value, "" = none (never together with body)
			typ        string
		}
		mk := func(prefix string, n int) []fld {
			var out []fld
			used := map[int]bool{}
			for i := 0; i < n; i++ {
				id := 1 + cs.R.Intn(50)
				for used[id] {
					id = 1 + cs.R.Intn(50)
				}
				used[id] = true
				f := fld{id: id, name: fmt.Sprintf("%sf%d", prefix, i), typ: []string{"string", "i32", "list<string>", "i64"}[cs.R.Intn(4)]}
				switch cs.R.Intn(4) {
				case 0, 1:
					f.body = []string{"b_" + f.name, strings.ToUpper(f.name), "é" + f.name, f.name + ".x", f.name}[cs.R.Intn(5)]
				case 2:
					f.key = "k-" + f.name
				}
				out = append(out, f)
			}
			return out
		}
		inner := mk("in", 1+cs.R.Intn(3))
		req := mk("rq", 1+cs.R.Intn(5))
		rsp := mk("rs", 1+cs.R.Intn(4))
		var sb strings.Builder
		sb.WriteString("namespace go verif\n\n")
		render := func(name string, fs []fld, withInner bool) {
			fmt.Fprintf(&sb, "struct %s {\n", name)
			for _, f := range fs {
				an := ""
				if f.body != "" {
					an = fmt.Sprintf(" (api.body=%q)", f.body)
				} else if f.key != "" {
					an = fmt.Sprintf(" (api.key=%q)", f.key)
				}
				fmt.Fprintf(&sb, "  %d: %s %s%s,\n", f.id, f.typ, f.name, an)
			}
			if withInner {
				sb.WriteString("  100: Inner inner,\n")
			}
			sb.WriteString("}\n\n")
		}
		render("Inner", inner, false)
		render("Req", req, true)
		render("Resp", rsp, true)
		sb.WriteString("service Svc {\n  Resp M(1: Req req),\n}\n")
		idl := sb.String()
		cs.Info("idl", idl)
		o := thrift.Options{ApiBodyFastPath: cs.R.Bool(),
			MapFieldWay: []meta.MapFieldWay{meta.MapFieldUseAlias, meta.MapFieldUseFieldName, meta.MapFieldUseBoth}[cs.R.Intn(3)]}
		cs.Info("opts", fmt.Sprintf("ApiBodyFastPath=%v MapFieldWay=%d", o.ApiBodyFastPath, o.MapFieldWay))
		svc, err := o.NewDescritorFromContent(context.Background(), "main.thrift", idl, nil, false)
		if err != nil {
			cs.Viol("tdesc:parse-error-on-valid-idl", "err", err)
			return
		}
		fn := svc.Functions()["M"]
		if fn == nil {
			cs.Viol("tdesc:function-set", "missing", "M")
			return
		}
		check := func(d *thrift.StructDescriptor, fs []fld, top bool, path string) {
			if d == nil {
				cs.Viol("tdesc:fastpath:struct-missing", "path", path)
				return
			}
			all := map[string]int{}
			for _, f := range fs {
				alias := f.name
				mappings := 0
				switch {
				case f.key != "":
					alias = f.key
				case f.body != "" && top && o.ApiBodyFastPath:
					alias = f.body
				case f.body != "":
					mappings = 1
				}
				p := path + "." + f.name
				fd := d.FieldById(thrift.FieldID(f.id))
				if fd == nil || fd.Name() != f.name {
					cs.Viol("tdesc:field-missing-by-id", "path", p, "id", f.id)
					continue
				}
				if fd.Alias() != alias {
					cs.Viol("tdesc:field-identity", "path", p, "got-alias", fd.Alias(), "want-alias", alias, "top", top)
				}
				if len(fd.HTTPMappings()) != mappings {
					cs.Viol("tdesc:fastpath:http-mappings", "path", p, "got", len(fd.HTTPMappings()), "want", mappings, "top", top)
				}
				var keys []string
				switch o.MapFieldWay {
				case meta.MapFieldUseAlias:
					keys = []string{alias}
				case meta.MapFieldUseFieldName:
					keys = []string{f.name}
				default:
					keys = []string{alias, f.name}
				}
				for _, k := range keys {
					all[k] = f.id
					if g := d.FieldByKey(k); g != fd {
						cs.Viol("tdesc:lookup-by-key", "path", p, "key", k, "got-nil", g == nil, "top", top)
					}
				}
				cs.CoverN("fastpath_fields_checked", 1)
				if f.body != "" && top && o.ApiBodyFastPath {
					cs.Cover("fastpath_alias_from_api_body")
				}
			}
			// a name or alias hidden by the options must not resolve
			for _, f := range fs {
				for _, k := range []string{f.name, f.body, f.key} {
					if k == "" {
						continue
					}
					if _, declared := all[k]; !declared && d.FieldByKey(k) != nil {
						cs.Viol("tdesc:lookup-key-iff", "path", path, "key", k, "top", top)
					}
				}
			}
		}
		rq := fn.Request().Struct().FieldById(1)
		rs := fn.Response().Struct().FieldById(0)
		if rq == nil || rs == nil {
			cs.Viol("tdesc:fastpath:wrapper", "fn", "M")
			return
		}
		check(rq.Type().Struct(), req, true, "M.req")
		check(rs.Type().Struct(), rsp, true, "M.resp")
		for _, x := range []*thrift.FieldDescriptor{rq.Type().Struct().FieldById(100), rs.Type().Struct().FieldById(100)} {
			if x == nil {
				cs.Viol("tdesc:field-missing-by-id", "path", "inner", "id", 100)
				continue
			}
			check(x.Type().Struct(), inner, false, "M.*.inner")
		}
		cs.Cover("fastpath_programs_ok")
		cs.Distinct(fmt.Sprintf("fp-%v-%d-%d-%d", o.ApiBodyFastPath, o.MapFieldWay, len(req), len(rsp)))
	})
}

func runC14(c *h.Ctx) {
	defer c14NameCase(c) // last: it registers the agw./janus. annotations process-wide
	defer c14BodyFast(c)
	defer c14ApiNone(c)
	defer c14Base(c)
	c.Run("programs", c.N(3000, 100000), func(cs *h.Case) {
		cfg := gen.TCfg{Includes: cs.R.Intn(3), SameNames: cs.R.Chance(70), HashKeys: cs.R.Chance(30), NonASCII: cs.R.Chance(40), MaxFields: 1 + cs.R.Intn(8)}
		prog := gen.GenTProgram(cs.R, cfg)
		includes := map[string]string{}
		for _, f := range prog.Files {
			includes[f.Path] = f.Text()
			cs.Info("file:"+f.Path, includes[f.Path])
		}
		main := prog.Main
		ob := cs.R.Intn(1 << 4)
		o := thrift.Options{
			MapFieldWay:       []meta.MapFieldWay{meta.MapFieldUseAlias, meta.MapFieldUseFieldName, meta.MapFieldUseBoth}[cs.R.Intn(3)],
			ParseEnumAsInt64:  ob&1 != 0,
			SetOptionalBitmap: ob&2 != 0,
			UseDefaultValue:   ob&4 != 0,
			ParseFunctionMode: []meta.ParseFunctionMode{meta.ParseBoth, meta.ParseBoth, meta.ParseRequestOnly, meta.ParseResponseOnly}[cs.R.Intn(4)],
			ParseServiceMode:  []meta.ParseServiceMode{meta.LastServiceOnly, meta.FirstServiceOnly, meta.CombineServices}[cs.R.Intn(3)],
		}
		// expected services
		var svcs []*gen.TService
		wantName := ""
		byName := cs.R.Chance(20)
		switch {
		case byName:
			s := main.Services[cs.R.Intn(len(main.Services))]
			o.ServiceName = s.Name
			svcs, wantName = []*gen.TService{s}, s.Name
		case o.ParseServiceMode == meta.LastServiceOnly:
			s := main.Services[len(main.Services)-1]
			svcs, wantName = []*gen.TService{s}, s.Name
		case o.ParseServiceMode == meta.FirstServiceOnly:
			svcs, wantName = []*gen.TService{main.Services[0]}, main.Services[0].Name
		default:
			svcs, wantName = main.Services, "CombinedServices"
		}
		want := map[string]*gen.TFunc{}
		dup := false
		for _, s := range svcs {
			for _, fn := range s.AllFuncs() {
				if want[fn.Name] != nil {
					dup = true
				}
				want[fn.Name] = fn
			}
		}
		cs.Info("opts", fmt.Sprintf("%+v", o))
		svc, err := o.NewDescritorFromContent(context.Background(), main.Path, includes[main.Path], includes, false)
		if dup {
			cs.Cover("base_service_reached_through_several_combined_services")
		}
		if err != nil {
			cs.Viol("tdesc:parse-error-on-valid-idl", "err", err)
			return
		}
		if byName {
			// a service name that is not declared (here: another spelling of a declared one) selects nothing
			for _, cand := range []string{strings.ToUpper(o.ServiceName), strings.ToLower(o.ServiceName), o.ServiceName + "x", o.ServiceName[:len(o.ServiceName)-1]} {
				declared := false
				for _, s := range main.Services {
					declared = declared || s.Name == cand
				}
				if declared || cand == "" {
					continue
				}
				o2 := o
				o2.ServiceName = cand
				if x, err := o2.NewDescritorFromContent(context.Background(), main.Path, includes[main.Path], includes, false); err == nil {
					cs.Viol("tdesc:undeclared-service-name-accepted", "asked", cand, "got", x.Name())
				}
				cs.Cover("undeclared_service_names_probed")
			}
		}
		if svc.Name() != wantName {
			cs.Viol("tdesc:service-name", "got", svc.Name(), "want", wantName)
		}
		var gn, wn []string
		for k := range svc.Functions() {
			gn = append(gn, k)
		}
		for k := range want {
			wn = append(wn, k)
		}
		sort.Strings(gn)
		sort.Strings(wn)
		if strings.Join(gn, ",") != strings.Join(wn, ",") {
			inh := ""
			for _, s := range svcs {
				if s.Extends != nil {
					inh = ":inherited"
					if s.Extends.File == s.File {
						inh = ":inherited-same-file"
					}
				}
			}
			cs.Viol("tdesc:function-set"+inh, "got", strings.Join(gn, ","), "want", strings.Join(wn, ","), "mode", int(o.ParseServiceMode), "service-name", o.ServiceName)
			return
		}
		for _, s := range main.Services {
			for _, fn := range s.AllFuncs() {
				f, err := svc.LookupFunctionByMethod(fn.Name)
				if (err == nil && f != nil) != (want[fn.Name] != nil) {
					cs.Viol("tdesc:function-lookup-iff", "method", fn.Name)
				}
			}
		}
		for _, n := range []string{"", "Call", "call1", "Call1 ", "M"} {
			if f, err := svc.LookupFunctionByMethod(n); err == nil && f != nil {
				cs.Viol("tdesc:function-lookup-iff", "method", n)
			}
		}
		var foreign []string
		for _, f := range prog.Files {
			for _, s := range f.Structs {
				for _, fd := range s.Fields {
					if len(foreign) < 30 {
						foreign = append(foreign, fd.Name)
					}
				}
			}
		}
		w := &c14Walk{cs: cs, o: o, foreign: foreign, swept: map[*thrift.StructDescriptor]bool{}}
		type root struct {
			td *thrift.TypeDescriptor
			s  *gen.TStruct
			p  string
		}
		var roots []root
		for _, n := range wn {
			fn := want[n]
			fd := svc.Functions()[n]
			if fd.Name() != n || fd.Oneway() != fn.Oneway {
				cs.Viol("tdesc:function-flags", "method", n, "oneway", fd.Oneway(), "want", fn.Oneway)
			}
			// request wrapper
			req := fd.Request()
			if o.ParseFunctionMode == meta.ParseResponseOnly {
				if req != nil {
					cs.Viol("tdesc:request-parsed-in-response-only-mode", "method", n)
				}
			} else if req == nil || req.Type() != thrift.STRUCT || req.Struct() == nil {
				cs.Viol("tdesc:request-wrapper", "method", n)
			} else {
				rs := req.Struct()
				af := rs.FieldById(thrift.FieldID(fn.ArgID))
				if rs.Len() != 1 || af == nil || af.Name() != fn.ArgName || rs.FieldByKey(fn.ArgName) != af {
					cs.Viol("tdesc:request-wrapper-field", "method", n, "len", rs.Len())
				} else {
					w.seen = map[*thrift.StructDescriptor]*gen.TStruct{}
					w.typ(af.Type(), fn.Arg, n+":req")
					if fn.Arg.Resolved().Kind == "struct" {
						roots = append(roots, root{af.Type(), fn.Arg.Resolved().S, n + ":req"})
					}
				}
			}
			resp := fd.Response()
			if o.ParseFunctionMode == meta.ParseRequestOnly {
				if resp != nil {
					cs.Viol("tdesc:response-parsed-in-request-only-mode", "method", n)
				}
			} else if resp == nil || resp.Type() != thrift.STRUCT || resp.Struct() == nil {
				cs.Viol("tdesc:response-wrapper", "method", n)
			} else {
				rs := resp.Struct()
				wantLen := 1
				if fn.Exc != nil {
					wantLen = 2
				}
				rf := rs.FieldById(0)
				// the result field has no name: it answers to the empty key
				if rf != nil && rs.FieldByKey("") != rf {
					cs.Viol("tdesc:response-wrapper-empty-key", "method", n, "got-nil", rs.FieldByKey("") == nil)
				}
				if rs.Len() != wantLen || rf == nil {
					cs.Viol("tdesc:response-wrapper-field", "method", n, "len", rs.Len(), "want", wantLen)
				} else {
					w.seen = map[*thrift.StructDescriptor]*gen.TStruct{}
					if fn.Ret == nil {
						if rf.Type().Type() != thrift.VOID {
							cs.Viol("tdesc:void-response", "method", n, "got", rf.Type().Type().String())
						}
					} else {
						w.typ(rf.Type(), fn.Ret, n+":resp")
					}
					if fn.Exc != nil {
						ef := rs.FieldById(thrift.FieldID(fn.ExcID))
						if ef == nil || ef.Name() != fn.ExcName || rs.FieldByKey(fn.ExcName) != ef {
							cs.Viol("tdesc:exception-field", "method", n)
						} else {
							w.typ(ef.Type(), &gen.TType{Kind: "struct", S: fn.Exc}, n+":exc")
						}
					}
				}
			}
		}
		if w.bad {
			return
		}
		// native lookups on up to two request roots (prefer the hash-keyed struct if it is a root)
		done := 0
		for _, r := range roots {
			if done >= 2 {
				break
			}
			w.nativeLookups(r.td, r.s, r.p)
			done++
			if strings.HasPrefix(r.s.Name, "H") {
				cs.Cover("native_lookup_on_hash_keyed_struct")
			}
		}
		if w.bad {
			return
		}
		cs.CoverN("structs_compared", w.structs)
		cs.CoverN("fields_compared", w.fields)
		cs.CoverN("id_lookups", w.idLk)
		cs.CoverN("key_lookups", w.keyLk)
		cs.CoverN("native_lookups", w.natLk)
		cs.CoverN("defaults_compared", w.defs)
		cs.Cover("program_ok")
		if len(prog.Files) > 1 {
			cs.Cover("program_with_includes_ok")
		}
		cs.Distinct(fmt.Sprintf("prog-%d-%d-%d-%d-%d", ob, o.MapFieldWay, len(prog.Files), w.structs, w.fields))
		if cs.I == 7 {
			cs.Sample(map[string]interface{}{"main": includes[main.Path], "opts": fmt.Sprintf("%+v", o), "structs": w.structs, "fields": w.fields, "key_lookups": w.keyLk})
		}
	})

	// the hash-map lookup structure on its own: many keys, adversarial probes, Go and native lookups
	c.Run("hash-keyed", c.N(400, 20000), func(cs *h.Case) {
		cfg := gen.TCfg{HashKeys: true, NonASCII: cs.R.Bool(), MaxFields: 3}
		prog := gen.GenTProgram(cs.R, cfg)
		main := prog.Main
		var hs *gen.TStruct
		for _, s := range main.Structs {
			if strings.HasPrefix(s.Name, "H") {
				hs = s
			}
		}
		// make it the request type of the last service's first function
		last := main.Services[len(main.Services)-1]
		last.Funcs[0].Arg = &gen.TType{Kind: "struct", S: hs}
		text := main.Text()
		cs.Info("file:main", text)
		o := thrift.Options{MapFieldWay: []meta.MapFieldWay{meta.MapFieldUseAlias, meta.MapFieldUseFieldName, meta.MapFieldUseBoth}[cs.R.Intn(3)]}
		svc, err := o.NewDescritorFromContent(context.Background(), main.Path, text, map[string]string{main.Path: text}, false)
		if err != nil {
			cs.Viol("tdesc:parse-error-on-valid-idl", "err", err)
			return
		}
		fd := svc.Functions()[last.Funcs[0].Name]
		if fd == nil || fd.Request() == nil {
			cs.Viol("tdesc:function-set", "want", last.Funcs[0].Name)
			return
		}
		af := fd.Request().Struct().FieldById(thrift.FieldID(last.Funcs[0].ArgID))
		w := &c14Walk{cs: cs, o: o, swept: map[*thrift.StructDescriptor]bool{}, seen: map[*thrift.StructDescriptor]*gen.TStruct{}}
		w.typ(af.Type(), last.Funcs[0].Arg, "req")
		if w.bad {
			return
		}
		w.nativeLookups(af.Type(), hs, "req")
		if w.bad {
			return
		}
		cs.CoverN("key_lookups", w.keyLk)
		cs.CoverN("native_lookups", w.natLk)
		cs.CoverN("id_lookups", w.idLk)
		cs.Cover("hash_keyed_struct_ok")
		cs.Distinct(fmt.Sprintf("hash-%d-%d-%v", len(hs.Fields), o.MapFieldWay, cfg.NonASCII))
	})
	_ = math.MaxInt32
}

// c14NameCase: the name-case annotations (agw./janus. to_snake, to_lower_camel_case) on fields and structs: the key
// of a field is the re-spelled name (a table of names whose snake / lower-camel spelling is beyond dispute), an
// annotation switched off ("false") leaves the name alone, a field's own annotation beats its struct's, and
// api.key beats both. Checked on the descriptor (FieldByKey returns the field for exactly that key) and through
// the native lookup of j2t.
func c14NameCase(c *h.Ctx) { nameCasePhase(c, "tdesc") }

func nameCasePhase(c *h.Ctx, pfx string) {
	type nm struct{ name, snake, lower string }
	table := []nm{
		{"UserName", "user_name", "userName"}, {"userID", "user_id", ""}, {"HTTPMethod", "http_method", ""}, {"URL", "url", ""},
		{"simple", "simple", "simple"}, {"snake_name", "snake_name", "snakeName"}, {"A", "a", "a"}, {"MyURLValue", "my_url_value", ""},
		{"LogID", "log_id", ""}, {"fooBar", "foo_bar", "fooBar"}, {"FooBarBaz", "foo_bar_baz", "fooBarBaz"}, {"already_snake_case", "already_snake_case", "alreadySnakeCase"},
	}
	inited := false
	c.Run("name-case", c.N(400, 8000), func(cs *h.Case) {
		if !inited {
			annotation.InitAGWAnnos()
			inited = true
		}
		pkg := []string{"agw", "janus"}[cs.R.Intn(2)]
		structCase := cs.R.Intn(3) // 0 none, 1 snake, 2 lower camel
		perm := make([]int, len(table))
		for i := range perm {
			perm[i] = i
		}
		for i := len(perm) - 1; i > 0; i-- {
			j := cs.R.Intn(i + 1)
			perm[i], perm[j] = perm[j], perm[i]
		}
		n := 2 + cs.R.Intn(len(table)-2)
		type fld struct {
			nm
			id   int
			want string
		}
		var fs []fld
		var sb strings.Builder
		sb.WriteString("namespace go verif\nstruct S {\n")
		for i := 0; i < n; i++ {
			t := table[perm[i]]
			f := fld{nm: t, id: i + 1, want: t.name}
			anno := ""
			own := cs.R.Intn(6) // 0,1 none; 2 snake; 3 lower; 4 own switched off; 5 api.key
			eff := structCase
			switch own {
			case 2:
				// every spelling strconv.ParseBool takes as true switches the annotation on (and "" does)
				anno, eff = fmt.Sprintf(` (%s.to_snake = "%s")`, pkg, []string{"", "true", "1", "t", "T", "TRUE", "True"}[cs.R.Intn(7)]), 1
			case 3:
				if t.lower != "" {
					anno, eff = fmt.Sprintf(` (%s.to_lower_camel_case = "true")`, pkg), 2
				}
			case 4:
				// switched off on the field: the struct's case (if it is another one) or the plain name
				if structCase == 1 {
					anno, eff = fmt.Sprintf(` (%s.to_snake = "%s")`, pkg, []string{"false", "0", "f", "F", "FALSE", "False"}[cs.R.Intn(6)]), 0
				}
			case 5:
				anno, eff = fmt.Sprintf(` (api.key = "k_%d")`, i), 3
			}
			switch eff {
			case 1:
				f.want = t.snake
			case 2:
				if t.lower == "" {
					continue // no undisputed lower-camel spelling: leave the name out of this struct
				}
				f.want = t.lower
			case 3:
				f.want = fmt.Sprintf("k_%d", i)
			}
			fmt.Fprintf(&sb, "  %d: optional i32 %s%s,\n", f.id, t.name, anno)
			fs = append(fs, f)
		}
		if len(fs) == 0 {
			return
		}
		sb.WriteString("}")
		switch structCase {
		case 1:
			fmt.Fprintf(&sb, ` (%s.to_snake = "true")`, pkg)
		case 2:
			fmt.Fprintf(&sb, ` (%s.to_lower_camel_case = "")`, pkg)
		}
		sb.WriteString("\nstruct R { 1: i32 x }\nservice Svc { " + []string{"R M(1: S req)", "S M(1: S req)", "S M(1: S req), S M2(1: S req)"}[cs.R.Intn(3)] + " }\n")
		idl := sb.String()
		cs.Info("idl", idl)
		svc, err := thrift.NewDescritorFromContent(context.Background(), "nc.thrift", idl, nil, false)
		if err != nil {
			cs.Viol(pfx+":name-case:parse-error-on-valid-idl", "err", err)
			return
		}
		desc, _ := RootOf(svc, "M")
		st := desc.Struct()
		keys := map[string]int{}
		for _, f := range fs {
			keys[f.want] = f.id
		}
		if len(keys) != len(fs) {
			return // two names of the table meet in one spelling: not a case of this phase
		}
		var doc []string
		for _, f := range fs {
			fd := st.FieldById(thrift.FieldID(f.id))
			if fd == nil || fd.Alias() != f.want {
				cs.Viol(pfx+":name-case:alias", "field", f.name, "want", f.want, "got", fmt.Sprint(fd != nil && true), "alias", aliasOf(fd))
				return
			}
			for _, k := range []string{f.want, f.name, f.snake, f.lower, strings.ToLower(f.name), strings.ToUpper(f.want)} {
				if k == "" {
					continue
				}
				got := st.FieldByKey(k)
				wantID, declared := keys[k]
				if declared != (got != nil) || (got != nil && int(got.ID()) != wantID) {
					cs.Viol(pfx+":name-case:lookup-key-iff", "key", k, "declared", declared, "found", got != nil)
					return
				}
				cs.Cover("name_case_lookups")
			}
			doc = append(doc, fmt.Sprintf("%q:%d", f.want, 1000+f.id))
		}
		// the native lookup: every field under its key
		out, err := j2tDo(desc, "{"+strings.Join(doc, ",")+"}")
		if err != nil {
			cs.Viol(pfx+":name-case:j2t-error", "err", err)
			return
		}
		v, derr := tref.Decode(out, tref.STRUCT)
		if derr != nil || len(v.Fs) != len(fs) {
			cs.Viol(pfx+":name-case:native-lookup-misses-declared-key", "decoded", fmt.Sprint(v), "want-fields", len(fs))
			return
		}
		for _, f := range fs {
			if x := v.FieldByID(int16(f.id)); x == nil || x.I != int64(1000+f.id) {
				cs.Viol(pfx+":name-case:native-lookup-wrong-field", "field", f.name, "key", f.want)
				return
			}
		}
		cs.Cover("name_case_struct_ok")
		cs.Cover(fmt.Sprintf("name_case_struct_level_%d", structCase))
		cs.Distinct("nc-" + idl[20:min(len(idl), 80)])
	})
}

func aliasOf(fd *thrift.FieldDescriptor) string {
	if fd == nil {
		return "<nil>"
	}
	return fd.Alias()
}

func j2tDo(desc *thrift.TypeDescriptor, doc string) ([]byte, error) {
	cv := j2t.NewBinaryConv(conv.Options{})
	return cv.Do(context.Background(), desc, []byte(doc))
}

// c14ApiNone: api.none hides a member on the response side only. A struct that is reachable from a request, from a
// return type and from a throws clause gets three descriptors: the member is declared (by id and by key) in the
// request and exception copies and absent from the response copy - for every function and whichever is compiled first.
func c14ApiNone(c *h.Ctx) {
	c.Run("api-none-directions", c.N(60, 600), func(cs *h.Case) {
		// (one exception per function: the library documents "only support single exception")
		fnA, fnB := "Resp M(1: Req r) throws (1: Err e)", "Resp2 N(1: Req r) throws (1: Err2 e2)"
		if cs.R.Bool() {
			fnA, fnB = fnB, fnA
		}
		deep := cs.R.Bool()
		shared := "Shared"
		wrap := ""
		if deep {
			shared, wrap = "Wrap", "struct Wrap { 1: list<Shared> items, 2: map<string,Shared> byKey }\n"
		}
		idl := "namespace go verif\nstruct Shared { 1: string a, 2: string hidden (api.none=\"true\"), 3: i32 c }\n" + wrap +
			"exception Err { 1: " + shared + " detail, 2: string msg }\nexception Err2 { 1: string msg, 2: " + shared + " more }\n" +
			"struct Req { 1: " + shared + " s }\nstruct Resp { 1: " + shared + " s }\nstruct Resp2 { 1: i32 n, 2: " + shared + " s }\n" +
			"service Svc { " + fnA + ", " + fnB + " }\n"
		cs.Info("idl", idl)
		svc, err := thrift.NewDescritorFromContent(context.Background(), "none.thrift", idl, nil, false)
		if err != nil {
			cs.Viol("tdesc:api-none:parse-error-on-valid-idl", "err", err)
			return
		}
		sharedOf := func(t *thrift.TypeDescriptor, id thrift.FieldID) *thrift.StructDescriptor {
			if t == nil || t.Struct() == nil || t.Struct().FieldById(id) == nil {
				return nil
			}
			x := t.Struct().FieldById(id).Type()
			if deep {
				if x.Struct() == nil || x.Struct().FieldById(1) == nil {
					return nil
				}
				if cs.R.Bool() {
					x = x.Struct().FieldById(1).Type().Elem()
				} else {
					x = x.Struct().FieldById(2).Type().Elem()
				}
			}
			return x.Struct()
		}
		check := func(where string, st *thrift.StructDescriptor, wantHidden bool) {
			if st == nil {
				cs.Viol("tdesc:api-none:descriptor-missing", "where", where)
				return
			}
			byID, byKey := st.FieldById(2) != nil, st.FieldByKey("hidden") != nil
			if byID != wantHidden || byKey != wantHidden || st.FieldById(1) == nil || st.FieldById(3) == nil {
				cs.Viol("tdesc:api-none:member-visibility", "where", where, "by-id", byID, "by-key", byKey, "want", wantHidden)
			}
			cs.Cover("api_none_copies_checked")
		}
		for _, name := range []string{"M", "N"} {
			fn, err := svc.LookupFunctionByMethod(name)
			if err != nil || fn == nil {
				cs.Viol("tdesc:api-none:function-missing", "name", name)
				return
			}
			ft := func(t *thrift.TypeDescriptor, id thrift.FieldID) *thrift.TypeDescriptor {
				if t == nil || t.Struct() == nil || t.Struct().FieldById(id) == nil {
					return nil
				}
				return t.Struct().FieldById(id).Type()
			}
			check(name+":request", sharedOf(ft(fn.Request(), 1), 1), true)
			retID := thrift.FieldID(1)
			if name == "N" {
				retID = 2
			}
			check(name+":return", sharedOf(ft(fn.Response(), 0), retID), false)
			excID := thrift.FieldID(1)
			if name == "N" {
				excID = 2 // Err2 keeps the shared struct in its field 2
			}
			check(name+":throws", sharedOf(ft(fn.Response(), 1), excID), true)
		}
	})
}
