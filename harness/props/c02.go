package props

import (
	"bytes"
	"context"
	"encoding/base64"
	"fmt"
	"math"
	"math/big"
	"runtime"
	"strconv"
	"strings"
	"unicode/utf8"

	"github.com/cloudwego/dynamicgo/conv"
	"github.com/cloudwego/dynamicgo/conv/j2t"
	dhttp "github.com/cloudwego/dynamicgo/http"
	"github.com/cloudwego/dynamicgo/meta"
	"github.com/cloudwego/dynamicgo/thrift"
	"github.com/cloudwego/gopkg/protocol/thrift/base"

	"verifharness/gen"
	"verifharness/h"
	"verifharness/tref"
)

func init() { h.Register("C02", runC02) }

// c02Case is one (descriptor, document, options) tuple with its expected Thrift bytes; it is also the
// unit C18 replays on every flavour.
type c02Case struct {
	idl     string
	desc    *thrift.TypeDescriptor
	root    *gen.Type
	model   *tref.Val
	doc     string
	opts    conv.Options
	want    []byte // expected encoding (nil if an error is expected)
	wantErr string // "" | "any" | "unknown"
	kind    string
}

func c02GenValCfg() gen.ValCfg {
	return gen.ValCfg{NonFinite: false, InvalidUTF8: false, ShuffleFlds: true, NegByteKeys: true}
}

// stripUnrepresentable removes what the JSON domain cannot express: nothing for now (values are generated
// inside the domain: finite doubles, valid UTF-8).

// c02Make builds a positive case from a generated schema.
func c02Make(cs *h.Case) (*c02Case, bool) {
	sc := gen.GenSchema(cs.R, gen.Cfg{MaxDepth: 3, MaxFields: 6, BigIDs: true, Recursive: true, Aliases: true, Requiredness: cs.R.Chance(40), Typedefs: true})
	root := structType(sc.Root)
	desc, _, err := ParseRoot(sc, thrift.NewDefaultOptions())
	if err != nil {
		cs.Viol("j2t:parse-idl", "err", err, "idl", sc.IDL())
		return nil, false
	}
	if strings.Contains(sc.IDL(), "go.tag=") {
		cs.Cover("schema_with_go_tag_alias")
	}
	if idl := sc.IDL(); strings.Contains(idl, "typedef binary ") {
		cs.Cover("schema_with_typedef_of_binary")
	} else if strings.Contains(idl, "typedef string binary") {
		cs.Cover("schema_with_string_typedef_named_binary")
	}
	v := gen.GenVal(cs.R, root, c02GenValCfg(), 0)
	ob := cs.R.Intn(16)
	o := conv.Options{String2Int64: ob&1 != 0, NoBase64Binary: ob&2 != 0, DisallowUnknownField: ob&4 != 0, EnableValueMapping: ob&8 != 0}
	if o.NoBase64Binary {
		// without base64 a binary travels as a JSON string: only valid UTF-8 is expressible
		tref.Walk(v, func(n *tref.Val, d int) {
			if n.T == tref.STRING && !utf8.Valid(n.S) {
				n.S = []byte(strings.ToValidUTF8(string(n.S), "?"))
			}
		})
		// map keys may have become equal: keep the first of equal keys
		tref.Walk(v, func(n *tref.Val, d int) {
			if n.T == tref.MAP || n.T == tref.SET {
				seen := map[string]bool{}
				var ks, ls []*tref.Val
				for i := range n.L {
					var k string
					if n.T == tref.MAP {
						k = string(tref.Encode(n.K[i].Clone()))
					} else {
						k = string(tref.Encode(n.L[i].Clone()))
					}
					if seen[k] {
						continue
					}
					seen[k] = true
					if n.T == tref.MAP {
						ks = append(ks, n.K[i])
					}
					ls = append(ls, n.L[i])
				}
				n.K, n.L = ks, ls
			}
		})
	}
	jo := JOpts{Int642String: o.String2Int64 && cs.R.Bool(), NoBase64Binary: o.NoBase64Binary}
	sp := JSpell{WS: cs.R.Intn(3), EscapeAll: cs.R.Chance(10), EscapeMix: cs.R.Chance(40), NumExp: cs.R.Chance(50)}
	doc := RenderJSON(cs.R, v, root, sp, jo)
	return &c02Case{idl: sc.IDL(), desc: desc, root: root, model: v, doc: doc, opts: o, want: tref.Encode(v), kind: "doc"}, true
}

// newJ2T returns a converter configured with o; in a third of the cases it is first created with an unrelated
// random option set and then reconfigured through SetOptions (the options of the second call alone must count).
func newJ2T(cs *h.Case, o conv.Options) j2t.BinaryConv {
	if !cs.R.Chance(33) {
		return j2t.NewBinaryConv(o)
	}
	x := cs.R.Intn(1 << 9)
	cv := j2t.NewBinaryConv(conv.Options{String2Int64: x&1 != 0, NoBase64Binary: x&2 != 0, DisallowUnknownField: x&4 != 0,
		EnableValueMapping: x&8 != 0, WriteDefaultField: x&16 != 0, WriteRequireField: x&32 != 0, WriteOptionalField: x&64 != 0,
		EnableHttpMapping: x&128 != 0, ReadHttpValueFallback: x&256 != 0})
	cv.SetOptions(o)
	cs.Cover("converter_reconfigured_by_SetOptions")
	return cv
}

// c02Run executes the case and compares. Returns the produced bytes / error class for differential use.
func c02Run(cs *h.Case, c *c02Case) (string, bool) {
	cs.Info("idl", c.idl)
	cs.Info("doc", c.doc)
	cs.Info("opts", fmt.Sprintf("%+v", c.opts))
	cv := newJ2T(cs, c.opts)
	tr := h.TrapCopy([]byte(c.doc), cs.R.Bool(), true)
	defer tr.Free()
	out, err := cv.Do(context.Background(), c.desc, tr.B)
	res := "ok:" + h.Sha(out)
	if err != nil {
		res = "err:" + errCode(err)
	}
	switch c.wantErr {
	case "":
		if err != nil {
			cs.Viol("j2t:"+c.kind+":error-on-conforming", "err", err)
			return res, false
		}
		if !bytes.Equal(out, c.want) {
			dec, derr := tref.Decode(out, tref.STRUCT)
			sig := "j2t:" + c.kind + ":bytes"
			diff := ""
			if derr != nil {
				sig = "j2t:" + c.kind + ":malformed"
			} else if tref.Equal(dec, c.model) {
				sig = "j2t:" + c.kind + ":bytes-differ-but-same-value"
			} else {
				diff = firstDiff(dec, c.model, "")
				if equalModNegZero(dec, c.model) {
					sig = "j2t:" + c.kind + ":neg-zero-sign-lost"
				}
			}
			cs.Viol(sig, "got", out, "want", c.want, "decode-error", derr, "first-diff", diff)
			return res, false
		}
		cs.Cover("j2t_ok")
	case "unknown":
		if err == nil {
			cs.Viol("j2t:"+c.kind+":unknown-member-accepted", "out", out)
			return res, false
		}
		if !isErrCode(err, meta.ErrUnknownField) {
			cs.Viol("j2t:"+c.kind+":unknown-member-wrong-error", "err", err)
			return res, false
		}
		cs.Cover("j2t_unknown_rejected")
	default:
		if err == nil {
			cs.Viol("j2t:"+c.kind+":accepted", "out", out)
			return res, false
		}
		cs.Cover("j2t_negative_rejected")
	}
	return res, true
}

// flipKind replaces the value of one scalar/collection member by a value of another JSON kind.
// Returns the new document or "" if none applicable.
func c02FlipKind(cs *h.Case, c *c02Case) string {
	// choose a top-level field of the model and re-render with that field's value text replaced
	if len(c.model.Fs) == 0 {
		return ""
	}
	i := cs.R.Intn(len(c.model.Fs))
	f := c.model.Fs[i]
	fd := c.root.S.Field(f.ID)
	if fd == nil {
		return ""
	}
	var bad string
	switch fd.T.T {
	case tref.BOOL:
		bad = []string{`"x"`, `[true]`, `{"a":1}`, `1.5`}[cs.R.Intn(4)]
	case tref.BYTE, tref.I16, tref.I32:
		bad = []string{`"abc"`, `true`, `[1]`, `{"a":1}`}[cs.R.Intn(4)]
	case tref.I64:
		bad = []string{`"abc"`, `false`, `[1]`, `{}`}[cs.R.Intn(4)]
	case tref.DOUBLE:
		bad = []string{`"x1"`, `true`, `[1.5]`, `{"a":1}`}[cs.R.Intn(4)]
	case tref.STRING:
		bad = []string{`12`, `true`, `["a"]`, `{"a":"b"}`}[cs.R.Intn(4)]
	case tref.LIST, tref.SET:
		bad = []string{`12`, `"x"`, `{"a":1}`, `true`}[cs.R.Intn(4)]
	case tref.MAP, tref.STRUCT:
		bad = []string{`12`, `"x"`, `[1,2]`, `false`}[cs.R.Intn(4)]
	}
	// re-render every field, substituting field i
	var parts []string
	for k, g := range c.model.Fs {
		gd := c.root.S.Field(g.ID)
		if gd == nil {
			continue
		}
		val := RenderJSON(cs.R, g.V, gd.T, JSpell{}, JOpts{NoBase64Binary: c.opts.NoBase64Binary})
		if k == i {
			val = bad
		}
		parts = append(parts, fmt.Sprintf("%q:%s", fieldKey(gd), val))
	}
	return "{" + strings.Join(parts, ",") + "}"
}

// rootCase: the converter is given the descriptor of a non-struct type (a field's type) and a document that is just
// that value, surrounded by whitespace.  A STRING root keeps the documented special case (text that does not begin
// with a quote is taken as the string itself), so string documents start with their quote.
type rootCase struct {
	idl       string
	td        *thrift.TypeDescriptor
	t         *gen.Type
	v         *tref.Val
	o         conv.Options
	full, bad string // the document, and the same document cut inside its value ("" = none)
	trail     string
}

func rootValueCase(cs *h.Case) (*rootCase, bool) {
	sc := gen.GenSchema(cs.R, gen.Cfg{MaxDepth: 2, MaxFields: 6, Typedefs: true})
	desc, _, err := ParseRoot(sc, thrift.NewDefaultOptions())
	if err != nil {
		cs.Viol("j2t:parse-idl", "err", err, "idl", sc.IDL())
		return nil, false
	}
	f := sc.Root.Fields[cs.R.Intn(len(sc.Root.Fields))]
	fd := desc.Struct().FieldById(thrift.FieldID(f.ID))
	if fd == nil {
		cs.Viol("j2t:root:field-missing", "id", f.ID)
		return nil, false
	}
	rc := &rootCase{idl: sc.IDL(), td: fd.Type(), t: f.T}
	rc.v = gen.GenVal(cs.R, f.T, c02GenValCfg(), 0)
	if f.T.T == tref.STRING && cs.R.Chance(30) {
		// lengths around the vector widths of the native string scanner
		n := []int{15, 16, 17, 31, 32, 33, 63, 64, 65, 96, 128}[cs.R.Intn(11)]
		rc.v = tref.Str(strings.Repeat("abcdefgh", 17)[:n])
		if f.T.Bin {
			rc.v = tref.Bin([]byte(strings.Repeat("abcdefgh", 17)[:n]))
		}
	}
	rc.o = conv.Options{String2Int64: cs.R.Bool(), DisallowUnknownField: cs.R.Bool()}
	sp := JSpell{WS: cs.R.Intn(3), EscapeMix: cs.R.Chance(40), NumExp: cs.R.Chance(50)}
	doc := strings.TrimLeft(RenderJSON(cs.R, rc.v, f.T, sp, JOpts{Int642String: rc.o.String2Int64 && cs.R.Bool()}), " \n\t\r")
	doc = strings.TrimRight(doc, " \n\t\r")
	ws := func() string { return []string{"", " ", "\n", "\t", "\r\n  ", "  "}[cs.R.Intn(6)] }
	lead, trail := ws(), ws()
	if f.T.T == tref.STRING {
		lead = ""
	}
	rc.full, rc.trail = lead+doc+trail, trail
	switch f.T.T {
	case tref.STRING:
		if len(doc) >= 2 && doc[len(doc)-1] == '"' && doc[len(doc)-2] != '\\' {
			rc.bad = doc[:len(doc)-1]
		}
	case tref.LIST, tref.SET, tref.MAP, tref.STRUCT:
		if len(doc) > 1 {
			rc.bad = lead + doc[:len(doc)-1]
		}
	}
	return rc, true
}

func c02RootValues(c *h.Ctx) {
	c.Run("root-values", c.N(2500, 60000), func(cs *h.Case) {
		rc, ok := rootValueCase(cs)
		if !ok {
			return
		}
		cs.Info("idl", rc.idl)
		cs.Info("root-type", rc.t.String())
		cs.Info("doc", rc.full)
		cs.Info("opts", fmt.Sprintf("%+v", rc.o))
		cv := j2t.NewBinaryConv(rc.o)
		tr := h.TrapCopy([]byte(rc.full), cs.R.Bool(), true)
		out, err := cv.Do(context.Background(), rc.td, tr.B)
		tr.Free()
		cls := tref.TypeName(rc.t.T)
		want := tref.Encode(rc.v.Clone())
		if err != nil {
			cs.Viol("j2t:root:error-on-conforming:"+cls, "err", err)
			return
		}
		if !bytes.Equal(out, want) {
			dec, derr := tref.Decode(out, rc.v.T)
			sig := "j2t:root:bytes:" + cls
			if derr == nil && equalModNegZero(dec, rc.v) && !tref.Equal(dec, rc.v) {
				sig = "j2t:root:neg-zero-sign-lost"
			}
			cs.Viol(sig, "got", out, "want", want, "decode-error", derr)
			return
		}
		cs.Cover("root_value_ok")
		cs.Cover("root_value_ok_" + cls)
		if rc.trail != "" {
			cs.Cover("root_value_trailing_whitespace_ok")
		}
		// the same document cut inside its value must be rejected
		if rc.bad != "" {
			cs.Info("cut-doc", rc.bad)
			tr := h.TrapCopy([]byte(rc.bad), true, true)
			cv2 := j2t.NewBinaryConv(rc.o)
			out, err := cv2.Do(context.Background(), rc.td, tr.B)
			tr.Free()
			if err == nil {
				sig := "j2t:root:truncated-accepted:" + cls
				if rc.t.T == tref.STRING && (len(rc.bad)-1)%32 == 0 {
					// defect model of the known finding C02-K3: an unterminated string document whose text after the
					// opening quote is a whole number of 32-byte vectors
					sig += ":whole-vectors"
				}
				cs.Viol(sig, "doc", rc.bad, "out", out)
				return
			}
			cs.Cover("root_value_truncated_rejected")
		}
		cs.Distinct("rv-" + cls + "-" + shapeKey(rc.v)[:min(len(shapeKey(rc.v)), 10)])
	})
}

// c02NullUnknownCase rebuilds the document of a generated case member by member, adding nulls for absent
// non-required fields and unknown members (scalars, nested objects and arrays, strings ending in escapes).
func c02NullUnknownCase(cs *h.Case) (*c02Case, bool, int) {
	cc, ok := c02Make(cs)
	if !ok {
		return nil, false, 0
	}
	// rebuild the document member by member, adding nulls for absent non-required fields and unknown members
	present := map[int16]bool{}
	for _, f := range cc.model.Fs {
		present[f.ID] = true
	}
	var parts []string
	jo := JOpts{NoBase64Binary: cc.opts.NoBase64Binary}
	hasUnknown := false
	add := func(s string) { parts = append(parts, s) }
	for _, f := range cc.model.Fs {
		fd := cc.root.S.Field(f.ID)
		if cs.R.Chance(25) {
			uk := fmt.Sprintf("unknown_%d", cs.R.Intn(1000))
			uv := []string{`1`, `"s"`, `null`, `{"a":[1,{"b":null}],"c":"}"}`, `[1,[2,[3]],"]"]`, `-1.5e3`, `true`,
				`{"path":"C:\\"}`, `["a\\","b"]`, `"x\\"`, `{"q":"\"","r":{"s":"b\\"},"z":"}"}`, `[[],{},"\\\""]`}[cs.R.Intn(12)]
			add(fmt.Sprintf("%q:%s", uk, uv))
			hasUnknown = true
		}
		add(fmt.Sprintf("%q:%s", fieldKey(fd), RenderJSON(cs.R, f.V, fd.T, JSpell{WS: cs.R.Intn(2)}, jo)))
	}
	for _, fd := range cc.root.S.Fields {
		if !present[fd.ID] && fd.Req != gen.ReqRequired && cs.R.Chance(50) {
			add(fmt.Sprintf("%q:null", fieldKey(fd)))
			cs.Cover("null_members")
		}
	}
	// shuffle: document order decides the output order, so recompute the expected encoding
	for i := len(parts) - 1; i > 0; i-- {
		j := cs.R.Intn(i + 1)
		parts[i], parts[j] = parts[j], parts[i]
	}
	cc.doc = "{" + strings.Join(parts, ",") + "}"
	// expected = fields in document order
	order := map[string]int{}
	for i, p := range parts {
		order[p[:strings.Index(p, ":")]] = i
	}
	m2 := cc.model.Clone()
	for i := 0; i < len(m2.Fs); i++ {
		for j := i + 1; j < len(m2.Fs); j++ {
			ki := fmt.Sprintf("%q", fieldKey(cc.root.S.Field(m2.Fs[i].ID)))
			kj := fmt.Sprintf("%q", fieldKey(cc.root.S.Field(m2.Fs[j].ID)))
			if order[kj] < order[ki] {
				m2.Fs[i], m2.Fs[j] = m2.Fs[j], m2.Fs[i]
			}
		}
	}
	cc.model = m2
	cc.want = tref.Encode(m2)
	cc.kind = "null-unknown"
	if hasUnknown && cc.opts.DisallowUnknownField {
		cc.wantErr = "unknown"
	}
	return cc, hasUnknown, len(parts)
}

// c02WideStructs: structs wide enough for every name index (trie and hash map) and for the native field cache and the
// requires-bitmap cache; documents name a random subset of the members in random order.
func c02WideStructs(c *h.Ctx) {
	c.Run("wide-structs", c.N(300, 6000), func(cs *h.Case) {
		n := []int{24, 40, 64, 65, 100, 120, 130, 200, 300, 520}[cs.R.Intn(10)]
		st := &gen.StructT{Name: "Wide"}
		style := cs.R.Intn(3)
		used := map[int16]bool{}
		for i := 0; i < n; i++ {
			id := int16(1 + i)
			if cs.R.Chance(10) {
				id = int16(1000 + cs.R.Intn(30000))
			}
			if used[id] {
				continue
			}
			used[id] = true
			name := fmt.Sprintf("f%03d", i)
			switch style {
			case 1:
				name = fmt.Sprintf("member_%d_x", i)
			case 2:
				name = fmt.Sprintf("%c%c%d", 'a'+byte(i%26), 'A'+byte((i/26)%26), i)
			}
			t := &gen.Type{T: []byte{tref.I32, tref.STRING, tref.I64, tref.BOOL}[cs.R.Intn(4)]}
			st.Fields = append(st.Fields, &gen.FieldT{ID: id, Name: name, T: t, Req: []int{gen.ReqDefault, gen.ReqOptional, gen.ReqRequired}[cs.R.Intn(3)]})
		}
		sc := &gen.Schema{Structs: []*gen.StructT{st}, Root: st}
		desc, _, err := ParseRoot(sc, thrift.NewDefaultOptions())
		if err != nil {
			cs.Viol("j2t:parse-idl", "err", err)
			return
		}
		root := structType(st)
		// all required members + a random subset of the others, in random order
		v := tref.Struct()
		for _, f := range st.Fields {
			if f.Req == gen.ReqRequired || cs.R.Chance(35) {
				v.Fs = append(v.Fs, tref.Field{ID: f.ID, V: gen.GenVal(cs.R, f.T, gen.ValCfg{MaxStr: 12, PlainStr: true}, 1)})
			}
		}
		for i := len(v.Fs) - 1; i > 0; i-- {
			j := cs.R.Intn(i + 1)
			v.Fs[i], v.Fs[j] = v.Fs[j], v.Fs[i]
		}
		doc := RenderJSON(cs.R, v, root, JSpell{}, JOpts{})
		want := tref.Encode(v)
		cs.Info("fields", len(st.Fields))
		cs.Info("members", len(v.Fs))
		cs.Info("doc", trunc(doc))
		o := conv.Options{DisallowUnknownField: cs.R.Bool()}
		cv := newJ2T(cs, o)
		out, err := cv.Do(context.Background(), desc, []byte(doc))
		if err != nil {
			cs.Viol("j2t:wide:error-on-conforming", "err", err, "fields", len(st.Fields))
			return
		}
		if !bytes.Equal(out, want) {
			dec, derr := tref.Decode(out, tref.STRUCT)
			missing := 0
			if derr == nil {
				for _, f := range v.Fs {
					if dec.FieldByID(f.ID) == nil {
						missing++
					}
				}
			}
			cs.Viol("j2t:wide:bytes", "fields", len(st.Fields), "members", len(v.Fs), "members-missing-in-output", missing, "decode-error", derr)
			return
		}
		cs.Cover("wide_struct_ok")
		cs.Distinct(fmt.Sprintf("w-%d-%d-%d", n, style, len(v.Fs)/8))
	})
}

func runC02(c *h.Ctx) {
	defer nameCasePhase(c, "j2t") // key spellings from name-case annotations (last: registers the agw./janus. annotations process-wide)
	defer c02RootValues(c)
	defer c02WideStructs(c)
	defer c02BinaryAfterGrowth(c)
	// ---- conforming documents --------------------------------------------------------
	c.Run("docs", c.N(6000, 250000), func(cs *h.Case) {
		cc, ok := c02Make(cs)
		if !ok {
			return
		}
		cs.Info("model", cc.model.String())
		_, good := c02Run(cs, cc)
		if good {
			// the same value through another spelling and through DoInto with a tight buffer must give the same bytes
			sp := JSpell{WS: 2, EscapeAll: true, NumExp: true}
			doc2 := RenderJSON(cs.R, cc.model, cc.root, sp, JOpts{NoBase64Binary: cc.opts.NoBase64Binary})
			c2 := *cc
			c2.doc = doc2
			c2.kind = "doc-respelled"
			c02Run(cs, &c2)
			cv := j2t.NewBinaryConv(cc.opts)
			canary := []byte{0xde, 0xad}
			capn := len(canary) + cs.R.Intn(len(cc.want)+8)
			buf := append(make([]byte, 0, capn), canary...)
			err := cv.DoInto(context.Background(), cc.desc, []byte(cc.doc), &buf)
			if err != nil || len(buf) < 2 || !bytes.Equal(buf[:2], canary) || !bytes.Equal(buf[2:], cc.want) {
				cs.Viol("j2t:DoInto:capacity-dependent", "cap", capn, "err", err, "got", buf, "want", cc.want)
			}
			cs.Cover("j2t_DoInto")
		}
		cs.Distinct(fmt.Sprintf("d-%v-%v-%v-%s", cc.opts.String2Int64, cc.opts.NoBase64Binary, cc.opts.DisallowUnknownField, shapeKey(cc.model)[:min(len(shapeKey(cc.model)), 22)]))
		if cs.I == 2 {
			cs.Sample(map[string]interface{}{"idl": cc.idl, "doc": cc.doc, "expected": hexs(cc.want)})
		}
	})

	// ---- null / unknown members ---------------------------------------------------------
	c.Run("null-unknown", c.N(2500, 60000), func(cs *h.Case) {
		cc, hasUnknown, n := c02NullUnknownCase(cs)
		if cc == nil {
			return
		}
		c02Run(cs, cc)
		cs.Distinct(fmt.Sprintf("nu-%v-%v-%d", hasUnknown, cc.opts.DisallowUnknownField, n))
	})

	// ---- kind contradictions / malformed inside -------------------------------------------
	c.Run("negative", c.N(3000, 80000), func(cs *h.Case) {
		cc, ok := c02Make(cs)
		if !ok {
			return
		}
		cc.opts.String2Int64 = false
		cc.opts.EnableValueMapping = false
		if cs.R.Bool() {
			doc := c02FlipKind(cs, cc)
			if doc == "" {
				return
			}
			cc.doc = doc
			cc.kind = "kind-flip"
		} else {
			// structural damage inside the top-level value: remove one structural token
			plain := RenderJSON(cs.R, cc.model, cc.root, JSpell{}, JOpts{NoBase64Binary: cc.opts.NoBase64Binary})
			var pos []int
			inStr := false
			for i := 0; i < len(plain); i++ {
				ch := plain[i]
				if ch == '\\' && inStr {
					i++
					continue
				}
				if ch == '"' {
					inStr = !inStr
					pos = append(pos, i)
					continue
				}
				if !inStr && strings.IndexByte("{}[]:,", ch) >= 0 && i > 0 && i < len(plain)-1 {
					pos = append(pos, i)
				}
			}
			if len(pos) == 0 {
				return
			}
			p := pos[cs.R.Intn(len(pos))]
			if p == 0 || p == len(plain)-1 {
				return
			}
			cc.doc = plain[:p] + plain[p+1:]
			if _, perr := ParseJSON([]byte(cc.doc)); perr == nil {
				return // still valid JSON (e.g. removed a quote pair member): not a malformed document
			}
			cc.kind = "malformed"
		}
		cc.wantErr = "any"
		c02Run(cs, cc)
		cs.Distinct("neg-" + cc.kind + "-" + fmt.Sprint(cs.I%97))
	})

	// ---- output buffer growth at every offset (native re-entry on ERR_OOM_BUF) ----------------
	growSchema := &gen.StructT{Name: "Grow", Fields: []*gen.FieldT{
		{ID: 1, Name: "l", T: &gen.Type{T: tref.LIST, Elem: &gen.Type{T: tref.I64}}},
		{ID: 2, Name: "d", T: &gen.Type{T: tref.LIST, Elem: &gen.Type{T: tref.DOUBLE}}},
		{ID: 3, Name: "m", T: &gen.Type{T: tref.MAP, Key: &gen.Type{T: tref.I64}, Elem: &gen.Type{T: tref.I64}}},
		{ID: 4, Name: "s", T: &gen.Type{T: tref.STRING}},
		{ID: 5, Name: "in", T: &gen.Type{T: tref.STRUCT}},
		{ID: 6, Name: "ls", T: &gen.Type{T: tref.LIST, Elem: &gen.Type{T: tref.STRING}}},
	}}
	growSchema.Fields[4].T.S = growSchema
	growSchema.Fields[4].Req = gen.ReqOptional
	growSc := &gen.Schema{Structs: []*gen.StructT{growSchema}, Root: growSchema}
	var growDesc *thrift.TypeDescriptor
	c.Run("buffer-growth", c.N(1500, 40000), func(cs *h.Case) {
		if growDesc == nil {
			d, _, err := ParseRoot(growSc, thrift.NewDefaultOptions())
			if err != nil {
				cs.Viol("j2t:parse-idl", "err", err)
				return
			}
			growDesc = d
		}
		root := structType(growSchema)
		// short JSON, long thrift: lists of small i64/doubles (2 JSON bytes -> 8 thrift bytes)
		v := tref.Struct()
		n := []int{1, 2, 3, 10, 100, 600, 2000}[cs.R.Intn(7)]
		l := &tref.Val{T: tref.LIST, ET: tref.I64}
		for i := 0; i < n; i++ {
			l.L = append(l.L, tref.Int64(int64(cs.R.Intn(10))))
		}
		v.Fs = append(v.Fs, tref.Field{ID: 1, V: l})
		if cs.R.Bool() {
			d := &tref.Val{T: tref.LIST, ET: tref.DOUBLE}
			for i := 0; i < n/2; i++ {
				d.L = append(d.L, tref.Double(float64(cs.R.Intn(10))))
			}
			v.Fs = append(v.Fs, tref.Field{ID: 2, V: d})
		}
		if cs.R.Bool() {
			v.Fs = append(v.Fs, tref.Field{ID: 4, V: tref.Str(strings.Repeat("x", cs.R.Intn(50)))})
			inner := tref.Struct(tref.Field{ID: 1, V: l.Clone()})
			v.Fs = append(v.Fs, tref.Field{ID: 5, V: inner})
		}
		doc := RenderJSON(cs.R, v, root, JSpell{}, JOpts{})
		want := tref.Encode(v)
		cs.Info("doc-len", len(doc))
		cs.Info("want-len", len(want))
		cv := j2t.NewBinaryConv(conv.Options{})
		// fresh pooled state machines so that internal caches are at their initial sizes
		if cs.R.Chance(20) {
			runtime.GC()
			runtime.GC()
		}
		// sweep initial capacities: every k around each "interesting" offset
		caps := []int{0, 1, 2, 3, 7, 8, 9, len(doc) - 1, len(doc), len(doc) + 1, len(want) - 1, len(want), len(want) + 1}
		for i := 0; i < 12; i++ {
			caps = append(caps, cs.R.Intn(len(want)+16))
		}
		for _, k := range caps {
			if k < 0 {
				continue
			}
			buf := make([]byte, 0, k)
			err := cv.DoInto(context.Background(), growDesc, []byte(doc), &buf)
			if err != nil || !bytes.Equal(buf, want) {
				cs.Viol("j2t:buffer-growth:capacity-dependent", "cap", k, "err", err, "got-len", len(buf), "want-len", len(want))
				break
			}
			if len(want) > len(doc) && k <= len(doc) {
				cs.Cover("forced_output_growth") // output longer than the guarded capacity: the native code had to hand back for more room
			}
		}
		// results of Do of every size (below and above the pooled buffer's default size) belong to the caller: they are
		// held while other conversions run
		out1, err1 := cv.Do(context.Background(), growDesc, []byte(doc))
		if err1 != nil || !bytes.Equal(out1, want) {
			cs.Viol("j2t:buffer-growth:Do", "err", err1, "got-len", len(out1), "want-len", len(want))
			return
		}
		other := RenderJSON(cs.R, tref.Struct(tref.Field{ID: 4, V: tref.Str(strings.Repeat("\u00e9", 3000+cs.R.Intn(3000)))}), root, JSpell{}, JOpts{})
		for k := 0; k < 2; k++ {
			cv2 := j2t.NewBinaryConv(conv.Options{})
			cv2.Do(context.Background(), growDesc, []byte(other))
		}
		if !bytes.Equal(out1, want) {
			cs.Viol("j2t:Do:result-changed-by-later-calls", "len", len(want))
			return
		}
		cs.Cover("do_result_held_intact")
		if len(want) > 4096 {
			cs.Cover("do_result_held_intact_above_default_buffer")
		}
		cs.Cover("growth_docs")
		cs.Distinct(fmt.Sprintf("g-%d-%d", n, len(v.Fs)))
	})

	// ---- EnableThriftBase: the request base comes from the context ------------------------------
	baseIDL := `namespace go base
struct TrafficEnv { 1: bool Open = false, 2: string Env = "", }
struct Base { 1: string LogID = "", 2: string Caller = "", 3: string Addr = "", 4: string Client = "", 5: optional TrafficEnv TrafficEnv, 6: optional map<string, string> Extra, }
struct BaseResp { 1: string StatusMessage = "", 2: i32 StatusCode = 0, 3: optional map<string, string> Extra, }
`
	mainIDL := `include "base.thrift"
namespace go verif
struct Req { 1: string Msg, 2: i64 N, 3: list<i32> L, 255: base.Base Base, }
struct Req7 { 1: string Msg, 2: i64 N, 3: list<i32> L, 7: base.Base Base, }
struct ReqNo { 1: string Msg, 2: i64 N, 3: list<i32> L, }
service Svc { Req M(1: Req req), Req7 M7(1: Req7 req), ReqNo MNo(1: ReqNo req), }
`
	var baseDesc, baseDesc7, baseDescNo *thrift.TypeDescriptor
	c.Run("thrift-base", c.N(800, 20000), func(cs *h.Case) {
		if baseDesc == nil {
			opts := thrift.NewDefaultOptions()
			opts.EnableThriftBase = true
			svc, err := opts.NewDescritorFromContent(context.Background(), "main.thrift", mainIDL, map[string]string{"base.thrift": baseIDL}, false)
			if err != nil {
				cs.Viol("j2t:parse-idl", "err", err)
				return
			}
			d, err := RootOf(svc, "M")
			if err != nil {
				cs.Viol("j2t:parse-idl", "err", err)
				return
			}
			baseDesc = d
			baseDesc7, _ = RootOf(svc, "M7")
			baseDescNo, _ = RootOf(svc, "MNo")
		}
		b := &base.Base{LogID: string(gen.GenStr(cs.R, gen.ValCfg{MaxStr: 30})), Caller: "c", Addr: string(gen.GenStr(cs.R, gen.ValCfg{MaxStr: 20})), Client: ""}
		if cs.R.Bool() {
			b.TrafficEnv = &base.TrafficEnv{Open: cs.R.Bool(), Env: "env"}
		}
		if cs.R.Bool() {
			b.Extra = map[string]string{"k": string(gen.GenStr(cs.R, gen.ValCfg{MaxStr: 40}))}
		}
		bb := make([]byte, b.BLength())
		b.FastWrite(bb)
		body := tref.Struct()
		if cs.R.Bool() {
			body.Fs = append(body.Fs, tref.Field{ID: 1, V: tref.Bin(gen.GenStr(cs.R, gen.ValCfg{MaxStr: 60}))})
		}
		if cs.R.Bool() {
			body.Fs = append(body.Fs, tref.Field{ID: 2, V: tref.Int64(gen.GenInt(cs.R, tref.I64))})
		}
		reqT := &gen.StructT{Name: "Req", Fields: []*gen.FieldT{{ID: 1, Name: "Msg", T: &gen.Type{T: tref.STRING}}, {ID: 2, Name: "N", T: &gen.Type{T: tref.I64}}, {ID: 3, Name: "L", T: &gen.Type{T: tref.LIST, Elem: &gen.Type{T: tref.I32}}}}}
		doc := RenderJSON(cs.R, body, structType(reqT), JSpell{WS: cs.R.Intn(2)}, JOpts{})
		rest := tref.Encode(body) // includes the STOP
		want := append([]byte{tref.STRUCT, 0, 255}, bb...)
		want = append(want, rest...)
		// the context may carry the other values of the converters as well, attached before or after the base:
		// each lives under its own key
		ctx := context.Background()
		others := []func(){
			func() { ctx = context.WithValue(ctx, conv.CtxKeyThriftRespBase, base.NewBaseResp()) },
			func() { ctx = context.WithValue(ctx, conv.CtxKeyHTTPRequest, c12HTTPReq(nil, true)) },
			func() { ctx = context.WithValue(ctx, conv.CtxKeyHTTPResponse, dhttp.NewHTTPResponse()) },
		}
		for _, add := range others {
			if cs.R.Chance(25) {
				add()
				cs.Cover("thrift_base_ctx_other_value_before")
			}
		}
		ctx = context.WithValue(ctx, conv.CtxKeyThriftReqBase, b)
		for _, add := range others {
			if cs.R.Chance(25) {
				add()
				cs.Cover("thrift_base_ctx_other_value_after")
			}
		}
		cv := j2t.NewBinaryConv(conv.Options{EnableThriftBase: true})
		cs.Info("doc", doc)
		cs.Info("base-len", len(bb))
		out, err := cv.Do(ctx, baseDesc, []byte(doc))
		if err != nil || !bytes.Equal(out, want) {
			cs.Viol("j2t:thrift-base:Do", "err", err, "got", out, "want", want)
			return
		}
		// capacity sweep around the size of the base
		caps := []int{0, 1, 2, 3}
		for d := -4; d <= 8; d++ {
			caps = append(caps, len(bb)+d, len(bb)+len(doc)+d, len(want)+d)
		}
		for _, k := range caps {
			if k < 0 {
				continue
			}
			var buf []byte
			var derr error
			func() {
				defer func() {
					if r := recover(); r != nil {
						derr = fmt.Errorf("panic: %v", r)
					}
				}()
				buf = make([]byte, 0, k)
				derr = cv.DoInto(ctx, baseDesc, []byte(doc), &buf)
			}()
			if derr != nil || !bytes.Equal(buf, want) {
				cs.Viol("j2t:thrift-base:capacity-dependent", "cap", k, "err", derr, "base-len", len(bb), "doc-len", len(doc))
				break
			}
		}
		// the same converter on other root descriptors: the base goes where THAT descriptor declares it
		if baseDesc7 != nil && baseDescNo != nil {
			want7 := append(append([]byte{tref.STRUCT, 0, 7}, bb...), rest...)
			for k := 0; k < 4; k++ {
				d, w, name := baseDesc, want, "id255"
				switch cs.R.Intn(3) {
				case 1:
					d, w, name = baseDesc7, want7, "id7"
				case 2:
					d, w, name = baseDescNo, rest, "none"
				}
				var o []byte
				var e error
				if cs.R.Bool() {
					o, e = cv.Do(ctx, d, []byte(doc))
				} else {
					e = cv.DoInto(ctx, d, []byte(doc), &o)
				}
				if e != nil || !bytes.Equal(o, w) {
					cs.Viol("j2t:thrift-base:converter-reused-across-descriptors", "desc", name, "step", k, "err", e, "got", o, "want", w)
					break
				}
				cs.Cover("thrift_base_reused_converter_" + name)
			}
		}
		cs.Cover("thrift_base_docs")
		cs.Distinct(fmt.Sprintf("tb-%d-%d", len(bb), len(body.Fs)))
	})

	// ---- deep nesting up to and beyond the depth limit ------------------------------------------
	c.Run("depth", c.N(60, 600), func(cs *h.Case) {
		if growDesc == nil {
			d, _, err := ParseRoot(growSc, thrift.NewDefaultOptions())
			if err != nil {
				return
			}
			growDesc = d
		}
		depths := []int{1, 2, 10, 100, 500, 1000, 2000, 4000, 4090, 4094, 4095, 4096, 4097, 5000, 10000}
		d := depths[cs.I%len(depths)]
		doc := strings.Repeat(`{"in":`, d) + `{"s":"x"}` + strings.Repeat(`}`, d)
		cs.Info("depth", d)
		cv := j2t.NewBinaryConv(conv.Options{})
		out, err := cv.Do(context.Background(), growDesc, []byte(doc))
		if err == nil {
			// must be the exact encoding
			v := tref.Struct(tref.Field{ID: 4, V: tref.Str("x")})
			for i := 0; i < d; i++ {
				v = tref.Struct(tref.Field{ID: 5, V: v})
			}
			if !bytes.Equal(out, tref.Encode(v)) {
				cs.Viol("j2t:depth:wrong-encoding", "depth", d)
			}
			cs.Cover("depth_accepted")
		} else {
			cs.Cover("depth_rejected")
		}
		cs.Distinct(fmt.Sprintf("depth-%d", d))
	})
	runJSConvJ2T(c)
	runDoubleSpelling(c)
}

// doubleSpellingCase builds one document of hard double spellings and the struct it denotes.
func doubleSpellingCase(cs *h.Case) (string, *tref.Val, bool) {
	exact := func(x *big.Float) string {
		t := x.Text('f', 1100)
		if strings.Contains(t, ".") {
			t = strings.TrimRight(t, "0")
			if strings.HasSuffix(t, ".") {
				t += "0"
			}
		}
		return t
	}
	var texts []string
	for k := 0; k < 6; k++ {
		var f float64
		switch cs.R.Intn(4) {
		case 0:
			f = float64(int64(1)<<53) + float64(cs.R.Intn(4096)*2) // integers just above 2^53
		case 1:
			f = math.Float64frombits(cs.R.U64()&0x7fefffffffffffff | 0x0010000000000000) // random normal
		case 2:
			f = math.Ldexp(1+float64(cs.R.Intn(1<<20))/float64(1<<20), cs.R.Intn(120)-60)
		default:
			f = gen.GenDouble(cs.R, false)
		}
		if math.IsInf(f, 0) || math.IsNaN(f) || f == 0 {
			f = 1
		}
		f = math.Abs(f)
		if f < 1e-280 || f > 1e280 {
			f = 1.5
		}
		next := math.Nextafter(f, math.Inf(1))
		bf := new(big.Float).SetPrec(4000).SetFloat64(f)
		bn := new(big.Float).SetPrec(4000).SetFloat64(next)
		mid := new(big.Float).SetPrec(4000).Add(bf, bn)
		mid.Quo(mid, big.NewFloat(2))
		m := exact(mid)
		if !strings.Contains(m, ".") {
			m += ".0"
		}
		sign := ""
		if cs.R.Bool() {
			sign = "-"
		}
		switch cs.R.Intn(5) {
		case 0:
			texts = append(texts, sign+exact(bf)) // exact expansion of the float itself
		case 1:
			texts = append(texts, sign+m) // exact tie: round half to even
		case 2:
			texts = append(texts, sign+m+"0000000000000000000001") // a hair above the midpoint
		case 3:
			texts = append(texts, sign+exact(bf)+strings.Repeat("9", 40)) // long mantissa just above f
		default:
			// a hair below the midpoint: drop the last digit of the midpoint's expansion and append 9s
			texts = append(texts, sign+m[:len(m)-1]+"4999999999999999999999")
		}
	}
	want := tref.Struct()
	var vals []*tref.Val
	for _, t := range texts {
		x, err := strconv.ParseFloat(t, 64)
		if err != nil {
			cs.Cover("oracle_parse_failed")
			return "", nil, false
		}
		vals = append(vals, tref.Double(x))
	}
	want.Fs = append(want.Fs, tref.Field{ID: 1, V: vals[0]}, tref.Field{ID: 2, V: &tref.Val{T: tref.LIST, ET: tref.DOUBLE, L: vals[1:]}})
	doc := `{"d":` + texts[0] + `,"l":[` + strings.Join(texts[1:], ",") + `]}`
	return doc, want, true
}

// runDoubleSpelling: "independent of number spelling" for doubles whose decimal text needs the slow, exact path of
// the number parser: exact decimal expansions (hundreds of digits), exact midpoints between adjacent float64 values
// (ties to even) and texts a hair above / below a midpoint. The expected value is strconv.ParseFloat of the text.
func runDoubleSpelling(c *h.Ctx) {
	st := &gen.StructT{Name: "Dbl", Fields: []*gen.FieldT{
		{ID: 1, Name: "d", T: &gen.Type{T: tref.DOUBLE}},
		{ID: 2, Name: "l", T: &gen.Type{T: tref.LIST, Elem: &gen.Type{T: tref.DOUBLE}}},
	}}
	sc := &gen.Schema{Structs: []*gen.StructT{st}, Root: st}
	var desc *thrift.TypeDescriptor
	c.Run("double-spelling", c.N(1500, 60000), func(cs *h.Case) {
		if desc == nil {
			d, _, err := ParseRoot(sc, thrift.NewDefaultOptions())
			if err != nil {
				cs.Viol("j2t:parse-idl", "err", err)
				return
			}
			desc = d
		}
		doc, want, ok := doubleSpellingCase(cs)
		if !ok {
			return
		}
		cs.Info("json", trunc(doc))
		cv := j2t.NewBinaryConv(conv.Options{})
		tr := h.TrapCopy([]byte(doc), cs.R.Bool(), true)
		defer tr.Free()
		out, err := cv.Do(context.Background(), desc, tr.B)
		if err != nil {
			cs.Viol("j2t:double-spelling:error-on-conforming", "err", err)
			return
		}
		got, derr := tref.Decode(out, tref.STRUCT)
		if derr != nil {
			cs.Viol("j2t:double-spelling:malformed-output", "decode-error", derr)
			return
		}
		if !tref.Equal(got, want) {
			if equalModNegZero(got, want) {
				cs.Viol("j2t:double-spelling:neg-zero-sign-lost", "got", got.String())
				return
			}
			cs.Viol("j2t:double-spelling:value", "first-diff", firstDiff(got, want, ""), "got", got.String(), "want", want.String())
			return
		}
		cs.Cover("double_spelling_ok")
		cs.CoverN("double_texts_checked", 6)
		cs.Distinct(fmt.Sprintf("ds-%d", cs.I))
	})
}

// firstDiff describes the first difference between two models.
func firstDiff(a, b *tref.Val, path string) string {
	if a.T != b.T {
		return fmt.Sprintf("%s: type %s vs %s", path, tref.TypeName(a.T), tref.TypeName(b.T))
	}
	switch a.T {
	case tref.STRUCT:
		for i := 0; i < len(a.Fs) && i < len(b.Fs); i++ {
			if a.Fs[i].ID != b.Fs[i].ID {
				return fmt.Sprintf("%s: field order/ids: got %d want %d at position %d", path, a.Fs[i].ID, b.Fs[i].ID, i)
			}
			if d := firstDiff(a.Fs[i].V, b.Fs[i].V, fmt.Sprintf("%s.%d", path, a.Fs[i].ID)); d != "" {
				return d
			}
		}
		if len(a.Fs) != len(b.Fs) {
			return fmt.Sprintf("%s: %d fields vs %d", path, len(a.Fs), len(b.Fs))
		}
	case tref.LIST, tref.SET, tref.MAP:
		if len(a.L) != len(b.L) || a.ET != b.ET || a.KT != b.KT {
			return fmt.Sprintf("%s: container header got (%d,%d,%d) want (%d,%d,%d)", path, a.KT, a.ET, len(a.L), b.KT, b.ET, len(b.L))
		}
		for i := range a.L {
			if a.T == tref.MAP {
				if d := firstDiff(a.K[i], b.K[i], fmt.Sprintf("%s.key[%d]", path, i)); d != "" {
					return d
				}
			}
			if d := firstDiff(a.L[i], b.L[i], fmt.Sprintf("%s[%d]", path, i)); d != "" {
				return d
			}
		}
	default:
		if !tref.Equal(a, b) {
			return fmt.Sprintf("%s: got %s want %s", path, a.String(), b.String())
		}
	}
	return ""
}

// equalModNegZero: equal except that -0.0 and +0.0 doubles are identified.
func equalModNegZero(a, b *tref.Val) bool {
	x, y := a.Clone(), b.Clone()
	norm := func(v *tref.Val) {
		tref.Walk(v, func(n *tref.Val, d int) {
			if n.T == tref.DOUBLE && n.F == 0 {
				n.F = 0
			}
		})
	}
	norm(x)
	norm(y)
	return tref.Equal(x, y)
}

// c02BinaryAfterGrowth: a base64 binary field behind members whose encoding is larger than their text (numbers
// in lists), converted with DoInto into a caller's buffer that ends in front of a canary region. The output
// must be the model's bytes whatever the buffer's capacity, and nothing may be stored behind the capacity.
//
// Known finding C02-K4 (native only): j2t_binary reserves 4 bytes and lets b64decode store the decoded bytes
// without looking at the capacity (it relies on "free room >= length of the input", which only holds on entry).
// Defect model: bytes behind the capacity change exactly when the buffer satisfied that entry condition (so the Go
// side did not re-allocate) and the room left in front of the blob is >= 4 and < 4 + its decoded size.
func c02BinaryAfterGrowth(c *h.Ctx) {
	const idl = `namespace go verif
struct S64 { 3: list<i64> C, 6: binary F, 7: string T }
struct SD { 3: list<double> C, 6: binary F, 7: string T }
struct S32 { 3: list<i32> C, 6: binary F, 7: string T }
service Svc { S64 M64(1: S64 req), SD MD(1: SD req), S32 M32(1: S32 req), }
`
	var descs [3]*thrift.TypeDescriptor
	c.Run("binary-after-growth", c.N(400, 6000), func(cs *h.Case) {
		if descs[0] == nil {
			svc, err := thrift.NewDescritorFromContent(context.Background(), "bag.thrift", idl, nil, false)
			if err != nil {
				cs.Viol("j2t:parse-idl", "err", err)
				return
			}
			for i, m := range []string{"M64", "MD", "M32"} {
				descs[i], _ = RootOf(svc, m)
			}
		}
		k := cs.R.Intn(3)
		et, esz := []byte{tref.I64, tref.DOUBLE, tref.I32}[k], []int{8, 8, 4}[k]
		D := []int{0, 1, 2, 3, 30, 700, 3000, 9000}[cs.R.Intn(8)] + cs.R.Intn(40)
		entryOK := cs.R.Chance(60)
		// the list must fit into a buffer of the document's size (otherwise the converter moves to a buffer of its
		// own in mid-call, where this monitor cannot see - and a store behind ITS capacity would corrupt the
		// worker's heap); a buffer that is too small on entry is only paired with lists that cannot use up the room
		nmax := (4 * D / 3) / (esz - 2)
		if !entryOK {
			nmax = 2
		}
		n := cs.R.Intn(nmax + 1)
		blob := cs.R.Bytes(D)
		tail := strings.Repeat("t", cs.R.Intn(30))
		var sb strings.Builder
		sb.WriteString(`{"C":[`)
		l := &tref.Val{T: tref.LIST, ET: et}
		for i := 0; i < n; i++ {
			if i > 0 {
				sb.WriteByte(',')
			}
			d := cs.R.Intn(10)
			sb.WriteByte(byte('0' + d))
			switch et {
			case tref.I64:
				l.L = append(l.L, tref.Int64(int64(d)))
			case tref.DOUBLE:
				l.L = append(l.L, tref.Double(float64(d)))
			default:
				l.L = append(l.L, tref.Int32(int32(d)))
			}
		}
		sb.WriteString(`],"F":"` + base64.StdEncoding.EncodeToString(blob) + `","T":"` + tail + `"}`)
		doc := sb.String()
		want := tref.Encode(tref.Struct(tref.Field{ID: 3, V: l}, tref.Field{ID: 6, V: tref.Bin(blob)}, tref.Field{ID: 7, V: tref.Str(tail)}))
		beforeBlob := 3 + 5 + n*esz + 3 // list field header + list header + elements + blob field header
		// the caller's buffer: prefix bytes, capacity, canary behind it
		prefix := []int{0, 0, 5, 300, 2000}[cs.R.Intn(5)]
		var capN int
		if entryOK {
			capN = prefix + len(doc) + cs.R.Intn(3)*cs.R.Intn(200) // free room >= len(doc): used as it is
		} else {
			capN = prefix + cs.R.Intn(len(doc)) // too small on entry: must be re-allocated before use
		}
		const canaryLen = 64 << 10
		region := make([]byte, capN+canaryLen)
		tr := h.TrapCopy(region, false, false)
		defer tr.Free()
		for i := range tr.B {
			tr.B[i] = 0xa5
		}
		buf := tr.B[0:prefix:capN]
		cv := j2t.NewBinaryConv(conv.Options{})
		cs.Info("shape", fmt.Sprintf("elem=%s n=%d blob=%d doc=%d prefix=%d cap=%d entry-room-ok=%v", tref.TypeName(et), n, D, len(doc), prefix, capN, entryOK))
		err := cv.DoInto(context.Background(), descs[k], []byte(doc), &buf)
		behind := 0
		for i := capN; i < len(tr.B); i++ {
			if tr.B[i] != 0xa5 {
				behind++
			}
		}
		room := capN - prefix - beforeBlob
		predicted := !h.Portable && entryOK && room >= 4 && room < 4+D
		if behind > 0 {
			if predicted {
				cs.Viol("j2t:binary-after-growth:stored-behind-capacity:room-used-up-before-blob", "bytes", behind, "room", room, "blob", D)
			} else {
				cs.Viol("j2t:binary-after-growth:stored-behind-capacity", "bytes", behind, "room", room, "blob", D, "entry-room-ok", entryOK)
			}
			return
		}
		if predicted {
			cs.Cover("binary_overflow_predicted_not_observed")
		}
		for i := 0; i < prefix; i++ {
			if buf[i] != 0xa5 {
				cs.Viol("j2t:binary-after-growth:prefix-clobbered", "at", i)
				return
			}
		}
		if err != nil || !bytes.Equal(buf[prefix:], want) {
			cs.Viol("j2t:binary-after-growth:bytes", "err", err, "got-len", len(buf)-prefix, "want-len", len(want))
			return
		}
		cs.Cover("binary_after_growth_ok")
		if entryOK {
			cs.Cover("binary_after_growth_buffer_used_as_is")
		}
		cs.Distinct(fmt.Sprintf("bag-%d-%d-%d-%v", k, n/100, D/500, entryOK))
	})
}
