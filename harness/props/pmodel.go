package props

import (
	"bytes"
	"fmt"
	"math"
	"reflect"
	"strings"

	dproto "github.com/cloudwego/dynamicgo/proto"
	"google.golang.org/protobuf/encoding/protowire"
	"google.golang.org/protobuf/proto"
	"google.golang.org/protobuf/reflect/protoreflect"
	"google.golang.org/protobuf/types/dynamicpb"

	"verifharness/gen"
	"verifharness/h"
	"verifharness/pref"
)

// PSchemaCompiled bundles the reference descriptors of a generated schema.
type PCompiled struct {
	Text string
	FD   protoreflect.FileDescriptor
	Root protoreflect.MessageDescriptor
}

func PCompile(sc *gen.PSchema) (*PCompiled, error) {
	text := sc.Proto()
	fd, _, err := pref.Compile("verif.proto", map[string]string{"verif.proto": text})
	if err != nil {
		return nil, fmt.Errorf("reference parser rejected generated schema: %v", err)
	}
	md := findMsg(fd, sc.Root.FullName())
	if md == nil {
		return nil, fmt.Errorf("root %s not found", sc.Root.FullName())
	}
	return &PCompiled{Text: text, FD: fd, Root: md}, nil
}

func findMsg(fd protoreflect.FileDescriptor, full string) protoreflect.MessageDescriptor {
	var rec func(ms protoreflect.MessageDescriptors) protoreflect.MessageDescriptor
	rec = func(ms protoreflect.MessageDescriptors) protoreflect.MessageDescriptor {
		for i := 0; i < ms.Len(); i++ {
			m := ms.Get(i)
			if string(m.FullName()) == full {
				return m
			}
			if r := rec(m.Messages()); r != nil {
				return r
			}
		}
		return nil
	}
	return rec(fd.Messages())
}

type PValCfg struct {
	NonFinite   bool
	InvalidUTF8 bool // never for string fields (protobuf-go rejects them); kept for bytes
	MaxElems    int
	MaxDepth    int
	AllFields   bool
	LongStr     bool // a fifth of the strings / bytes are 100-400 bytes long (messages whose length prefix needs 2 bytes)
}

func pScalar(r *h.Rand, fd protoreflect.FieldDescriptor, cfg PValCfg) protoreflect.Value {
	switch fd.Kind() {
	case protoreflect.BoolKind:
		return protoreflect.ValueOfBool(r.Bool())
	case protoreflect.Int32Kind, protoreflect.Sint32Kind, protoreflect.Sfixed32Kind:
		return protoreflect.ValueOfInt32(int32(gen.GenI64P(r)))
	case protoreflect.Int64Kind, protoreflect.Sint64Kind, protoreflect.Sfixed64Kind:
		return protoreflect.ValueOfInt64(gen.GenI64P(r))
	case protoreflect.Uint32Kind, protoreflect.Fixed32Kind:
		return protoreflect.ValueOfUint32(uint32(gen.GenU64(r)))
	case protoreflect.Uint64Kind, protoreflect.Fixed64Kind:
		return protoreflect.ValueOfUint64(gen.GenU64(r))
	case protoreflect.FloatKind:
		return protoreflect.ValueOfFloat32(gen.GenF32(r, cfg.NonFinite))
	case protoreflect.DoubleKind:
		if cfg.NonFinite && r.Chance(10) {
			return protoreflect.ValueOfFloat64(gen.GenNonFinite(r))
		}
		return protoreflect.ValueOfFloat64(gen.GenDouble(r, false))
	case protoreflect.StringKind:
		if cfg.LongStr && r.Chance(20) {
			return protoreflect.ValueOfString(strings.Repeat("long-string-", 9+r.Intn(25)))
		}
		return protoreflect.ValueOfString(string(gen.GenStr(r, gen.ValCfg{})))
	case protoreflect.BytesKind:
		if cfg.LongStr && r.Chance(20) {
			return protoreflect.ValueOfBytes(bytes.Repeat([]byte{0xfe, 0x01, 0x80, 0x7f}, 30+r.Intn(70)))
		}
		return protoreflect.ValueOfBytes(gen.GenStr(r, gen.ValCfg{InvalidUTF8: true}))
	case protoreflect.EnumKind:
		vals := fd.Enum().Values()
		return protoreflect.ValueOfEnum(vals.Get(r.Intn(vals.Len())).Number())
	}
	panic("pScalar: kind " + fd.Kind().String())
}

func pElems(r *h.Rand, cfg PValCfg, depth int) int {
	n := []int{0, 1, 1, 2, 2, 3, 4, 5, 8, 17}[r.Intn(10)]
	if depth > 1 && n > 3 {
		n = r.Intn(4)
	}
	if cfg.MaxElems > 0 && n > cfg.MaxElems {
		n = r.Intn(cfg.MaxElems + 1)
	}
	return n
}

// PGenMsg fills a dynamic message of type md with random values. Absent fields, default (zero)
// values and empty sub-messages all occur.
func PGenMsg(r *h.Rand, md protoreflect.MessageDescriptor, cfg PValCfg, depth int) *dynamicpb.Message {
	m := dynamicpb.NewMessage(md)
	fds := md.Fields()
	maxd := cfg.MaxDepth
	if maxd == 0 {
		maxd = 4
	}
	for i := 0; i < fds.Len(); i++ {
		fd := fds.Get(i)
		if !cfg.AllFields && !r.Chance(75) {
			continue
		}
		switch {
		case fd.IsMap():
			mp := m.Mutable(fd).Map()
			n := pElems(r, cfg, depth)
			if depth >= maxd && fd.MapValue().Kind() == protoreflect.MessageKind {
				n = 0
			}
			for k := 0; k < n; k++ {
				key := pScalar(r, fd.MapKey(), cfg).MapKey()
				var v protoreflect.Value
				if fd.MapValue().Kind() == protoreflect.MessageKind {
					v = protoreflect.ValueOfMessage(PGenMsg(r, fd.MapValue().Message(), cfg, depth+1))
				} else {
					v = pScalar(r, fd.MapValue(), cfg)
				}
				mp.Set(key, v)
			}
		case fd.IsList():
			l := m.Mutable(fd).List()
			n := pElems(r, cfg, depth)
			if depth >= maxd && fd.Kind() == protoreflect.MessageKind {
				n = 0
			}
			for k := 0; k < n; k++ {
				if fd.Kind() == protoreflect.MessageKind {
					l.Append(protoreflect.ValueOfMessage(PGenMsg(r, fd.Message(), cfg, depth+1)))
				} else {
					l.Append(pScalar(r, fd, cfg))
				}
			}
		case fd.Kind() == protoreflect.MessageKind:
			if depth >= maxd {
				continue
			}
			if r.Chance(12) {
				m.Set(fd, protoreflect.ValueOfMessage(dynamicpb.NewMessage(fd.Message()))) // present but empty
			} else {
				m.Set(fd, protoreflect.ValueOfMessage(PGenMsg(r, fd.Message(), cfg, depth+1)))
			}
		default:
			if fd.HasPresence() && r.Chance(30) {
				// explicit presence: a field set to its zero value is different from an absent one
				m.Set(fd, fd.Default())
			} else {
				m.Set(fd, pScalar(r, fd, cfg))
			}
		}
	}
	return m
}

func PMarshal(m proto.Message) []byte {
	b, err := proto.MarshalOptions{Deterministic: true}.Marshal(m)
	if err != nil {
		panic("reference marshal: " + err.Error())
	}
	return b
}

// pScalarGo is dynamicgo's documented Go representation of a scalar (proto/binary ReadBaseTypeWithDesc).
func pScalarGo(fd protoreflect.FieldDescriptor, v protoreflect.Value) interface{} {
	switch fd.Kind() {
	case protoreflect.BoolKind:
		return v.Bool()
	case protoreflect.Int32Kind, protoreflect.Sint32Kind, protoreflect.Sfixed32Kind:
		return int32(v.Int())
	case protoreflect.Int64Kind, protoreflect.Sint64Kind, protoreflect.Sfixed64Kind:
		return v.Int()
	case protoreflect.Uint32Kind:
		return uint32(v.Uint())
	case protoreflect.Fixed32Kind:
		return int32(uint32(v.Uint())) // ReadFixed32 returns int32 (same bits)
	case protoreflect.Uint64Kind:
		return v.Uint()
	case protoreflect.Fixed64Kind:
		return int64(v.Uint()) // ReadFixed64 returns int64 (same bits)
	case protoreflect.FloatKind:
		return float32(v.Float())
	case protoreflect.DoubleKind:
		return v.Float()
	case protoreflect.StringKind:
		return v.String()
	case protoreflect.BytesKind:
		return append([]byte{}, v.Bytes()...)
	case protoreflect.EnumKind:
		return dproto.EnumNumber(v.Enum())
	}
	panic("pScalarGo")
}

// PGoOpt selects among the Go shapes the descriptor-driven writer accepts.
type PGoOpt struct {
	ByName  bool // message -> map[string]interface{} keyed by field name
	StrMaps bool // string-keyed proto maps as map[string]interface{}
	IntMaps bool // integer-keyed proto maps as map[int]interface{} (needs cast on the writer)
}

// PToGo converts a reference message to the Go value proto/binary.ReadAnyWithDesc documents:
// message -> map[FieldNumber]interface{} (or map[string] by field name), list -> []interface{},
// map -> map[interface{}]interface{}. Only populated fields are present.
func PToGo(m protoreflect.Message, byName bool) interface{} {
	return PToGoOpt(m, PGoOpt{ByName: byName})
}

func PToGoOpt(m protoreflect.Message, o PGoOpt) interface{} {
	byName := o.ByName
	var byNum map[dproto.FieldNumber]interface{}
	var byStr map[string]interface{}
	if byName {
		byStr = map[string]interface{}{}
	} else {
		byNum = map[dproto.FieldNumber]interface{}{}
	}
	m.Range(func(fd protoreflect.FieldDescriptor, v protoreflect.Value) bool {
		var g interface{}
		switch {
		case fd.IsMap():
			val := func(mv protoreflect.Value) interface{} {
				if fd.MapValue().Kind() == protoreflect.MessageKind {
					return PToGoOpt(mv.Message(), o)
				}
				return pScalarGo(fd.MapValue(), mv)
			}
			kk := fd.MapKey().Kind()
			switch {
			case o.StrMaps && kk == protoreflect.StringKind:
				mm := map[string]interface{}{}
				v.Map().Range(func(k protoreflect.MapKey, mv protoreflect.Value) bool {
					mm[k.String()] = val(mv)
					return true
				})
				g = mm
			case o.IntMaps && kk != protoreflect.StringKind && kk != protoreflect.BoolKind && kk != protoreflect.Uint64Kind && kk != protoreflect.Fixed64Kind:
				mm := map[int]interface{}{}
				v.Map().Range(func(k protoreflect.MapKey, mv protoreflect.Value) bool {
					switch kk {
					case protoreflect.Uint32Kind, protoreflect.Fixed32Kind:
						mm[int(k.Uint())] = val(mv)
					default:
						mm[int(k.Int())] = val(mv)
					}
					return true
				})
				g = mm
			default:
				mm := map[interface{}]interface{}{}
				v.Map().Range(func(k protoreflect.MapKey, mv protoreflect.Value) bool {
					mm[pScalarGo(fd.MapKey(), k.Value())] = val(mv)
					return true
				})
				g = mm
			}
		case fd.IsList():
			l := v.List()
			out := make([]interface{}, 0, l.Len())
			for i := 0; i < l.Len(); i++ {
				if fd.Kind() == protoreflect.MessageKind {
					out = append(out, PToGoOpt(l.Get(i).Message(), o))
				} else {
					out = append(out, pScalarGo(fd, l.Get(i)))
				}
			}
			g = out
		case fd.Kind() == protoreflect.MessageKind:
			g = PToGoOpt(v.Message(), o)
		default:
			g = pScalarGo(fd, v)
		}
		if byName {
			byStr[string(fd.Name())] = g
		} else {
			byNum[dproto.FieldNumber(fd.Number())] = g
		}
		return true
	})
	if byName {
		return byStr
	}
	return byNum
}

// DeepEq compares Go values structurally: floats by bit pattern, maps unordered, []byte by content;
// a nil interface and an empty map are the same (an empty message).
func DeepEq(a, b interface{}) bool {
	if isEmptyish(a) && isEmptyish(b) {
		return true
	}
	if a == nil || b == nil {
		return false
	}
	ra, rb := reflect.ValueOf(a), reflect.ValueOf(b)
	if ra.Type() != rb.Type() {
		return false
	}
	switch ra.Kind() {
	case reflect.Float64:
		return math.Float64bits(ra.Float()) == math.Float64bits(rb.Float())
	case reflect.Float32:
		return math.Float32bits(float32(ra.Float())) == math.Float32bits(float32(rb.Float()))
	case reflect.Slice:
		if x, ok := a.([]byte); ok {
			return bytes.Equal(x, b.([]byte))
		}
		if ra.Len() != rb.Len() {
			return false
		}
		for i := 0; i < ra.Len(); i++ {
			if !DeepEq(ra.Index(i).Interface(), rb.Index(i).Interface()) {
				return false
			}
		}
		return true
	case reflect.Map:
		if ra.Len() != rb.Len() {
			return false
		}
		used := map[int]bool{}
		bk := rb.MapKeys()
		for _, k := range ra.MapKeys() {
			found := false
			for j, k2 := range bk {
				if used[j] {
					continue
				}
				if DeepEq(k.Interface(), k2.Interface()) && DeepEq(ra.MapIndex(k).Interface(), rb.MapIndex(k2).Interface()) {
					used[j] = true
					found = true
					break
				}
			}
			if !found {
				return false
			}
		}
		return true
	case reflect.Ptr:
		return DeepEq(ra.Elem().Interface(), rb.Elem().Interface())
	}
	return reflect.DeepEqual(a, b)
}

func isEmptyish(a interface{}) bool {
	if a == nil {
		return true
	}
	rv := reflect.ValueOf(a)
	return rv.Kind() == reflect.Map && rv.Len() == 0
}

// PEqual is proto.Equal with NaN == NaN (same bits not required by protobuf-go >= 1.33 which treats NaNs equal).
func PEqual(a, b proto.Message) bool { return proto.Equal(a, b) }

// c20Kinds is kept for signature stability (no sub-classification at present).
func c20Kinds(m protoreflect.Message) string { return "msg" }

// c20Shape is a coarse class of a message: kinds and cardinalities of populated fields (depth-limited).
func c20Shape(m protoreflect.Message) string {
	var sb bytes.Buffer
	var rec func(m protoreflect.Message, d int)
	rec = func(m protoreflect.Message, d int) {
		if d > 2 || sb.Len() > 60 {
			return
		}
		fds := m.Descriptor().Fields()
		for i := 0; i < fds.Len(); i++ {
			fd := fds.Get(i)
			if !m.Has(fd) {
				continue
			}
			c := byte('s')
			if fd.IsMap() {
				c = 'm'
			} else if fd.IsList() {
				c = 'l'
			}
			fmt.Fprintf(&sb, "%c%d", c, int(fd.Kind()))
			if fd.Kind() == protoreflect.MessageKind && !fd.IsMap() && !fd.IsList() {
				sb.WriteByte('(')
				rec(m.Get(fd).Message(), d+1)
				sb.WriteByte(')')
			}
		}
	}
	rec(m, 0)
	return sb.String()
}

func protoreflectString(s string) protoreflect.Value { return protoreflect.ValueOfString(s) }
func protoreflectMsg(m protoreflect.Message) protoreflect.Value {
	return protoreflect.ValueOfMessage(m)
}
func protoreflectU32(v uint32) protoreflect.Value { return protoreflect.ValueOfUint32(v) }
func protoreflectI32(v int32) protoreflect.Value  { return protoreflect.ValueOfInt32(v) }

// PNormEmpty clears (recursively) singular message fields that are present but empty. proto/generic
// deliberately removes a sub-message whose last field was unset ("length == 0 means had been deleted all
// the data in the field"), so present-but-empty and absent sub-messages are not distinguished by the C10 oracle.
func PNormEmpty(m protoreflect.Message) {
	m.Range(func(fd protoreflect.FieldDescriptor, v protoreflect.Value) bool {
		switch {
		case fd.IsMap():
			if fd.MapValue().Kind() == protoreflect.MessageKind {
				v.Map().Range(func(_ protoreflect.MapKey, mv protoreflect.Value) bool {
					PNormEmpty(mv.Message())
					return true
				})
			}
		case fd.IsList():
			if fd.Kind() == protoreflect.MessageKind {
				for i := 0; i < v.List().Len(); i++ {
					PNormEmpty(v.List().Get(i).Message())
				}
			}
		case fd.Kind() == protoreflect.MessageKind:
			PNormEmpty(v.Message())
			empty := true
			v.Message().Range(func(protoreflect.FieldDescriptor, protoreflect.Value) bool { empty = false; return false })
			if empty && len(v.Message().GetUnknown()) == 0 {
				m.Clear(fd)
			}
		}
		return true
	})
}

// PUnmarshal is proto.Unmarshal that reports a panic of the reference decoder (protobuf-go's dynamicpb
// panics on some malformed map entries) as a rejection.
func PUnmarshal(b []byte, m proto.Message) (err error) {
	defer func() {
		if r := recover(); r != nil {
			err = fmt.Errorf("reference decoder panicked on this input: %v", r)
		}
	}()
	return proto.Unmarshal(b, m)
}

// pShuffleWire permutes the field groups of a reference encoding (and, recursively, of its nested messages):
// protobuf-go's default (non-deterministic) marshalling of a dynamicpb message writes the populated fields in
// map-iteration order, so every such permutation is an encoding the reference implementation produces.  The
// records of one field number stay contiguous and in order (repeated elements, map entries), lengths do not
// change.  Returns the input when it cannot be walked.
func pShuffleWire(r *h.Rand, b []byte, md protoreflect.MessageDescriptor, depth int) []byte {
	return pShuffleWire1(r, b, md, depth, true)
}

func pShuffleWire1(r *h.Rand, b []byte, md protoreflect.MessageDescriptor, depth int, permute bool) []byte {
	type grp struct {
		num  protowire.Number
		data []byte
	}
	var groups []grp
	for off := 0; off < len(b); {
		num, wt, n := protowire.ConsumeTag(b[off:])
		if n < 0 {
			return b
		}
		m := protowire.ConsumeFieldValue(num, wt, b[off+n:])
		if m < 0 {
			return b
		}
		rec := b[off : off+n+m]
		if fd := md.Fields().ByNumber(num); fd != nil && wt == protowire.BytesType && depth < 6 &&
			(fd.Kind() == protoreflect.MessageKind || fd.IsMap()) {
			payload, pn := protowire.ConsumeBytes(b[off+n:])
			if pn >= 0 {
				sub := fd.Message() // the entry message for maps
				// map entries are always written key first: only their message values are permuted inside
				sh := pShuffleWire1(r, payload, sub, depth+1, !fd.IsMap())
				nr := append([]byte{}, b[off:off+n]...)
				nr = protowire.AppendBytes(nr, sh)
				if len(nr) == len(rec) {
					rec = nr
				}
			}
		}
		if len(groups) > 0 && groups[len(groups)-1].num == num {
			groups[len(groups)-1].data = append(groups[len(groups)-1].data, rec...)
		} else {
			// a number seen before in a non-adjacent place: keep everything as is
			for _, g := range groups {
				if g.num == num {
					return b
				}
			}
			groups = append(groups, grp{num, append([]byte{}, rec...)})
		}
		off += n + m
	}
	for i := len(groups) - 1; i > 0 && permute; i-- {
		j := r.Intn(i + 1)
		groups[i], groups[j] = groups[j], groups[i]
	}
	out := make([]byte, 0, len(b))
	for _, g := range groups {
		out = append(out, g.data...)
	}
	return out
}

// pPadTo128 re-sizes parts of m so that entered containers have an encoded length that is a multiple of 128 (the
// first length whose varint prefix has a continuation byte): packed fixed-width lists get 128 or 256 bytes of
// elements, singular sub-messages are padded through one of their string/bytes fields. Returns how many containers
// were sized that way.
func pPadTo128(r *h.Rand, m protoreflect.Message, depth int) int {
	n := 0
	fds := m.Descriptor().Fields()
	for i := 0; i < fds.Len(); i++ {
		fd := fds.Get(i)
		width := 0
		switch fd.Kind() {
		case protoreflect.Fixed32Kind, protoreflect.Sfixed32Kind, protoreflect.FloatKind:
			width = 4
		case protoreflect.Fixed64Kind, protoreflect.Sfixed64Kind, protoreflect.DoubleKind:
			width = 8
		}
		switch {
		case fd.IsList() && fd.IsPacked() && width > 0 && r.Bool():
			l := m.Mutable(fd).List()
			l.Truncate(0)
			for k := 128 * (1 + r.Intn(2)) / width; k > 0; k-- {
				l.Append(pScalar(r, fd, PValCfg{}))
			}
			n++
		case fd.Message() != nil && !fd.IsList() && !fd.IsMap() && depth < 3:
			sub := m.Mutable(fd).Message()
			n += pPadTo128(r, sub, depth+1)
			sfds := sub.Descriptor().Fields()
			for j := 0; j < sfds.Len(); j++ {
				sfd := sfds.Get(j)
				if sfd.IsList() || sfd.IsMap() || (sfd.Kind() != protoreflect.StringKind && sfd.Kind() != protoreflect.BytesKind) {
					continue
				}
				done := false
				for p := 1; p < 420 && !done; p++ {
					if sfd.Kind() == protoreflect.StringKind {
						sub.Set(sfd, protoreflect.ValueOfString(strings.Repeat("p", p)))
					} else {
						sub.Set(sfd, protoreflect.ValueOfBytes(bytes.Repeat([]byte{'p'}, p)))
					}
					if sz := proto.Size(sub.Interface()); sz%128 == 0 {
						done = true
						n++
					}
				}
				if done {
					break
				}
				sub.Clear(sfd)
			}
		}
	}
	return n
}
