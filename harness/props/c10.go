package props

import (
	"bytes"
	"context"
	"fmt"
	"strings"
	"verifharness/pref"

	dproto "github.com/cloudwego/dynamicgo/proto"
	pg "github.com/cloudwego/dynamicgo/proto/generic"
	"google.golang.org/protobuf/encoding/protowire"
	"google.golang.org/protobuf/proto"
	"google.golang.org/protobuf/reflect/protoreflect"
	"google.golang.org/protobuf/types/dynamicpb"

	"verifharness/gen"
	"verifharness/h"
)

func init() { h.Register("C10", runC10) }

// pScalarNode builds a proto/generic Node for a scalar of the given kind.
func pScalarNode(fd protoreflect.FieldDescriptor, v protoreflect.Value) pg.Node {
	switch fd.Kind() {
	case protoreflect.BoolKind:
		return pg.NewNodeBool(v.Bool())
	case protoreflect.Int32Kind:
		return pg.NewNodeInt32(int32(v.Int()))
	case protoreflect.Sint32Kind:
		return pg.NewNodeSint32(int32(v.Int()))
	case protoreflect.Sfixed32Kind:
		return pg.NewNodeSfixed32(int32(v.Int()))
	case protoreflect.Int64Kind:
		return pg.NewNodeInt64(v.Int())
	case protoreflect.Sint64Kind:
		return pg.NewNodeSint64(v.Int())
	case protoreflect.Sfixed64Kind:
		return pg.NewNodeSfixed64(v.Int())
	case protoreflect.Uint32Kind:
		return pg.NewNodeUint32(uint32(v.Uint()))
	case protoreflect.Fixed32Kind:
		return pg.NewNodeFixed32(uint32(v.Uint()))
	case protoreflect.Uint64Kind:
		return pg.NewNodeUint64(v.Uint())
	case protoreflect.Fixed64Kind:
		return pg.NewNodeFixed64(v.Uint())
	case protoreflect.FloatKind:
		return pg.NewNodeFloat(float32(v.Float()))
	case protoreflect.DoubleKind:
		return pg.NewNodeDouble(v.Float())
	case protoreflect.StringKind:
		return pg.NewNodeString(v.String())
	case protoreflect.BytesKind:
		return pg.NewNodeBytes(v.Bytes())
	case protoreflect.EnumKind:
		return pg.NewNodeEnum(int32(v.Enum()))
	}
	panic("pScalarNode")
}

// pNamePath rewrites the field-number steps of an id-addressed path into field-name steps.
func pNamePath(md protoreflect.MessageDescriptor, path []pg.Path) []pg.Path {
	out := make([]pg.Path, 0, len(path))
	var cur protoreflect.FieldDescriptor
	for _, st := range path {
		if st.Type() == pg.PathFieldId {
			if md == nil {
				return path
			}
			fd := md.Fields().ByNumber(protoreflect.FieldNumber(st.Id()))
			if fd == nil {
				return path
			}
			out = append(out, pg.NewPathFieldName(string(fd.Name())))
			cur = fd
			md = nil
			if fd.IsMap() {
				if fd.MapValue().Kind() == protoreflect.MessageKind {
					md = fd.MapValue().Message()
				}
			} else if fd.Kind() == protoreflect.MessageKind {
				md = fd.Message()
			}
			continue
		}
		_ = cur
		out = append(out, st)
	}
	return out
}

// ptarget is an editable position in the reference message.
type ptarget struct {
	path  []pg.Path
	owner protoreflect.Message // message that holds fd
	fd    protoreflect.FieldDescriptor
	kind  string // field | elem | mapval | append | mapins | absent-field
	idx   int
	key   protoreflect.MapKey
	via   string // how the owner is reached: root | msg | list | map (last non-message hop)
	depth int
}

func c10Targets(m protoreflect.Message, prefix []pg.Path, via string, depth int, out *[]ptarget) {
	if depth > 3 || len(*out) > 300 {
		return
	}
	fds := m.Descriptor().Fields()
	for i := 0; i < fds.Len(); i++ {
		fd := fds.Get(i)
		p := append(append([]pg.Path{}, prefix...), pg.NewPathFieldId(dproto.FieldNumber(fd.Number())))
		isMsg := fd.Kind() == protoreflect.MessageKind
		if !m.Has(fd) {
			if !fd.IsList() && !fd.IsMap() && !isMsg {
				*out = append(*out, ptarget{path: p, owner: m, fd: fd, kind: "absent-field", via: via, depth: depth})
			}
			continue
		}
		v := m.Get(fd)
		switch {
		case fd.IsMap():
			if fd.MapKey().Kind() == protoreflect.BoolKind {
				continue
			}
			v.Map().Range(func(k protoreflect.MapKey, mv protoreflect.Value) bool {
				var kp pg.Path
				if fd.MapKey().Kind() == protoreflect.StringKind {
					kp = pg.NewPathStrKey(k.String())
				} else {
					kp = pg.NewPathIntKey(pIntKey(fd.MapKey(), k))
				}
				ep := append(append([]pg.Path{}, p...), kp)
				if fd.MapValue().Kind() == protoreflect.MessageKind {
					c10Targets(mv.Message(), ep, addVia(via, "map"), depth+1, out)
				} else {
					*out = append(*out, ptarget{path: ep, owner: m, fd: fd, kind: "mapval", key: k, via: via, depth: depth})
				}
				return true
			})
			if fd.MapValue().Kind() != protoreflect.MessageKind {
				*out = append(*out, ptarget{path: p, owner: m, fd: fd, kind: "mapins", via: via, depth: depth})
			}
		case fd.IsList():
			l := v.List()
			for j := 0; j < l.Len(); j++ {
				ep := append(append([]pg.Path{}, p...), pg.NewPathIndex(j))
				if isMsg {
					c10Targets(l.Get(j).Message(), ep, addVia(via, "list"), depth+1, out)
				} else {
					*out = append(*out, ptarget{path: ep, owner: m, fd: fd, kind: "elem", idx: j, via: via, depth: depth})
				}
			}
			if !isMsg {
				*out = append(*out, ptarget{path: append(append([]pg.Path{}, p...), pg.NewPathIndex(l.Len())), owner: m, fd: fd, kind: "append", idx: l.Len(), via: via, depth: depth})
			}
		case isMsg:
			c10Targets(v.Message(), p, addVia(via, "msg"), depth+1, out)
		default:
			*out = append(*out, ptarget{path: p, owner: m, fd: fd, kind: "field", via: via, depth: depth})
		}
	}
}

// addVia accumulates the kinds of hops crossed on the way to a target (root | subset of list+map+msg).
func addVia(via, hop string) string {
	if via == "root" {
		return hop
	}
	has := map[string]bool{}
	for _, h := range strings.Split(via, "+") {
		has[h] = true
	}
	has[hop] = true
	var out []string
	for _, h := range []string{"list", "map", "msg"} {
		if has[h] {
			out = append(out, h)
		}
	}
	return strings.Join(out, "+")
}

func packedness(fd protoreflect.FieldDescriptor) string {
	if fd.IsList() {
		if fd.IsPacked() {
			return "packed"
		}
		return "unpacked"
	}
	return ""
}

func (t ptarget) class() string {
	k := t.kind
	if p := packedness(t.fd); p != "" {
		k += "-" + p
	}
	if t.fd.IsMap() {
		if t.fd.MapKey().Kind() == protoreflect.StringKind {
			k += "-strkey"
		} else {
			k += "-intkey"
		}
	}
	d := "nested"
	if t.depth == 0 {
		d = "root"
	}
	return k + "@" + d + "-via-" + t.via
}

// c10PrefixBoundaries: edits inside sub-messages whose length prefix is 1, 2 or 3 bytes wide and edits that move it
// across 127/128 and 16383/16384: unset of each field (first, middle, last on the wire), replacement of the padding
// string by one of another length, insertion of the absent last field; one and two levels deep.
func c10PrefixBoundaries(c *h.Ctx) {
	const text = "syntax = \"proto3\";\noption go_package = \"verif/pb\";\nmessage In { string pad = 1; int32 a = 2; In deep = 7; bool z = 15; }\nmessage Root { int32 x = 1; In in = 2; string tail = 3; }\nservice Svc { rpc M(Root) returns (Root); }\n"
	var pcached *PCompiled
	c.Run("prefix-boundaries", c.N(1500, 40000), func(cs *h.Case) {
		if pcached == nil {
			fd, _, err := pref.Compile("verif.proto", map[string]string{"verif.proto": text})
			if err != nil {
				panic("harness: " + err.Error())
			}
			pcached = &PCompiled{Text: text, FD: fd, Root: fd.Messages().ByName("Root")}
		}
		pc := pcached
		svc, err := dproto.NewDescritorFromContent(context.Background(), "verif.proto", text, nil)
		if err != nil {
			cs.Viol("pedit:parse", "err", err)
			return
		}
		desc := svc.LookupMethodByName("M").Input()
		lens := []int{0, 1, 100, 118, 119, 120, 121, 122, 123, 124, 125, 126, 127, 128, 129, 130, 200, 16370, 16378, 16380, 16381, 16382, 16383, 16384, 16390}
		inMD := pc.FD.Messages().ByName("In")
		mkIn := func(padLen int, withDeep bool) *dynamicpb.Message {
			in := dynamicpb.NewMessage(inMD)
			if padLen > 0 {
				in.Set(inMD.Fields().ByName("pad"), protoreflect.ValueOfString(strings.Repeat("p", padLen)))
			}
			if cs.R.Chance(80) {
				in.Set(inMD.Fields().ByName("a"), protoreflect.ValueOfInt32(int32(1+cs.R.Intn(100))))
			}
			if cs.R.Chance(70) {
				in.Set(inMD.Fields().ByName("z"), protoreflect.ValueOfBool(true))
			}
			if withDeep {
				d := dynamicpb.NewMessage(inMD)
				d.Set(inMD.Fields().ByName("pad"), protoreflect.ValueOfString(strings.Repeat("d", lens[cs.R.Intn(18)])))
				if cs.R.Bool() {
					d.Set(inMD.Fields().ByName("z"), protoreflect.ValueOfBool(true))
				}
				if cs.R.Bool() {
					d.Set(inMD.Fields().ByName("a"), protoreflect.ValueOfInt32(5))
				}
				in.Set(inMD.Fields().ByName("deep"), protoreflect.ValueOfMessage(d))
			}
			return in
		}
		m := dynamicpb.NewMessage(pc.Root)
		rootF := pc.Root.Fields()
		if cs.R.Bool() {
			m.Set(rootF.ByName("x"), protoreflect.ValueOfInt32(9))
		}
		withDeep := cs.R.Chance(40)
		in := mkIn(lens[cs.R.Intn(len(lens))], withDeep)
		m.Set(rootF.ByName("in"), protoreflect.ValueOfMessage(in))
		if cs.R.Bool() {
			m.Set(rootF.ByName("tail"), protoreflect.ValueOfString("tail"))
		}
		b := PMarshal(m)
		cs.Info("initial-len", len(b))
		root := pg.NewRootValue(desc, append([]byte{}, b...))
		// the message edited: in, or in.deep
		tgt, prefix := in, []pg.Path{pg.NewPathFieldId(2)}
		level := "sub"
		if withDeep && cs.R.Bool() {
			tgt = in.Get(inMD.Fields().ByName("deep")).Message().(*dynamicpb.Message)
			prefix = append(prefix, pg.NewPathFieldId(7))
			level = "subsub"
		}
		var log []string
		for step := 0; step < 1+cs.R.Intn(3); step++ {
			names := []string{"pad", "a", "z"}
			fd := inMD.Fields().ByName(protoreflect.Name(names[cs.R.Intn(3)]))
			path := append(append([]pg.Path{}, prefix...), pg.NewPathFieldId(dproto.FieldNumber(fd.Number())))
			var opErr error
			op := ""
			switch {
			case tgt.Has(fd) && cs.R.Chance(55) && c10Populated(tgt) > 1:
				// (a sub-message emptied by an unset is removed by design; re-creating it through a nested path is
				// outside the statement, so the last field is never unset)
				op = "unset:" + string(fd.Name())
				opErr = root.UnsetByPath(path...)
				tgt.Clear(fd)
			default:
				var nv protoreflect.Value
				switch fd.Name() {
				case "pad":
					nv = protoreflect.ValueOfString(strings.Repeat("q", 1+lens[cs.R.Intn(len(lens))]))
				case "a":
					nv = protoreflect.ValueOfInt32(int32(1 + cs.R.Intn(1<<20)))
				default:
					nv = protoreflect.ValueOfBool(true)
				}
				op = fmt.Sprintf("set:%s(present=%v,len=%d)", fd.Name(), tgt.Has(fd), len(nv.String()))
				_, opErr = root.SetByPath(pScalarNode(fd, nv), path...)
				tgt.Set(fd, nv)
			}
			log = append(log, op)
			cs.Info("log", log)
			cls := level + ":" + strings.SplitN(op, "(", 2)[0]
			if opErr != nil {
				cs.Viol("pedit:prefix:"+cls+":error", "err", opErr, "log", log)
				return
			}
			out := root.Raw()
			m2 := dynamicpb.NewMessage(pc.Root)
			if uerr := PUnmarshal(out, m2); uerr != nil {
				cs.Viol("pedit:prefix:"+cls+":rejected-by-reference", "err", uerr, "log", log, "out-len", len(out))
				return
			}
			PNormEmpty(m2)
			want := proto.Clone(m).(*dynamicpb.Message)
			PNormEmpty(want)
			if !proto.Equal(want, m2) {
				cs.Viol("pedit:prefix:"+cls+":different-message", "log", log, "got", trunc(fmt.Sprint(m2)), "want", trunc(fmt.Sprint(want)))
				return
			}
			cs.Cover("prefix_edit_ok")
			cs.Cover("prefix_edit_ok_" + cls)
		}
		cs.Distinct(fmt.Sprintf("pb-%s-%d-%s", level, len(b)/64, strings.Join(log, ",")))
	})
}

func c10Populated(m protoreflect.Message) int {
	n := 0
	m.Range(func(protoreflect.FieldDescriptor, protoreflect.Value) bool { n++; return true })
	return n
}

func runC10(c *h.Ctx) {
	defer c10PrefixBoundaries(c)
	// ---- DOM load + marshal ------------------------------------------------------
	c.Run("dom", c.N(3000, 100000), func(cs *h.Case) {
		sc := gen.GenPSchema(cs.R, gen.PCfg{MaxDepth: 2, MaxFields: 6, Nested: cs.R.Bool(), Enums: true, BigNums: true,
			KeyKinds: []string{"int32", "int64", "uint32", "uint64", "sint32", "sint64", "fixed32", "fixed64", "sfixed32", "sfixed64", "string"}})
		pc, err := PCompile(sc)
		if err != nil {
			cs.Cover("oracle_schema_rejected")
			return
		}
		cs.Info("proto", pc.Text)
		svc, err := dproto.NewDescritorFromContent(context.Background(), "verif.proto", pc.Text, nil)
		if err != nil {
			cs.Viol("pedit:parse", "err", err)
			return
		}
		desc := svc.LookupMethodByName("M").Input()
		m := PGenMsg(cs.R, pc.Root, PValCfg{NonFinite: true, MaxElems: 5, MaxDepth: 3}, 0)
		b := PMarshal(m)
		cs.Info("bytes", hexs(b))
		cs.Info("message", fmt.Sprint(m))
		recurse := cs.R.Bool()
		opts := &pg.Options{}
		tr := h.TrapCopy(b, cs.R.Bool(), true)
		defer tr.Free()
		tree := pg.NewPathNode()
		defer pg.FreePathNode(tree)
		tree.Node = pg.NewNode(dproto.MESSAGE, tr.B)
		mode := "lazy"
		if recurse {
			mode = "recurse"
		}
		if err := tree.Load(recurse, opts, desc); err != nil {
			cs.Viol("pdom:Load:error:"+mode, "err", err)
			return
		}
		out, err := tree.Marshal(opts)
		if err != nil {
			cs.Viol("pdom:Marshal:error:"+mode, "err", err)
			return
		}
		m2 := dynamicpb.NewMessage(pc.Root)
		if uerr := PUnmarshal(out, m2); uerr != nil {
			cs.Viol("pdom:Marshal:rejected-by-reference:"+mode, "err", uerr, "out", out)
		} else if !proto.Equal(m, m2) {
			cs.Viol("pdom:Marshal:different-message:"+mode, "got", fmt.Sprint(m2))
		}
		// the marshalled bytes belong to the caller: a second marshal (of another message) and a cut must not touch them
		held := append([]byte{}, out...)
		m3 := PGenMsg(cs.R, pc.Root, PValCfg{MaxElems: 5, MaxDepth: 3}, 0)
		b3 := PMarshal(m3)
		t3 := pg.NewPathNode()
		t3.Node = pg.NewNode(dproto.MESSAGE, b3)
		if t3.Load(true, opts, desc) == nil {
			t3.Marshal(opts)
		}
		pg.FreePathNode(t3)
		pg.NewRootValue(desc, b3).MarshalTo(desc, opts)
		if !bytes.Equal(out, held) {
			cs.Viol("pdom:Marshal:result-changed-by-later-calls:"+mode, "was", held, "now", out)
			return
		}
		cs.Cover("dom_marshal_result_held_intact")
		cs.Cover("dom_roundtrip_" + mode)
		cs.Distinct("dom-" + mode + "-" + c20Shape(m))
		if cs.I == 1 {
			cs.Sample(map[string]interface{}{"phase": "dom", "proto": pc.Text, "message": fmt.Sprint(m)})
		}
	})

	// ---- edit sessions -------------------------------------------------------------
	c.Run("edits", c.N(6000, 200000), func(cs *h.Case) {
		sc := gen.GenPSchema(cs.R, gen.PCfg{MaxDepth: 2, MaxFields: 5, Nested: cs.R.Bool(), Enums: true, BigNums: cs.R.Bool(),
			KeyKinds: []string{"int32", "int64", "uint32", "uint64", "sint32", "sint64", "fixed32", "fixed64", "sfixed32", "sfixed64", "string"}})
		pc, err := PCompile(sc)
		if err != nil {
			cs.Cover("oracle_schema_rejected")
			return
		}
		cs.Info("proto", pc.Text)
		svc, err := dproto.NewDescritorFromContent(context.Background(), "verif.proto", pc.Text, nil)
		if err != nil {
			cs.Viol("pedit:parse", "err", err)
			return
		}
		desc := svc.LookupMethodByName("M").Input()
		m := PGenMsg(cs.R, pc.Root, PValCfg{MaxElems: 4, MaxDepth: 3, LongStr: cs.R.Bool()}, 0)
		b := PMarshal(m)
		if cs.R.Chance(40) {
			// field groups in the arbitrary order protobuf-go's default marshalling writes them
			if sb := pShuffleWire(cs.R, b, pc.Root, 0); !bytes.Equal(sb, b) {
				b = sb
				cs.Cover("initial_wire_order_non_ascending")
			}
		}
		cs.Info("initial", fmt.Sprint(m))
		cs.Info("initial-bytes", hexs(b))
		root := pg.NewRootValue(desc, append([]byte{}, b...))
		nsteps := 1 + cs.R.Intn(6)
		var log []string
		for step := 0; step < nsteps; step++ {
			var ts []ptarget
			c10Targets(m, nil, "root", 0, &ts)
			if len(ts) == 0 {
				return
			}
			t := ts[cs.R.Intn(len(ts))]
			op := "set"
			if (t.kind == "field" || t.kind == "elem" || t.kind == "mapval") && cs.R.Chance(35) {
				op = "unset"
			}
			cls := op + ":" + t.class()
			byName := cs.R.Chance(30) // message fields addressed by name instead of number
			if byName {
				cs.Cover("edit_addressed_by_field_name")
			}
			var opErr error
			var exist bool
			switch {
			case op == "unset":
				log = append(log, fmt.Sprintf("unset %s (%s)", ppathStr(t.path), t.class()))
				cs.Info("log", log)
				ep := t.path
				if byName {
					ep = pNamePath(pc.Root, t.path)
				}
				opErr = root.UnsetByPath(ep...)
				switch t.kind {
				case "field":
					t.owner.Clear(t.fd)
				case "elem":
					// remove element idx
					l := t.owner.Mutable(t.fd).List()
					var keep []protoreflect.Value
					for j := 0; j < l.Len(); j++ {
						if j != t.idx {
							keep = append(keep, l.Get(j))
						}
					}
					l.Truncate(0)
					for _, v := range keep {
						l.Append(v)
					}
					if l.Len() == 0 {
						t.owner.Clear(t.fd)
					}
				case "mapval":
					t.owner.Mutable(t.fd).Map().Clear(t.key)
					if t.owner.Get(t.fd).Map().Len() == 0 {
						t.owner.Clear(t.fd)
					}
				}
			default:
				var nv protoreflect.Value
				var node pg.Node
				switch t.kind {
				case "field", "absent-field":
					nv = pScalar(cs.R, t.fd, PValCfg{})
					node = pScalarNode(t.fd, nv)
					t.owner.Set(t.fd, nv)
				case "elem":
					nv = pScalar(cs.R, t.fd, PValCfg{})
					node = pScalarNode(t.fd, nv)
					t.owner.Mutable(t.fd).List().Set(t.idx, nv)
				case "append":
					nv = pScalar(cs.R, t.fd, PValCfg{})
					node = pScalarNode(t.fd, nv)
					t.owner.Mutable(t.fd).List().Append(nv)
				case "mapval":
					nv = pScalar(cs.R, t.fd.MapValue(), PValCfg{})
					node = pScalarNode(t.fd.MapValue(), nv)
					t.owner.Mutable(t.fd).Map().Set(t.key, nv)
				case "mapins":
					var k protoreflect.MapKey
					var kp pg.Path
					ok := false
					for tries := 0; tries < 5 && !ok; tries++ {
						kv := pScalar(cs.R, t.fd.MapKey(), PValCfg{})
						k = kv.MapKey()
						if !t.owner.Get(t.fd).Map().Has(k) {
							ok = true
						}
					}
					if !ok {
						continue
					}
					if t.fd.MapKey().Kind() == protoreflect.StringKind {
						kp = pg.NewPathStrKey(k.String())
					} else {
						kp = pg.NewPathIntKey(pIntKey(t.fd.MapKey(), k))
					}
					t.path = append(append([]pg.Path{}, t.path...), kp)
					nv = pScalar(cs.R, t.fd.MapValue(), PValCfg{})
					node = pScalarNode(t.fd.MapValue(), nv)
					t.owner.Mutable(t.fd).Map().Set(k, nv)
				}
				log = append(log, fmt.Sprintf("set %s (%s) := %v", ppathStr(t.path), t.class(), nv.Interface()))
				cs.Info("log", log)
				ep := t.path
				if byName {
					ep = pNamePath(pc.Root, t.path)
				}
				exist, opErr = root.SetByPath(node, ep...)
				_ = exist // proto3 zero values written explicitly count as existing: the flag is not part of the statement
			}
			cs.Info("log", log)
			if opErr != nil {
				cs.Viol("pedit:"+cls+":error", "err", opErr, "log", log)
				root = pg.NewRootValue(desc, PMarshal(m)) // resync with the model and go on
				log = append(log, "(resync)")
				continue
			}
			out := root.Raw()
			m2 := dynamicpb.NewMessage(pc.Root)
			if uerr := PUnmarshal(out, m2); uerr != nil {
				cs.Viol("pedit:"+cls+":rejected-by-reference", "err", uerr, "out", out, "log", log)
				root = pg.NewRootValue(desc, PMarshal(m)) // resync with the model and go on
				log = append(log, "(resync)")
				continue
			}
			if !proto.Equal(m, m2) {
				// tolerate "emptied sub-message removed" (deliberate): compare with empty sub-messages cleared on both sides
				a, b2 := proto.Clone(m), proto.Clone(m2)
				PNormEmpty(a.ProtoReflect())
				PNormEmpty(b2.ProtoReflect())
				if !proto.Equal(a, b2) {
					cs.Viol("pedit:"+cls+":different-message", "got", fmt.Sprint(m2), "want", fmt.Sprint(m), "log", log)
					root = pg.NewRootValue(desc, PMarshal(m)) // resync with the model and go on
					log = append(log, "(resync)")
					continue
				}
				// continue the session from what the library produced
				m = m2
				cs.Cover("emptied_submessage_removed")
			}
			if len(out) <= 160 {
				log[len(log)-1] += " => " + fmt.Sprintf("%x", out)
			}
			// equal messages can hide a broken layout: a length prefix that is too short pushes the tail of a
			// sub-message into its parent, where it reads as a (repeated) singular field of the same number and the
			// last occurrence wins. A well-formed edit never makes a singular field occur twice in one message.
			if dup := pDupSingular(pc.Root, out, ""); dup != "" {
				cs.Viol("pedit:"+cls+":singular-field-duplicated", "where", dup, "out", out, "log", log)
				root = pg.NewRootValue(desc, PMarshal(m))
				log = append(log, "(resync)")
				continue
			}
			cs.Cover("op_" + cls)
			cs.Distinct("pe-" + cls + fmt.Sprintf("-%d", step))
		}
		if cs.I == 2 {
			cs.Sample(map[string]interface{}{"phase": "edits", "proto": pc.Text, "ops": log, "final": fmt.Sprint(m)})
		}
	})

	// ---- SetMany at the root: replacements of present fields and insertions of absent ones in one call
	c.Run("setmany-root", c.N(2500, 80000), func(cs *h.Case) {
		sc := gen.GenPSchema(cs.R, gen.PCfg{MaxDepth: 1, MaxFields: 8, Enums: true, BigNums: cs.R.Chance(40), NoMaps: cs.R.Bool()})
		pc, err := PCompile(sc)
		if err != nil {
			cs.Cover("oracle_schema_rejected")
			return
		}
		cs.Info("proto", pc.Text)
		svc, err := dproto.NewDescritorFromContent(context.Background(), "verif.proto", pc.Text, nil)
		if err != nil {
			cs.Viol("pedit:parse", "err", err)
			return
		}
		desc := svc.LookupMethodByName("M").Input()
		m := PGenMsg(cs.R, pc.Root, PValCfg{MaxElems: 4, MaxDepth: 2}, 0)
		b := PMarshal(m)
		if cs.R.Bool() {
			if sb := pShuffleWire(cs.R, b, pc.Root, 0); !bytes.Equal(sb, b) {
				b = sb
				cs.Cover("setmany_wire_order_non_ascending")
			}
		}
		cs.Info("initial", fmt.Sprint(m))
		cs.Info("initial-bytes", hexs(b))
		// singular scalar fields of the root, in random order
		var fds []protoreflect.FieldDescriptor
		for i := 0; i < pc.Root.Fields().Len(); i++ {
			fd := pc.Root.Fields().Get(i)
			if !fd.IsList() && !fd.IsMap() && fd.Kind() != protoreflect.MessageKind {
				fds = append(fds, fd)
			}
		}
		if len(fds) < 2 {
			cs.Cover("setmany_too_few_scalar_fields")
			return
		}
		for i := len(fds) - 1; i > 0; i-- {
			k := cs.R.Intn(i + 1)
			fds[i], fds[k] = fds[k], fds[i]
		}
		n := 2 + cs.R.Intn(min(3, len(fds)-1))
		var pns []pg.PathNode
		var log []string
		nPresent, nAbsent := 0, 0
		for _, fd := range fds[:n] {
			nv := pScalar(cs.R, fd, PValCfg{})
			if m.Has(fd) {
				nPresent++
			} else {
				nAbsent++
			}
			log = append(log, fmt.Sprintf("%d(%s,present=%v):=%v", fd.Number(), fd.Kind(), m.Has(fd), nv.Interface()))
			m.Set(fd, nv)
			pns = append(pns, pg.PathNode{Path: pg.NewPathFieldId(dproto.FieldNumber(fd.Number())), Node: pScalarNode(fd, nv)})
		}
		cs.Info("setmany", log)
		root := pg.NewRootValue(desc, append([]byte{}, b...))
		cls := "replace-only"
		switch {
		case nPresent > 0 && nAbsent > 0:
			cls = "mixed"
		case nAbsent > 0:
			cls = "insert-only"
		}
		if err := root.SetMany(pns, &pg.Options{}, &root, []int{}); err != nil {
			cs.Viol("pedit:setmany:"+cls+":error", "err", err)
			return
		}
		out := root.Raw()
		m2 := dynamicpb.NewMessage(pc.Root)
		if uerr := PUnmarshal(out, m2); uerr != nil {
			cs.Viol("pedit:setmany:"+cls+":rejected-by-reference", "err", uerr, "out", out)
			return
		}
		if !proto.Equal(m, m2) {
			cs.Viol("pedit:setmany:"+cls+":different-message", "got", fmt.Sprint(m2), "want", fmt.Sprint(m), "out", out)
			return
		}
		if dup := pDupSingular(pc.Root, out, ""); dup != "" {
			cs.Viol("pedit:setmany:"+cls+":singular-field-duplicated", "where", dup, "out", out)
			return
		}
		cs.Cover("setmany_" + cls + "_ok")
		cs.Distinct(fmt.Sprintf("sm-%s-%d-%s", cls, n, c20Shape(m)))
	})
}

// pDupSingular walks the wire format and reports the first singular (non-repeated, non-map) field that occurs
// more than once within one message.
func pDupSingular(md protoreflect.MessageDescriptor, b []byte, path string) string {
	seen := map[protowire.Number]int{}
	for len(b) > 0 {
		num, typ, n := protowire.ConsumeTag(b)
		if n < 0 {
			return ""
		}
		b = b[n:]
		vn := protowire.ConsumeFieldValue(num, typ, b)
		if vn < 0 {
			return ""
		}
		val := b[:vn]
		b = b[vn:]
		fd := md.Fields().ByNumber(num)
		if fd == nil {
			continue
		}
		if !fd.IsList() && !fd.IsMap() {
			seen[num]++
			if seen[num] > 1 {
				return fmt.Sprintf("%s/%d occurs %d times", path, num, seen[num])
			}
		}
		if typ == protowire.BytesType && fd.Kind() == protoreflect.MessageKind {
			body, _ := protowire.ConsumeBytes(val)
			sub := fd.Message()
			if fd.IsMap() {
				sub = fd.Message() // entry: key=1, value=2
			}
			if d := pDupSingular(sub, body, fmt.Sprintf("%s/%d", path, num)); d != "" {
				return d
			}
		}
	}
	return ""
}
