package props

import (
	"bytes"
	"encoding/base64"
	"encoding/json"
	"fmt"
	"io"
	"math"
	"strconv"
	"strings"
	"unicode/utf8"

	"verifharness/gen"
	"verifharness/h"
	"verifharness/tref"
)

// JV is an order-preserving JSON value parsed with encoding/json's tokenizer (the reference JSON syntax).
type JV struct {
	K    byte // 'n' null, 'b' bool, '#' number, 's' string, 'a' array, 'o' object
	B    bool
	N    string // number text
	S    string
	A    []*JV
	Keys []string
	Vals []*JV
}

// ParseJSON parses exactly one JSON value followed by optional whitespace.
func ParseJSON(b []byte) (*JV, error) {
	if !json.Valid(b) {
		return nil, fmt.Errorf("encoding/json rejects the document")
	}
	dec := json.NewDecoder(bytes.NewReader(b))
	dec.UseNumber()
	v, err := parseJV(dec)
	if err != nil {
		return nil, err
	}
	if _, err := dec.Token(); err != io.EOF {
		return nil, fmt.Errorf("trailing data after the top-level value")
	}
	return v, nil
}

func parseJV(dec *json.Decoder) (*JV, error) {
	t, err := dec.Token()
	if err != nil {
		return nil, err
	}
	switch x := t.(type) {
	case nil:
		return &JV{K: 'n'}, nil
	case bool:
		return &JV{K: 'b', B: x}, nil
	case json.Number:
		return &JV{K: '#', N: string(x)}, nil
	case string:
		return &JV{K: 's', S: x}, nil
	case json.Delim:
		switch x {
		case '[':
			v := &JV{K: 'a'}
			for dec.More() {
				e, err := parseJV(dec)
				if err != nil {
					return nil, err
				}
				v.A = append(v.A, e)
			}
			if _, err := dec.Token(); err != nil {
				return nil, err
			}
			return v, nil
		case '{':
			v := &JV{K: 'o'}
			for dec.More() {
				kt, err := dec.Token()
				if err != nil {
					return nil, err
				}
				ks, ok := kt.(string)
				if !ok {
					return nil, fmt.Errorf("object key is not a string")
				}
				e, err := parseJV(dec)
				if err != nil {
					return nil, err
				}
				v.Keys = append(v.Keys, ks)
				v.Vals = append(v.Vals, e)
			}
			if _, err := dec.Token(); err != nil {
				return nil, err
			}
			return v, nil
		}
	}
	return nil, fmt.Errorf("unexpected token %v", t)
}

func (v *JV) String() string {
	switch v.K {
	case 'n':
		return "null"
	case 'b':
		return fmt.Sprint(v.B)
	case '#':
		return v.N
	case 's':
		return strconv.Quote(v.S)
	case 'a':
		var p []string
		for _, e := range v.A {
			p = append(p, e.String())
		}
		return "[" + strings.Join(p, ",") + "]"
	case 'o':
		var p []string
		for i := range v.Keys {
			p = append(p, strconv.Quote(v.Keys[i])+":"+v.Vals[i].String())
		}
		return "{" + strings.Join(p, ",") + "}"
	}
	return "?"
}

// JOpts are the conv.Options that change the JSON denotation of a Thrift value.
type JOpts struct {
	Int642String   bool // t2j: i64 as string; j2t String2Int64 accepts it
	ByteAsUint8    bool
	NoBase64Binary bool
}

func fieldKey(f *gen.FieldT) string {
	if f.Alias != "" {
		return f.Alias
	}
	return f.Name
}

// replaceInvalidUTF8 applies Go's U+FFFD replacement (what any JSON consumer sees for invalid bytes).
func replaceInvalidUTF8(b []byte) string {
	if utf8.Valid(b) {
		return string(b)
	}
	// one U+FFFD per invalid byte, as encoding/json does when it decodes raw invalid bytes
	var sb strings.Builder
	for len(b) > 0 {
		r, n := utf8.DecodeRune(b)
		if r == utf8.RuneError && n == 1 {
			sb.WriteRune(utf8.RuneError)
		} else {
			sb.Write(b[:n])
		}
		b = b[n:]
	}
	return sb.String()
}

// cmpJSON checks that j denotes model v of type t under opts. unknown fields of v (not in t) must be absent.
// extra: declared keys allowed to appear although absent from v (written defaults), nil = none.
// Returns "" or a mismatch description.
func cmpJSON(j *JV, v *tref.Val, t *gen.Type, o JOpts) string {
	switch v.T {
	case tref.BOOL:
		if j.K != 'b' || j.B != v.B {
			return fmt.Sprintf("bool %v vs %s", v.B, j)
		}
	case tref.BYTE, tref.I16, tref.I32, tref.I64:
		want := v.I
		if v.T == tref.BYTE && o.ByteAsUint8 {
			want = int64(uint8(v.I))
		}
		txt := j.N
		if v.T == tref.I64 && o.Int642String {
			if j.K != 's' {
				return fmt.Sprintf("i64 expected as string, got %s", j)
			}
			txt = j.S
		} else if j.K != '#' {
			return fmt.Sprintf("integer expected, got %s", j)
		}
		got, err := strconv.ParseInt(txt, 10, 64)
		if err != nil || got != want {
			return fmt.Sprintf("integer %d vs %s", want, j)
		}
	case tref.DOUBLE:
		if math.IsNaN(v.F) || math.IsInf(v.F, 0) {
			return "" // any valid JSON is acceptable for non-finite doubles
		}
		if j.K != '#' {
			return fmt.Sprintf("number expected, got %s", j)
		}
		got, err := strconv.ParseFloat(j.N, 64)
		if err != nil || math.Float64bits(got) != math.Float64bits(v.F) {
			return fmt.Sprintf("double %v (0x%x) vs %s", v.F, math.Float64bits(v.F), j)
		}
	case tref.STRING:
		if j.K != 's' {
			return fmt.Sprintf("string expected, got %s", j)
		}
		if t.Bin && !o.NoBase64Binary {
			dec, err := base64.StdEncoding.DecodeString(j.S)
			if err != nil || !bytes.Equal(dec, v.S) {
				return fmt.Sprintf("binary %x vs base64 %q", v.S, j.S)
			}
		} else if j.S != replaceInvalidUTF8(v.S) {
			return fmt.Sprintf("string %q vs %q", v.S, j.S)
		}
	case tref.LIST, tref.SET:
		if j.K != 'a' || len(j.A) != len(v.L) {
			return fmt.Sprintf("array of %d expected, got %s", len(v.L), trunc(j.String()))
		}
		for i := range v.L {
			if m := cmpJSON(j.A[i], v.L[i], t.Elem, o); m != "" {
				return fmt.Sprintf("[%d]: %s", i, m)
			}
		}
	case tref.MAP:
		if j.K != 'o' || len(j.Keys) != len(v.L) {
			return fmt.Sprintf("object of %d members expected, got %s", len(v.L), trunc(j.String()))
		}
		for i := range v.L {
			var want string
			k := v.K[i]
			switch k.T {
			case tref.STRING:
				want = replaceInvalidUTF8(k.S)
			case tref.BYTE:
				if o.ByteAsUint8 {
					want = strconv.FormatInt(int64(uint8(k.I)), 10)
				} else {
					want = strconv.FormatInt(k.I, 10)
				}
			case tref.I16, tref.I32, tref.I64:
				want = strconv.FormatInt(k.I, 10)
			default:
				return "unsupported key kind in oracle"
			}
			if j.Keys[i] != want {
				return fmt.Sprintf("map key %d: %q vs %q", i, want, j.Keys[i])
			}
			if m := cmpJSON(j.Vals[i], v.L[i], t.Elem, o); m != "" {
				return fmt.Sprintf("[%q]: %s", want, m)
			}
		}
	case tref.STRUCT:
		if j.K != 'o' {
			return fmt.Sprintf("object expected, got %s", trunc(j.String()))
		}
		idx := 0
		for _, f := range v.Fs {
			fd := t.S.Field(f.ID)
			if fd == nil {
				continue // unknown field: dropped
			}
			if idx >= len(j.Keys) {
				return fmt.Sprintf("member %q missing", fieldKey(fd))
			}
			if j.Keys[idx] != fieldKey(fd) {
				return fmt.Sprintf("member %d is %q, expected %q", idx, j.Keys[idx], fieldKey(fd))
			}
			if m := cmpJSON(j.Vals[idx], f.V, fd.T, o); m != "" {
				return fmt.Sprintf(".%s: %s", fieldKey(fd), m)
			}
			idx++
		}
		if idx != len(j.Keys) {
			return fmt.Sprintf("unexpected extra member %q", j.Keys[idx])
		}
	}
	return ""
}

func trunc(s string) string {
	if len(s) > 300 {
		return s[:300] + "…"
	}
	return s
}

// ---- rendering a model as JSON text (j2t / C13 input) ---------------------------

// JSpell controls the spelling of a rendered document.
type JSpell struct {
	WS        int  // 0 none, 1 random, 2 before/after every token
	EscapeAll bool // \uXXXX for every character of strings
	EscapeMix bool // random mix of escape forms
	NumExp    bool // exponent / trailing-zero spellings for doubles, where exact
	UseName   bool // struct keys by field name even if an alias exists (MapFieldUseBoth / UseFieldName)
}

type jw struct {
	sb strings.Builder
	r  *h.Rand
	sp JSpell
	o  JOpts
}

func (w *jw) ws() {
	switch w.sp.WS {
	case 1:
		if w.r.Chance(30) {
			w.sb.WriteString([]string{" ", "\n", "\t", "\r\n", "  "}[w.r.Intn(5)])
		}
	case 2:
		w.sb.WriteString([]string{" ", "\n", "\t", " \n "}[w.r.Intn(4)])
	}
}

func (w *jw) str(s []byte) {
	w.sb.WriteByte('"')
	for len(s) > 0 {
		r, n := utf8.DecodeRune(s)
		if r == utf8.RuneError && n == 1 {
			// invalid byte: cannot be expressed in JSON; emit U+FFFD
			w.sb.WriteString("\\ufffd")
			s = s[1:]
			continue
		}
		s = s[n:]
		esc := w.sp.EscapeAll || (w.sp.EscapeMix && w.r.Chance(30))
		switch {
		case r == '"':
			w.sb.WriteString(`\"`)
		case r == '\\':
			w.sb.WriteString(`\\`)
		case r == '/' && esc:
			w.sb.WriteString(`\/`)
		case r == '\n' && !w.sp.EscapeAll:
			w.sb.WriteString(`\n`)
		case r == '\r' && !w.sp.EscapeAll:
			w.sb.WriteString(`\r`)
		case r == '\t' && !w.sp.EscapeAll:
			w.sb.WriteString(`\t`)
		case r == '\b' && !w.sp.EscapeAll:
			w.sb.WriteString(`\b`)
		case r == '\f' && !w.sp.EscapeAll:
			w.sb.WriteString(`\f`)
		case r < 0x20 || esc:
			if r >= 0x10000 {
				r -= 0x10000
				fmt.Fprintf(&w.sb, `\u%04x\u%04x`, 0xd800+(r>>10), 0xdc00+(r&0x3ff))
			} else {
				if w.r.Bool() {
					fmt.Fprintf(&w.sb, `\u%04x`, r)
				} else {
					fmt.Fprintf(&w.sb, `\u%04X`, r)
				}
			}
		default:
			w.sb.WriteRune(r)
		}
	}
	w.sb.WriteByte('"')
}

func (w *jw) double(f float64) {
	s := strconv.FormatFloat(f, 'g', -1, 64)
	if w.sp.NumExp && w.r.Chance(50) {
		alts := []string{strconv.FormatFloat(f, 'e', -1, 64), strconv.FormatFloat(f, 'E', -1, 64)}
		if f == math.Trunc(f) && math.Abs(f) < 1e15 {
			alts = append(alts, strconv.FormatFloat(f, 'f', 1, 64), strconv.FormatFloat(f, 'f', 3, 64))
		} else if math.Abs(f) < 1e15 && math.Abs(f) > 1e-5 {
			alts = append(alts, strconv.FormatFloat(f, 'f', -1, 64)+"0")
		}
		c := alts[w.r.Intn(len(alts))]
		if g, err := strconv.ParseFloat(c, 64); err == nil && math.Float64bits(g) == math.Float64bits(f) {
			s = c
		}
	}
	if strings.ContainsAny(s, "IN") {
		s = "0"
	}
	w.sb.WriteString(s)
}

func (w *jw) val(v *tref.Val, t *gen.Type) {
	w.ws()
	switch v.T {
	case tref.BOOL:
		if v.B {
			w.sb.WriteString("true")
		} else {
			w.sb.WriteString("false")
		}
	case tref.BYTE:
		if w.o.ByteAsUint8 {
			w.sb.WriteString(strconv.FormatInt(int64(uint8(v.I)), 10))
		} else {
			w.sb.WriteString(strconv.FormatInt(v.I, 10))
		}
	case tref.I16, tref.I32:
		w.sb.WriteString(strconv.FormatInt(v.I, 10))
	case tref.I64:
		if w.o.Int642String {
			w.sb.WriteString(`"` + strconv.FormatInt(v.I, 10) + `"`)
		} else {
			w.sb.WriteString(strconv.FormatInt(v.I, 10))
		}
	case tref.DOUBLE:
		w.double(v.F)
	case tref.STRING:
		if t != nil && t.Bin && !w.o.NoBase64Binary {
			w.sb.WriteString(`"` + base64.StdEncoding.EncodeToString(v.S) + `"`)
		} else {
			w.str(v.S)
		}
	case tref.LIST, tref.SET:
		w.sb.WriteByte('[')
		for i, e := range v.L {
			if i > 0 {
				w.ws()
				w.sb.WriteByte(',')
			}
			var et *gen.Type
			if t != nil {
				et = t.Elem
			}
			w.val(e, et)
		}
		w.ws()
		w.sb.WriteByte(']')
	case tref.MAP:
		w.sb.WriteByte('{')
		for i := range v.L {
			if i > 0 {
				w.ws()
				w.sb.WriteByte(',')
			}
			w.ws()
			k := v.K[i]
			if k.T == tref.STRING {
				w.str(k.S)
			} else if k.T == tref.BYTE && w.o.ByteAsUint8 {
				w.sb.WriteString(`"` + strconv.FormatInt(int64(uint8(k.I)), 10) + `"`)
			} else {
				w.sb.WriteString(`"` + strconv.FormatInt(k.I, 10) + `"`)
			}
			w.ws()
			w.sb.WriteByte(':')
			var et *gen.Type
			if t != nil {
				et = t.Elem
			}
			w.val(v.L[i], et)
		}
		w.ws()
		w.sb.WriteByte('}')
	case tref.STRUCT:
		w.sb.WriteByte('{')
		n := 0
		for _, f := range v.Fs {
			var fd *gen.FieldT
			if t != nil && t.S != nil {
				fd = t.S.Field(f.ID)
			}
			if fd == nil {
				continue
			}
			if n > 0 {
				w.ws()
				w.sb.WriteByte(',')
			}
			n++
			w.ws()
			key := fieldKey(fd)
			if w.sp.UseName {
				key = fd.Name
			}
			w.str([]byte(key))
			w.ws()
			w.sb.WriteByte(':')
			w.val(f.V, fd.T)
		}
		w.ws()
		w.sb.WriteByte('}')
	}
	w.ws()
}

// RenderJSON renders model v (typed t) as a JSON text with the given spelling.
func RenderJSON(r *h.Rand, v *tref.Val, t *gen.Type, sp JSpell, o JOpts) string {
	w := &jw{r: r, sp: sp, o: o}
	w.val(v, t)
	return w.sb.String()
}
