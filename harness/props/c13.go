package props

import (
	"bytes"
	"context"
	"fmt"
	rwire "google.golang.org/protobuf/encoding/protowire"
	"math"

	"github.com/cloudwego/dynamicgo/conv"
	"github.com/cloudwego/dynamicgo/conv/j2p"
	"github.com/cloudwego/dynamicgo/conv/p2j"
	"github.com/cloudwego/dynamicgo/conv/t2j"
	dproto "github.com/cloudwego/dynamicgo/proto"
	"github.com/cloudwego/dynamicgo/thrift"
	"google.golang.org/protobuf/proto"
	"google.golang.org/protobuf/reflect/protoreflect"
	"google.golang.org/protobuf/types/dynamicpb"

	"verifharness/gen"
	"verifharness/h"
	"verifharness/tref"
)

func init() { h.Register("C13", runC13) }

func hasNegZero(v *tref.Val) bool {
	nz := false
	tref.Walk(v, func(n *tref.Val, d int) {
		if n.T == tref.DOUBLE && n.F == 0 && math.Signbit(n.F) {
			nz = true
		}
	})
	return nz
}

// jvEqual: same JSON value (numbers by text, objects in order).
func jvEqual(a, b *JV) bool { return a.String() == b.String() }

func c13Thrift(cs *h.Case, desc *thrift.TypeDescriptor, root *gen.Type, v *tref.Val, o1, o2 conv.Options, kind string) {
	b := tref.Encode(v)
	cs.Info("model", v.String())
	cs.Info("bytes", hexs(b))
	cs.Info("opts", fmt.Sprintf("t2j=%+v", o1))
	ctx := context.Background()
	tj := t2j.NewBinaryConv(o1)
	jt := newJ2T(cs, o2)
	tr := h.TrapCopy(b, cs.R.Bool(), true)
	defer tr.Free()
	j, err := tj.Do(ctx, desc, tr.B)
	if err != nil {
		cs.Viol("rt:"+kind+":t2j-error-on-domain", "err", err)
		return
	}
	cs.Info("json", trunc(string(j)))
	jtr := h.TrapCopy(j, cs.R.Bool(), true)
	defer jtr.Free()
	b2, err := jt.Do(ctx, desc, jtr.B)
	if err != nil {
		cs.Viol("rt:"+kind+":j2t-error-on-t2j-output", "err", err)
		return
	}
	if !bytes.Equal(b2, b) {
		// attribute the direction at fault with the one-way oracle
		jv, perr := ParseJSON(j)
		dir := "j2t"
		if perr != nil {
			dir = "t2j(malformed)"
		} else if m := cmpJSON(jv, v, root, JOpts{Int642String: o1.Int642String, ByteAsUint8: o1.ByteAsUint8, NoBase64Binary: o1.NoBase64Binary}); m != "" {
			dir = "t2j"
			cs.Info("t2j-mismatch", m)
		}
		sig := "rt:" + kind + ":thrift-json-thrift:" + dir
		diff := ""
		if d2, derr := tref.Decode(b2, tref.STRUCT); derr == nil {
			diff = firstDiff(d2, v, "")
			if equalModNegZero(d2, v) && hasNegZero(v) {
				sig = "rt:" + kind + ":thrift-json-thrift:neg-zero-sign-lost"
			}
		}
		cs.Viol(sig, "first-diff", diff, "got", b2)
		return
	}
	cs.Cover("thrift_json_thrift_ok")
	// JSON -> Thrift -> JSON on the canonical form
	j2, err := tj.Do(ctx, desc, b2)
	if err != nil {
		cs.Viol("rt:"+kind+":t2j-error-second-pass", "err", err)
		return
	}
	a1, e1 := ParseJSON(j)
	a2, e2 := ParseJSON(j2)
	if e1 != nil || e2 != nil || !jvEqual(a1, a2) {
		cs.Viol("rt:"+kind+":json-thrift-json", "first", trunc(string(j)), "second", trunc(string(j2)))
		return
	}
	cs.Cover("json_thrift_json_ok")
}

// c13RawBinary: NoBase64Binary on both converters, binary values that are arbitrary bytes (not UTF-8 text): the
// JSON in between is not examined (a raw string of such bytes is not a JSON text any other parser takes), only
// that the way back restores the very bytes.
func c13RawBinary(c *h.Ctx) {
	bt := &gen.Type{T: tref.STRING, Bin: true}
	st := &gen.StructT{Name: "RawBin", Fields: []*gen.FieldT{
		{ID: 1, Name: "b", T: bt}, {ID: 2, Name: "l", T: &gen.Type{T: tref.LIST, Elem: bt}},
		{ID: 3, Name: "m", T: &gen.Type{T: tref.MAP, Key: &gen.Type{T: tref.STRING}, Elem: bt}}, {ID: 4, Name: "s", T: &gen.Type{T: tref.STRING}}}}
	sc := &gen.Schema{Structs: []*gen.StructT{st}, Root: st}
	var desc *thrift.TypeDescriptor
	c.Run("raw-binary", c.N(1500, 40000), func(cs *h.Case) {
		if desc == nil {
			d, _, err := ParseRoot(sc, thrift.NewDefaultOptions())
			if err != nil {
				cs.Viol("rt:parse-idl", "err", err)
				return
			}
			desc = d
		}
		blob := func() *tref.Val {
			b := cs.R.Bytes(cs.R.Intn(24))
			// (the portable JSON decoder, like encoding/json, replaces bytes that are not UTF-8 by U+FFFD: such a
			// string is not JSON in the first place, so the portable build only gets text here)
			if h.Portable || cs.R.Chance(30) {
				b = []byte(string(gen.GenStr(cs.R, gen.ValCfg{MaxStr: 16})))
			}
			return tref.Bin(b)
		}
		v := tref.Struct(tref.Field{ID: 1, V: blob()}, tref.Field{ID: 2, V: tref.List(tref.STRING, blob(), blob())},
			tref.Field{ID: 3, V: &tref.Val{T: tref.MAP, KT: tref.STRING, ET: tref.STRING, K: []*tref.Val{tref.Str("k")}, L: []*tref.Val{blob()}}},
			tref.Field{ID: 4, V: tref.Str("text")})
		b := tref.Encode(v)
		cs.Info("bytes", hexs(b))
		ctx := context.Background()
		tj := t2j.NewBinaryConv(conv.Options{NoBase64Binary: true})
		jt := newJ2T(cs, conv.Options{NoBase64Binary: true})
		j, err := tj.Do(ctx, desc, b)
		if err != nil {
			cs.Viol("rt:raw-binary:t2j-error-on-domain", "err", err)
			return
		}
		cs.Info("json", hexs(j))
		b2, err := jt.Do(ctx, desc, j)
		if err != nil {
			cs.Viol("rt:raw-binary:j2t-error-on-t2j-output", "err", err)
			return
		}
		if !bytes.Equal(b2, b) {
			cs.Viol("rt:raw-binary:thrift-json-thrift", "got", b2)
			return
		}
		cs.Cover("raw_binary_round_trip_ok")
	})
}

func runC13(c *h.Ctx) {
	defer c13RawBinary(c)
	c.Run("thrift", c.N(8000, 400000), func(cs *h.Case) {
		sc := gen.GenSchema(cs.R, gen.Cfg{MaxDepth: 3, MaxFields: 6, BigIDs: true, Recursive: true, Aliases: true, Requiredness: cs.R.Chance(40), Typedefs: true})
		root := structType(sc.Root)
		cs.Info("idl", sc.IDL())
		desc, _, err := ParseRoot(sc, thrift.NewDefaultOptions())
		if err != nil {
			cs.Viol("rt:parse-idl", "err", err)
			return
		}
		ob := cs.R.Intn(8)
		o1 := conv.Options{Int642String: ob&1 != 0, NoBase64Binary: ob&2 != 0, ByteAsUint8: false, UseNativeSkip: ob&4 != 0}
		o2 := conv.Options{String2Int64: ob&1 != 0, NoBase64Binary: ob&2 != 0}
		v := gen.GenVal(cs.R, root, gen.ValCfg{ShuffleFlds: cs.R.Bool(), NegByteKeys: true}, 0)
		if o1.NoBase64Binary {
			sanitizeBinaries(v)
		}
		c13Thrift(cs, desc, root, v, o1, o2, "msg")
		cs.Distinct(fmt.Sprintf("rt-%d-%s", ob, shapeKey(v)[:min(len(shapeKey(v)), 22)]))
		if cs.I == 3 {
			cs.Sample(map[string]interface{}{"idl": sc.IDL(), "model": v.String(), "opts": fmt.Sprintf("%+v", o1)})
		}
	})

	// numeric emphasis: doubles by bit pattern, i64 extremes
	numS := &gen.StructT{Name: "Num", Fields: []*gen.FieldT{
		{ID: 1, Name: "d", T: &gen.Type{T: tref.LIST, Elem: &gen.Type{T: tref.DOUBLE}}},
		{ID: 2, Name: "i", T: &gen.Type{T: tref.LIST, Elem: &gen.Type{T: tref.I64}}},
		{ID: 3, Name: "m", T: &gen.Type{T: tref.MAP, Key: &gen.Type{T: tref.I64}, Elem: &gen.Type{T: tref.DOUBLE}}},
		{ID: 4, Name: "s", T: &gen.Type{T: tref.LIST, Elem: &gen.Type{T: tref.STRING}}},
		{ID: 5, Name: "e", T: &gen.Type{T: tref.MAP, Key: &gen.Type{T: tref.STRING}, Elem: &gen.Type{T: tref.LIST, Elem: &gen.Type{T: tref.I32}}}},
	}}
	numSc := &gen.Schema{Structs: []*gen.StructT{numS}, Root: numS}
	var numDesc *thrift.TypeDescriptor
	c.Run("numeric", c.N(3000, 200000), func(cs *h.Case) {
		if numDesc == nil {
			d, _, err := ParseRoot(numSc, thrift.NewDefaultOptions())
			if err != nil {
				cs.Viol("rt:parse-idl", "err", err)
				return
			}
			numDesc = d
		}
		v := tref.Struct()
		dl := &tref.Val{T: tref.LIST, ET: tref.DOUBLE}
		for k := 0; k < 30; k++ {
			var f float64
			for {
				switch cs.R.Intn(4) {
				case 0:
					f = math.Float64frombits(cs.R.U64())
				case 1:
					// shortest-digit edge cases: halfway-ish decimals, powers of ten and two
					f = math.Pow(10, float64(cs.R.Intn(600)-300)) * float64(1+cs.R.Intn(9))
				case 2:
					f = float64(int64(1)<<uint(cs.R.Intn(63))) + float64(cs.R.Intn(3)-1)
				default:
					f = gen.GenDouble(cs.R, false)
				}
				if !math.IsNaN(f) && !math.IsInf(f, 0) {
					break
				}
			}
			dl.L = append(dl.L, tref.Double(f))
		}
		v.Fs = append(v.Fs, tref.Field{ID: 1, V: dl})
		il := &tref.Val{T: tref.LIST, ET: tref.I64}
		for k := 0; k < 20; k++ {
			il.L = append(il.L, tref.Int64(gen.GenInt(cs.R, tref.I64)))
		}
		v.Fs = append(v.Fs, tref.Field{ID: 2, V: il})
		// empty containers and empty strings
		v.Fs = append(v.Fs, tref.Field{ID: 3, V: &tref.Val{T: tref.MAP, KT: tref.I64, ET: tref.DOUBLE}})
		v.Fs = append(v.Fs, tref.Field{ID: 4, V: tref.List(tref.STRING, tref.Str(""), tref.Bin(gen.GenStr(cs.R, gen.ValCfg{})), tref.Str(""))})
		v.Fs = append(v.Fs, tref.Field{ID: 5, V: &tref.Val{T: tref.MAP, KT: tref.STRING, ET: tref.LIST, K: []*tref.Val{tref.Str(""), tref.Str("k")}, L: []*tref.Val{{T: tref.LIST, ET: tref.I32}, tref.List(tref.I32, tref.Int32(math.MinInt32))}}})
		ob := cs.R.Intn(2)
		c13Thrift(cs, numDesc, structType(numS), v, conv.Options{Int642String: ob == 1}, conv.Options{String2Int64: ob == 1}, "numeric")
		cs.Distinct(fmt.Sprintf("num-%d", cs.I))
	})

	// escape-dense strings: the JSON form is several times the raw size, so the quoting loop has to grow
	// the output buffer (pre-sized to about twice the input) in the middle of a string
	c.Run("escape-dense", c.N(1200, 30000), func(cs *h.Case) {
		if numDesc == nil {
			d, _, err := ParseRoot(numSc, thrift.NewDefaultOptions())
			if err != nil {
				cs.Viol("rt:parse-idl", "err", err)
				return
			}
			numDesc = d
		}
		lens := []int{1, 10, 100, 170, 171, 172, 200, 341, 342, 400, 512, 683, 700, 1000, 1365, 1366, 2000, 2048, 4096, 5000, 8192, 20000}
		n := lens[cs.I%len(lens)]
		if cs.I >= len(lens)*10 {
			n = 1 + cs.R.Intn(6000)
		}
		filler := []string{"\x01", "\x1f", "\"", "\\", "\n", "\x00", "\x7f"}[cs.R.Intn(7)]
		density := []int{100, 100, 50, 34, 90}[cs.R.Intn(5)]
		sb := make([]byte, 0, n)
		for len(sb) < n {
			if cs.R.Intn(100) < density {
				sb = append(sb, filler...)
			} else {
				sb = append(sb, 'a')
			}
		}
		v := tref.Struct(tref.Field{ID: 4, V: tref.List(tref.STRING, tref.Bin(sb))})
		if cs.R.Bool() {
			v.Fs = append(v.Fs, tref.Field{ID: 5, V: &tref.Val{T: tref.MAP, KT: tref.STRING, ET: tref.LIST, K: []*tref.Val{tref.Bin(sb)}, L: []*tref.Val{tref.List(tref.I32, tref.Int32(1))}}})
		}
		cs.Info("len", n)
		c13Thrift(cs, numDesc, structType(numS), v, conv.Options{}, conv.Options{}, "escape-dense")
		cs.Distinct(fmt.Sprintf("esc-%d-%s-%d", n, filler, density))
	})
	c13Proto(c)
	c13ProtoCapacity(c)
}

// c13Proto: Protobuf -> JSON -> Protobuf (up to reference message equality) and JSON -> Protobuf -> JSON.
func c13Proto(c *h.Ctx) {
	c.Run("proto", c.N(5000, 200000), func(cs *h.Case) {
		if h.Portable {
			// under the go1.25 tag sonic (used by j2p) falls back to encoding/json: not dynamicgo's code, not compared here
			cs.Cover("proto_phase_skipped_in_portable_build")
			return
		}
		sc := gen.GenPSchema(cs.R, gen.PCfg{Unpacked: true, MaxDepth: 2, MaxFields: 6, Nested: cs.R.Bool(), Enums: true, BigNums: cs.R.Chance(30), JSONNames: cs.R.Bool(), Optionals: cs.R.Bool()})
		pc, err := PCompile(sc)
		if err != nil {
			cs.Cover("oracle_schema_rejected")
			return
		}
		cs.Info("proto", pc.Text)
		svc, err := dproto.NewDescritorFromContent(context.Background(), "verif.proto", pc.Text, nil)
		if err != nil {
			cs.Viol("rt:proto:parse", "err", err)
			return
		}
		desc := svc.LookupMethodByName("M").Input()
		m := PGenMsg(cs.R, pc.Root, PValCfg{MaxElems: 5, MaxDepth: 3}, 0)
		b := PMarshal(m)
		if cs.R.Chance(50) {
			// an empty packed record (tag, length 0) for absent packed fields: legal wire data that denotes the
			// same message (the empty list); it comes out of p2j as [] and must survive the way back
			fds := pc.Root.Fields()
			for i := 0; i < fds.Len(); i++ {
				fd := fds.Get(i)
				if fd.IsList() && fd.IsPacked() && !m.Has(fd) {
					rec := rwire.AppendVarint(rwire.AppendTag(nil, fd.Number(), rwire.BytesType), 0)
					if cs.R.Bool() {
						b = append(rec, b...)
					} else {
						b = append(b, rec...)
					}
					cs.Cover("empty_packed_record_injected")
				}
			}
		}
		cs.Info("message", trunc(fmt.Sprint(m)))
		cs.Info("bytes", hexs(b))
		ctx := context.Background()
		pj := p2j.NewBinaryConv(conv.Options{})
		jp := j2p.NewBinaryConv(conv.Options{})
		tr := h.TrapCopy(b, cs.R.Bool(), true)
		defer tr.Free()
		j, err := pj.Do(ctx, desc, tr.B)
		if err != nil {
			cs.Viol("rt:proto:p2j-error-on-domain", "err", err)
			return
		}
		cs.Info("json", trunc(string(j)))
		b2, err := jp.Do(ctx, desc, j)
		if err != nil {
			cs.Viol("rt:proto:j2p-error-on-p2j-output", "err", err)
			return
		}
		got := dynamicpb.NewMessage(pc.Root)
		if uerr := PUnmarshal(b2, got); uerr != nil {
			cs.Viol("rt:proto:rejected-by-reference", "err", uerr, "out", b2)
			return
		}
		if !proto.Equal(got, m) {
			sig := "rt:proto:proto-json-proto"
			if pHasNegZero(m) {
				sig += ":neg-zero-sign-lost"
			}
			cs.Viol(sig, "got", trunc(fmt.Sprint(got)), "out", b2)
			return
		}
		cs.Cover("proto_json_proto_ok")
		j2, err := pj.Do(ctx, desc, b2)
		if err != nil {
			cs.Viol("rt:proto:p2j-error-second-pass", "err", err)
			return
		}
		a1, e1 := ParseJSON(j)
		a2, e2 := ParseJSON(j2)
		if e1 != nil || e2 != nil || !jvEqual(a1, a2) {
			cs.Viol("rt:proto:json-proto-json", "first", trunc(string(j)), "second", trunc(string(j2)))
			return
		}
		cs.Cover("json_proto_json_ok")
		cs.Distinct(fmt.Sprintf("prt-%s", c20Shape(m)))
	})
}

// c13ProtoCapacity: round trips of messages whose nested regions end exactly at the capacities of j2p's
// pooled output buffer (where the speculative one-byte length prefix has to be widened in a full buffer).
var c13Fixed *c09Static

func c13ProtoCapacity(c *h.Ctx) {
	c.Run("proto-capacity", c.N(1500, 40000), func(cs *h.Case) {
		if h.Portable {
			// under the go1.25 tag sonic (used by j2p) falls back to encoding/json: not dynamicgo's code, not compared here
			cs.Cover("proto_phase_skipped_in_portable_build")
			return
		}
		st := c09Load(cs, c09Fixed, "Root", &c13Fixed)
		if st == nil {
			return
		}
		root, total, key := c09BoundaryMsg(cs, st)
		b := PMarshal(root)
		ctx := context.Background()
		pj := p2j.NewBinaryConv(conv.Options{})
		jp := j2p.NewBinaryConv(conv.Options{})
		j, err := pj.Do(ctx, st.desc, b)
		if err != nil {
			cs.Viol("rt:proto-capacity:p2j-error-on-domain", "err", err)
			return
		}
		b2, err := jp.Do(ctx, st.desc, j)
		if err != nil {
			cs.Viol("rt:proto-capacity:j2p-error-on-p2j-output", "err", err)
			return
		}
		got := dynamicpb.NewMessage(st.md)
		if uerr := PUnmarshal(b2, got); uerr != nil {
			cs.Viol("rt:proto-capacity:rejected-by-reference", "err", uerr, "total", total)
			return
		}
		if !proto.Equal(got, root) {
			cs.Viol("rt:proto-capacity:proto-json-proto", "total", total)
			return
		}
		cs.Cover("proto_capacity_ok")
		cs.Distinct("pcap-" + key + fmt.Sprintf("-%d", total))
	})
}

func pHasNegZero(m protoreflect.Message) bool {
	nz := false
	var rec func(m protoreflect.Message)
	chk := func(fd protoreflect.FieldDescriptor, v protoreflect.Value) {
		if fd.Kind() == protoreflect.FloatKind || fd.Kind() == protoreflect.DoubleKind {
			if f := v.Float(); f == 0 && math.Signbit(f) {
				nz = true
			}
		}
	}
	rec = func(m protoreflect.Message) {
		m.Range(func(fd protoreflect.FieldDescriptor, v protoreflect.Value) bool {
			switch {
			case fd.IsMap():
				v.Map().Range(func(k protoreflect.MapKey, mv protoreflect.Value) bool {
					if fd.MapValue().Kind() == protoreflect.MessageKind {
						rec(mv.Message())
					} else {
						chk(fd.MapValue(), mv)
					}
					return true
				})
			case fd.IsList():
				for i := 0; i < v.List().Len(); i++ {
					if fd.Kind() == protoreflect.MessageKind {
						rec(v.List().Get(i).Message())
					} else {
						chk(fd, v.List().Get(i))
					}
				}
			case fd.Kind() == protoreflect.MessageKind:
				rec(v.Message())
			default:
				chk(fd, v)
			}
			return true
		})
	}
	rec(m)
	return nz
}

// sanitizeBinaries makes every string of v valid UTF-8 (needed when binaries travel as raw JSON strings)
// and drops map entries / set elements that became duplicates.
func sanitizeBinaries(v *tref.Val) {
	tref.Walk(v, func(n *tref.Val, d int) {
		if n.T == tref.STRING {
			n.S = []byte(replaceInvalidUTF8(n.S))
		}
	})
	tref.Walk(v, func(n *tref.Val, d int) {
		if n.T == tref.MAP || n.T == tref.SET {
			seen := map[string]bool{}
			var ks, ls []*tref.Val
			for i := range n.L {
				var k string
				if n.T == tref.MAP {
					k = string(tref.Encode(n.K[i].Clone()))
				} else {
					k = string(tref.Encode(n.L[i].Clone()))
				}
				if seen[k] {
					continue
				}
				seen[k] = true
				if n.T == tref.MAP {
					ks = append(ks, n.K[i])
				}
				ls = append(ls, n.L[i])
			}
			n.K, n.L = ks, ls
		}
	})
}
