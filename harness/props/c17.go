package props

import (
	"bytes"
	"context"
	"encoding/base64"
	"fmt"
	"io"
	stdhttp "net/http"
	"net/url"
	"sort"
	"strconv"
	"strings"
	"time"

	"github.com/cloudwego/dynamicgo/conv"
	"github.com/cloudwego/dynamicgo/conv/j2t"
	"github.com/cloudwego/dynamicgo/conv/t2j"
	dhttp "github.com/cloudwego/dynamicgo/http"
	"github.com/cloudwego/dynamicgo/meta"
	"github.com/cloudwego/dynamicgo/thrift"

	"verifharness/gen"
	"verifharness/h"
	"verifharness/tref"
)

func init() { h.Register("C17", runC17) }

type hmSrc struct{ kind, key string }

type hmField struct {
	f    *gen.FieldT
	srcs []hmSrc
}

var c17Inner = &gen.StructT{Name: "Inner", Fields: []*gen.FieldT{
	{ID: 1, Name: "a", T: &gen.Type{T: tref.STRING}},
	{ID: 2, Name: "b", T: &gen.Type{T: tref.I32}},
}}

func c17Types() []*gen.Type {
	return []*gen.Type{
		{T: tref.STRING}, {T: tref.STRING}, {T: tref.I32}, {T: tref.I64}, {T: tref.BOOL}, {T: tref.DOUBLE}, {T: tref.I16}, {T: tref.BYTE},
		{T: tref.LIST, Elem: &gen.Type{T: tref.STRING}},
		{T: tref.LIST, Elem: &gen.Type{T: tref.I64}},
		{T: tref.MAP, Key: &gen.Type{T: tref.STRING}, Elem: &gen.Type{T: tref.STRING}},
		{T: tref.STRUCT, S: c17Inner},
		{T: tref.STRING, Bin: true},
	}
}

const c17Alnum = "abcdefghijklmnopqrstuvwxyzABCDEFGHIJKLMNOPQRSTUVWXYZ0123456789_.-"

func c17Word(r *h.Rand, rich bool) string {
	n := 1 + r.Intn(12)
	var sb strings.Builder
	for i := 0; i < n; i++ {
		if rich && r.Chance(15) {
			sb.WriteString([]string{" ", "é", "中", "/", "=", "&", "?", "+", "%"}[r.Intn(9)])
		} else {
			sb.WriteByte(c17Alnum[r.Intn(len(c17Alnum))])
		}
	}
	return sb.String()
}

// c17Val generates a value of type t whose text form is safe for the given source kind.
func c17Val(r *h.Rand, t *gen.Type, kind string, asciiBin bool) *tref.Val {
	rich := kind == "query" || kind == "form" || kind == "path" || kind == "body" || kind == "json"
	switch t.T {
	case tref.STRING:
		if t.Bin && !asciiBin {
			return tref.Bin(r.Bytes(1 + r.Intn(9)))
		}
		if !t.Bin && (kind == "query" || kind == "form" || kind == "path" || kind == "header") && r.Chance(10) {
			// a text that merely looks like JSON is still the text of a string field
			return tref.Str([]string{`"v1"`, `[::1]`, `{abc}`, `[1,2]`, `{"a":1}`, `"`, `[`, `{}`, `""`, `"a" `}[r.Intn(10)])
		}
		return tref.Str(c17Word(r, rich))
	case tref.BOOL:
		return tref.Bool(r.Bool())
	case tref.BYTE:
		return &tref.Val{T: tref.BYTE, I: int64(r.Intn(128))}
	case tref.I16:
		return &tref.Val{T: tref.I16, I: int64(r.Intn(65536) - 32768)}
	case tref.I32:
		return tref.Int32(int32(gen.GenInt(r, tref.I32)))
	case tref.I64:
		return tref.Int64(gen.GenInt(r, tref.I64))
	case tref.DOUBLE:
		return tref.Double([]float64{1.5, -2000, 0.25, 1e21, 3.141592653589793, float64(r.Intn(100000)) / 8}[r.Intn(6)])
	case tref.LIST:
		l := &tref.Val{T: tref.LIST, ET: t.Elem.T}
		for k := 1 + r.Intn(4); k > 0; k-- {
			if t.Elem.T == tref.STRING {
				l.L = append(l.L, tref.Str(c17Word(r, false)))
			} else {
				l.L = append(l.L, tref.Int64(gen.GenInt(r, tref.I64)))
			}
		}
		return l
	case tref.MAP:
		m := &tref.Val{T: tref.MAP, KT: tref.STRING, ET: tref.STRING}
		seen := map[string]bool{}
		for k := r.Intn(4); k > 0; k-- {
			key := c17Word(r, false)
			if seen[key] {
				continue
			}
			seen[key] = true
			m.K = append(m.K, tref.Str(key))
			m.L = append(m.L, tref.Str(c17Word(r, false)))
		}
		return m
	}
	return tref.Struct(tref.Field{ID: 1, V: tref.Str(c17Word(r, false))}, tref.Field{ID: 2, V: tref.Int32(int32(r.Intn(1000)))})
}

// c17Text renders v as the text an HTTP source carries for a field of type t.
func c17Text(r *h.Rand, v *tref.Val, t *gen.Type, noBase64 bool) string {
	switch t.T {
	case tref.STRING:
		if t.Bin && !noBase64 {
			return base64.StdEncoding.EncodeToString(v.S)
		}
		return string(v.S)
	case tref.BOOL:
		if v.B {
			return []string{"true", "1", "T", "TRUE"}[r.Intn(4)]
		}
		return []string{"false", "0", "F", "False"}[r.Intn(4)]
	case tref.BYTE, tref.I16, tref.I32, tref.I64:
		s := strconv.FormatInt(v.I, 10)
		if r.Chance(15) {
			// zero-padded decimal text is still decimal
			if v.I < 0 {
				return "-" + strings.Repeat("0", 1+r.Intn(3)) + s[1:]
			}
			return strings.Repeat("0", 1+r.Intn(3)) + s
		}
		return s
	case tref.DOUBLE:
		return strconv.FormatFloat(v.F, 'g', -1, 64)
	case tref.LIST:
		if r.Bool() {
			var ps []string
			for _, e := range v.L {
				ps = append(ps, c17Text(r, e, t.Elem, noBase64))
			}
			return strings.Join(ps, ",")
		}
	}
	return RenderJSON(r, v, t, JSpell{}, JOpts{})
}

type c17Req struct {
	query   url.Values
	form    url.Values
	headers map[string]string
	cookies map[string]string
	params  map[string]string
	// JSON body members in order, per struct level ("" = root, "Sub" = nested)
	body map[string][]c17Member
	// populated sources: kind:key -> value
	have map[string]*tref.Val
	text map[string]string
	// sources keyed by a field's own name (only consulted by the traceback option)
	byName map[string]*tref.Val
	tbUsed int
}

type c17Member struct {
	key  string
	json string
	val  *tref.Val // typed value when the member targets a field (nil for unrelated members)
}

func c17Key(kind, key string) string { return kind + ":" + key }

// c17Expect computes the expected struct for one level. bodyPresent: a JSON body (object) exists at this level.
// Returns (value, wantErr, unasserted).
func c17Expect(fields []hmField, rq *c17Req, level string, o conv.Options, bodyLen int, rawURI string, rawBody string) (*tref.Val, bool, bool) {
	top := level == ""
	out := tref.Struct()
	wantErr := false
	members := map[string]*tref.Val{}
	for _, m := range rq.body[level] {
		if m.val != nil {
			members[m.key] = m.val
		}
	}
	unset := func(f *gen.FieldT, atStructEnd bool) {
		// TracebackRequredOrRootFields: root-level and required fields still unset when the JSON object ends are
		// looked up once more, by their own name, in path params, query, header, cookie and the body map
		// (the native scanner only hands unset fields back to Go when ReadHttpValueFallback is set as well: the
		// lookup is therefore observed, and modelled, under the conjunction of the two options)
		if atStructEnd && o.TracebackRequredOrRootFields && o.ReadHttpValueFallback && (top || f.Req == gen.ReqRequired) {
			if v := rq.byName[f.Name]; v != nil {
				out.Fs = append(out.Fs, tref.Field{ID: f.ID, V: v.Clone()})
				rq.tbUsed++
				return
			}
		}
		switch {
		case f.Req == gen.ReqRequired && !o.WriteRequireField:
			wantErr = true
		case (f.Req == gen.ReqRequired && o.WriteRequireField) || (f.Req == gen.ReqDefault && o.WriteDefaultField) || (f.Req == gen.ReqOptional && o.WriteOptionalField):
			out.Fs = append(out.Fs, tref.Field{ID: f.ID, V: zeroOf(f.T)})
		}
	}
	for _, hf := range fields {
		f := hf.f
		if len(hf.srcs) == 0 {
			// plain field: from the body, as without mapping
			if v := members[f.Name]; v != nil {
				out.Fs = append(out.Fs, tref.Field{ID: f.ID, V: v.Clone()})
			} else if f.Req != gen.ReqOptional { // optional fields carry no bit in the requires bitmap
				unset(f, true)
			}
			continue
		}
		var found *tref.Val
		for _, s := range hf.srcs {
			switch s.kind {
			case "raw_uri":
				found = tref.Str(rawURI)
			case "raw_body":
				if rawBody == "" {
					return nil, false, true // empty raw body: unasserted cell
				}
				found = tref.Str(rawBody)
			default:
				found = rq.have[c17Key(s.kind, s.key)]
			}
			if found != nil {
				break
			}
		}
		switch {
		case found != nil:
			out.Fs = append(out.Fs, tref.Field{ID: f.ID, V: found.Clone()})
		case o.ReadHttpValueFallback:
			if v := members[f.Name]; v != nil {
				out.Fs = append(out.Fs, tref.Field{ID: f.ID, V: v.Clone()})
			} else {
				unset(f, true)
			}
		default:
			unset(f, false) // written (or not) when the struct begins; the body member is ignored
		}
	}
	return out, wantErr, false
}

func c17AnnoList(srcs []hmSrc) []string {
	var out []string
	for _, s := range srcs {
		k := s.kind
		if k == "form" {
			k = "form"
		}
		out = append(out, fmt.Sprintf("api.%s=%q", k, s.key))
	}
	return out
}

func runC17(c *h.Ctx) {
	defer c17WideRoot(c)
	defer c17RawBodyComplex(c)
	defer c17TracebackSubdoc(c)
	defer c17AbsentBodyMapped(c)
	defer c17RespOptions(c)
	c.Run("request", c.N(6000, 200000), func(cs *h.Case) {
		types := c17Types()
		kinds := []string{"query", "path", "header", "cookie", "form", "body"}
		n := 2 + cs.R.Intn(8)
		var root []hmField
		rootS := &gen.StructT{Name: "Req"}
		usedID := map[int16]bool{}
		mkField := func(i int, st *gen.StructT, prefix string) hmField {
			t := types[cs.R.Intn(len(types))]
			var id int16
			for {
				id = int16(1 + cs.R.Intn(40))
				if cs.R.Chance(10) {
					id = []int16{64, 65, 128, 255, 256, 1000}[cs.R.Intn(6)]
				}
				if !usedID[id] {
					break
				}
			}
			usedID[id] = true
			f := &gen.FieldT{ID: id, Name: fmt.Sprintf("%sF%d", prefix, i), T: t, Req: cs.R.Intn(3)}
			hf := hmField{f: f}
			ns := []int{0, 0, 1, 1, 1, 2, 2, 3}[cs.R.Intn(8)]
			seen := map[string]bool{}
			for k := 0; k < ns; k++ {
				kind := kinds[cs.R.Intn(len(kinds))]
				if t.T == tref.STRING && !t.Bin && cs.R.Chance(12) {
					kind = []string{"raw_uri", "raw_body"}[cs.R.Intn(2)]
				}
				complexT := t.T == tref.LIST || t.T == tref.MAP || t.T == tref.STRUCT || t.Bin
				if kind == "cookie" && complexT {
					kind = "header"
				}
				if seen[kind] {
					continue
				}
				seen[kind] = true
				key := fmt.Sprintf("%s%s%d", prefix, kind[:1], i)
				if kind == "header" {
					key = fmt.Sprintf("X-%s%s%d", prefix, strings.ToUpper(kind[:1]), i)
				}
				if kind == "raw_uri" || kind == "raw_body" {
					key = ""
				}
				hf.srcs = append(hf.srcs, hmSrc{kind, key})
			}
			f.Annos = c17AnnoList(hf.srcs)
			st.Fields = append(st.Fields, f)
			return hf
		}
		for i := 0; i < n; i++ {
			root = append(root, mkField(i, rootS, ""))
		}
		// nested struct with its own mapped fields, reached through an optional plain field
		subS := &gen.StructT{Name: "Sub"}
		var sub []hmField
		withSub := cs.R.Chance(60)
		if withSub {
			usedID = map[int16]bool{}
			for i := 0; i < 1+cs.R.Intn(4); i++ {
				sub = append(sub, mkField(i, subS, "S"))
			}
			// the same body member may be named by a root field and a nested field
			for _, rf := range root {
				for _, s := range rf.srcs {
					if s.kind == "body" && rf.f.T.T == tref.STRING && !rf.f.T.Bin && cs.R.Bool() {
						f := &gen.FieldT{ID: 99, Name: "SDup", T: &gen.Type{T: tref.STRING}, Req: gen.ReqOptional}
						hf := hmField{f: f, srcs: []hmSrc{{"body", s.key}}}
						f.Annos = c17AnnoList(hf.srcs)
						subS.Fields = append(subS.Fields, f)
						sub = append(sub, hf)
						goto dupDone
					}
				}
			}
		dupDone:
			rootS.Fields = append(rootS.Fields, &gen.FieldT{ID: 2000, Name: "Sub", T: &gen.Type{T: tref.STRUCT, S: subS}, Req: gen.ReqOptional})
		}
		sc := &gen.Schema{Structs: []*gen.StructT{c17Inner, subS, rootS}, Root: rootS}
		if !withSub {
			sc.Structs = []*gen.StructT{c17Inner, rootS}
		}
		idl := sc.IDL()
		cs.Info("idl", idl)
		desc, svc, err := ParseRoot(sc, thrift.NewDefaultOptions())
		if err != nil {
			cs.Viol("hm:parse-idl", "err", err)
			return
		}
		ob := cs.R.Intn(64)
		o := conv.Options{EnableHttpMapping: true, ReadHttpValueFallback: ob&1 != 0, WriteRequireField: ob&2 != 0, WriteDefaultField: ob&4 != 0, WriteOptionalField: ob&8 != 0, NoBase64Binary: ob&16 != 0, TracebackRequredOrRootFields: ob&32 != 0}
		// ---- the request
		bodyKind := []string{"json", "json", "json", "form", "none"}[cs.R.Intn(5)]
		rq := &c17Req{query: url.Values{}, form: url.Values{}, headers: map[string]string{}, cookies: map[string]string{}, params: map[string]string{}, body: map[string][]c17Member{}, have: map[string]*tref.Val{}, text: map[string]string{}, byName: map[string]*tref.Val{}}
		populate := func(fields []hmField, level string) {
			for _, hf := range fields {
				for _, s := range hf.srcs {
					if s.kind == "raw_uri" || s.kind == "raw_body" {
						continue
					}
					k := c17Key(s.kind, s.key)
					if _, done := rq.text[k]; done || !cs.R.Chance(50) {
						continue
					}
					if s.kind == "form" && bodyKind != "form" {
						continue
					}
					if s.kind == "body" && bodyKind == "none" {
						continue
					}
					v := c17Val(cs.R, hf.f.T, s.kind, o.NoBase64Binary)
					txt := c17Text(cs.R, v, hf.f.T, o.NoBase64Binary)
					if txt == "" {
						continue
					}
					switch s.kind {
					case "query":
						rq.query.Set(s.key, txt)
					case "path":
						rq.params[s.key] = txt
					case "header":
						rq.headers[s.key] = txt
					case "cookie":
						rq.cookies[s.key] = txt
					case "form":
						rq.form.Set(s.key, txt)
					case "body":
						if bodyKind == "form" {
							rq.form.Set(s.key, txt)
						} else {
							// root member of the JSON body, typed JSON
							rq.body[""] = append(rq.body[""], c17Member{key: s.key, json: RenderJSON(cs.R, v, hf.f.T, JSpell{}, JOpts{NoBase64Binary: o.NoBase64Binary})})
						}
					}
					rq.text[k] = txt
					rq.have[k] = v
				}
			}
		}
		populate(root, "")
		populate(sub, "Sub")
		// decoys: the key of a declared source also appears in a container the field does NOT name (the query
		// string for form/cookie/path/header keys, a header for query keys); a source kind reads its own container only
		declared := map[string]bool{}
		for _, hf := range append(append([]hmField{}, root...), sub...) {
			for _, s := range hf.srcs {
				declared[c17Key(s.kind, s.key)] = true
			}
		}
		for _, hf := range append(append([]hmField{}, root...), sub...) {
			for _, s := range hf.srcs {
				if s.key == "" || s.kind == "body" || !cs.R.Chance(25) {
					continue
				}
				dk := "query"
				if s.kind == "query" {
					dk = "header"
				}
				if declared[c17Key(dk, s.key)] {
					continue
				}
				v := c17Val(cs.R, hf.f.T, dk, o.NoBase64Binary)
				txt := c17Text(cs.R, v, hf.f.T, o.NoBase64Binary)
				if txt == "" {
					continue
				}
				if dk == "query" {
					if rq.query.Get(s.key) == "" {
						rq.query.Set(s.key, txt)
						cs.Cover("decoy_value_in_undeclared_container")
					}
				} else if _, ok := rq.headers[s.key]; !ok && stdhttp.CanonicalHeaderKey(s.key) == s.key {
					rq.headers[s.key] = txt
					cs.Cover("decoy_value_in_undeclared_container")
				}
			}
		}
		// values filed under a field's own name: ignored unless the traceback option is on
		for _, hf := range append(append([]hmField{}, root...), sub...) {
			if !cs.R.Chance(25) {
				continue
			}
			t := hf.f.T
			kind := []string{"query", "header", "path"}[cs.R.Intn(3)]
			v := c17Val(cs.R, t, kind, o.NoBase64Binary)
			txt := c17Text(cs.R, v, t, o.NoBase64Binary)
			if txt == "" {
				continue
			}
			switch kind {
			case "query":
				rq.query.Set(hf.f.Name, txt)
			case "header":
				rq.headers[hf.f.Name] = txt
			default:
				rq.params[hf.f.Name] = txt
			}
			rq.byName[hf.f.Name] = v
		}
		// the same (kind,key) may be shared by the duplicated body field: its typed value is the string form
		members := func(fields []hmField, level string) {
			for _, hf := range fields {
				p := 50
				if len(hf.srcs) == 0 {
					p = 70
				}
				if !cs.R.Chance(p) {
					continue
				}
				v := c17Val(cs.R, hf.f.T, "json", o.NoBase64Binary)
				rq.body[level] = append(rq.body[level], c17Member{key: hf.f.Name, json: RenderJSON(cs.R, v, hf.f.T, JSpell{}, JOpts{NoBase64Binary: o.NoBase64Binary}), val: v})
			}
		}
		var data []byte
		subPresent := false
		if bodyKind != "none" {
			if bodyKind == "json" {
				members(root, "")
				if withSub && cs.R.Chance(75) {
					subPresent = true
					members(sub, "Sub")
				}
			}
			var ms []string
			for _, m := range rq.body[""] {
				ms = append(ms, jsonQuote(m.key)+":"+m.json)
			}
			if subPresent {
				var ss []string
				for _, m := range rq.body["Sub"] {
					ss = append(ss, jsonQuote(m.key)+":"+m.json)
				}
				ms = append(ms, `"Sub":{`+strings.Join(ss, ",")+`}`)
			}
			// member order is free
			for i := len(ms) - 1; i > 0; i-- {
				j := cs.R.Intn(i + 1)
				ms[i], ms[j] = ms[j], ms[i]
			}
			data = []byte("{" + strings.Join(ms, ",") + "}")
		}
		// (percent-encoded bytes in the path: the raw URI is the URI as sent, not a re-spelled one)
		u := "http://verif.example" + []string{"/root/path", "/root/path", "/root/p%20a/th", "/r%C3%A9/x%2Fy", "/files/a%20b.txt"}[cs.R.Intn(5)]
		if len(rq.query) > 0 {
			u += "?" + rq.query.Encode()
		}
		var rawBody []byte
		ctype := ""
		switch bodyKind {
		case "json":
			rawBody, ctype = data, "application/json"
		case "form":
			rawBody, ctype = []byte(rq.form.Encode()), "application/x-www-form-urlencoded"
			data = []byte("{}")
		}
		sr, err := stdhttp.NewRequest("POST", u, bytes.NewReader(rawBody))
		if err != nil {
			cs.Cover("request_not_buildable")
			return
		}
		if ctype != "" {
			sr.Header.Set("Content-Type", ctype)
		}
		var hk []string
		for k := range rq.headers {
			hk = append(hk, k)
		}
		sort.Strings(hk)
		for _, k := range hk {
			sr.Header.Set(k, rq.headers[k])
		}
		var ck []string
		for k := range rq.cookies {
			ck = append(ck, k)
		}
		sort.Strings(ck)
		for _, k := range ck {
			sr.AddCookie(&stdhttp.Cookie{Name: k, Value: rq.cookies[k]})
		}
		var ps []dhttp.Param
		for k, v := range rq.params {
			ps = append(ps, dhttp.Param{Key: k, Value: v})
		}
		sort.Slice(ps, func(i, j int) bool { return ps[i].Key < ps[j].Key })
		// a request that was not built by NewHTTPRequestFromStdReq (NewHTTPRequestFromUrl, or a literal) parses its
		// JSON body on the first body lookup; every later lookup reads the same members
		lazy := bodyKind == "json" && cs.R.Chance(30)
		var req *dhttp.HTTPRequest
		if lazy {
			req = &dhttp.HTTPRequest{Request: sr}
			for _, p := range ps {
				req.Params.Set(p.Key, p.Value)
			}
			cs.Cover("request_body_parsed_on_demand")
		} else {
			req, err = dhttp.NewHTTPRequestFromStdReq(sr, ps...)
			if err != nil {
				cs.Viol("hm:request-build", "err", err)
				return
			}
		}
		cs.Info("lazy-body", lazy)
		cs.Info("request", fmt.Sprintf("url=%s headers=%v cookies=%v params=%v body(%s)=%s data=%s", u, rq.headers, rq.cookies, rq.params, bodyKind, trunc(string(rawBody)), trunc(string(data))))
		cs.Info("opts", fmt.Sprintf("fallback=%v wr=%v wd=%v wo=%v nob64=%v traceback=%v", o.ReadHttpValueFallback, o.WriteRequireField, o.WriteDefaultField, o.WriteOptionalField, o.NoBase64Binary, o.TracebackRequredOrRootFields))
		// a cookie value may be altered by the standard library (quotes, spaces): what it delivers is what counts
		for k, v := range rq.cookies {
			if c, err := sr.Cookie(k); err != nil || c.Value != v {
				cs.Cover("cookie_not_representable")
				return
			}
		}
		// ---- expectation
		rawURI := sr.URL.String()
		rootBody := string(rawBody)
		if bodyKind == "form" {
			rootBody = "" // the form reader has consumed the body: unasserted
		}
		want, wantErr, unasserted := c17Expect(root, rq, "", o, len(data), rawURI, rootBody)
		if bodyKind == "none" {
			unasserted = true // the empty-body path is only checked for rule 1 below
		}
		if !unasserted && subPresent {
			sw, se, su := c17Expect(sub, rq, "Sub", o, len(data), rawURI, rootBody)
			if su {
				unasserted = true
			} else {
				wantErr = wantErr || se
				want.Fs = append(want.Fs, tref.Field{ID: 2000, V: sw})
			}
		}
		ctx := context.WithValue(context.Background(), conv.CtxKeyHTTPRequest, req)
		cv := j2t.NewBinaryConv(o)
		var out []byte
		if fn, _ := svc.LookupFunctionByMethod("M"); fn != nil && bodyKind == "json" && cs.R.Chance(25) {
			// the same conversion through the HTTP converter, which takes the JSON from the request itself
			// and wraps the struct into a CALL message
			hc := j2t.NewHTTPConv(meta.EncodingThriftBinary, fn)
			var msg []byte
			if cs.R.Bool() {
				msg, err = hc.Do(context.Background(), req, o)
			} else {
				err = hc.DoInto(context.Background(), req, &msg, o)
			}
			if err == nil {
				name, mt, _, id, body, uerr := thrift.UnwrapBinaryMessage(msg)
				if uerr != nil || name != "M" || mt != thrift.CALL || id != 1 {
					cs.Viol("hm:httpconv:envelope", "err", uerr, "name", name, "type", int(mt), "id", int(id))
					return
				}
				out = body
			}
			cs.Cover("request_via_HTTPConv")
		} else {
			out, err = cv.Do(ctx, desc, data)
		}
		if unasserted {
			cs.Cover("request_unasserted_cell")
			if err == nil {
				got, derr := tref.Decode(out, tref.STRUCT)
				if derr != nil {
					cs.Viol("hm:malformed-output", "decode-error", derr, "out", out)
					return
				}
				// rule 1 still holds on the root: a populated first source supplies the value
				for _, hf := range root {
					if len(hf.srcs) == 0 {
						continue
					}
					s := hf.srcs[0]
					if v := rq.have[c17Key(s.kind, s.key)]; v != nil {
						g := got.FieldByID(hf.f.ID)
						if g == nil || !tref.EqualUnordered(g, v) {
							cs.Viol("hm:first-source-value:"+s.kind+":"+tref.TypeName(hf.f.T.T), "field", hf.f.Name, "want", v.String(), "got", fmt.Sprint(g))
							return
						}
						cs.Cover("source_" + s.kind + "_delivered")
					}
				}
			}
			return
		}
		if wantErr {
			if err == nil {
				cs.Viol("hm:missing-required-accepted", "out", out, "want", "error")
			} else {
				cs.Cover("request_missing_required_rejected")
			}
			return
		}
		if err != nil {
			cs.Viol("hm:error-on-domain", "err", err)
			return
		}
		got, derr := tref.Decode(out, tref.STRUCT)
		if derr != nil {
			cs.Viol("hm:malformed-output", "decode-error", derr, "out", out)
			return
		}
		if !tref.EqualUnordered(got, want) {
			// classify by the first differing field
			sig := "hm:value"
			for _, hf := range append(append([]hmField{}, root...), sub...) {
				var g, w *tref.Val
				if strings.HasPrefix(hf.f.Name, "S") {
					if gs, ws := got.FieldByID(2000), want.FieldByID(2000); gs != nil && ws != nil {
						g, w = gs.FieldByID(hf.f.ID), ws.FieldByID(hf.f.ID)
					}
				} else {
					g, w = got.FieldByID(hf.f.ID), want.FieldByID(hf.f.ID)
				}
				if (g == nil) != (w == nil) || (g != nil && !tref.EqualUnordered(g, w)) {
					src := "plain"
					if len(hf.srcs) > 0 {
						src = ""
						for _, s := range hf.srcs {
							src += s.kind + ","
						}
					}
					sig = fmt.Sprintf("hm:value:%s:%s", strings.TrimSuffix(src, ","), tref.TypeName(hf.f.T.T))
					cs.Info("field", fmt.Sprintf("%s got=%v want=%v", hf.f.Name, g, w))
					break
				}
			}
			cs.Viol(sig, "got", got.String(), "want", want.String())
			return
		}
		cs.Cover("request_ok")
		if o.TracebackRequredOrRootFields && o.ReadHttpValueFallback {
			cs.Cover("request_ok_with_traceback")
			cs.CoverN("fields_filled_by_traceback", rq.tbUsed)
		}
		for _, hf := range append(append([]hmField{}, root...), sub...) {
			for i, s := range hf.srcs {
				if rq.have[c17Key(s.kind, s.key)] != nil {
					cs.Cover("source_" + s.kind + "_delivered")
					if i > 0 {
						cs.Cover("later_listed_source_used")
					}
					break
				}
			}
		}
		cs.Distinct(fmt.Sprintf("rq-%d-%s-%d-%v-%s", ob, bodyKind, n, subPresent, shapeKey(want)[:min(len(shapeKey(want)), 16)]))
		if cs.I == 6 {
			cs.Sample(map[string]interface{}{"idl": idl, "url": u, "headers": rq.headers, "body": string(rawBody), "want": want.String()})
		}
	})

	// ---- api.no_body_struct: the members of the annotated struct field are filled by a separate routine
	// (annotation.apiNoBodyStruct), each from the first of its listed sources that has a value, else zero
	c.Run("no-body-struct", c.N(2500, 80000), func(cs *h.Case) {
		scalars := []*gen.Type{{T: tref.STRING}, {T: tref.STRING}, {T: tref.I32}, {T: tref.I64}, {T: tref.BOOL}, {T: tref.DOUBLE}, {T: tref.I16}, {T: tref.BYTE}}
		kinds := []string{"query", "header", "path", "cookie"}
		nbS := &gen.StructT{Name: "NB"}
		var nb []hmField
		used := map[int16]bool{}
		for i := 0; i < 1+cs.R.Intn(6); i++ {
			id := int16(1 + cs.R.Intn(30))
			for used[id] {
				id = int16(1 + cs.R.Intn(30))
			}
			used[id] = true
			f := &gen.FieldT{ID: id, Name: fmt.Sprintf("M%d", i), T: scalars[cs.R.Intn(len(scalars))], Req: cs.R.Intn(3)}
			hf := hmField{f: f}
			seen := map[string]bool{}
			for k := []int{0, 1, 2, 2, 3, 3}[cs.R.Intn(6)]; k > 0; k-- {
				kind := kinds[cs.R.Intn(len(kinds))]
				if seen[kind] {
					continue
				}
				seen[kind] = true
				key := fmt.Sprintf("n%s%d", kind[:1], i)
				if kind == "header" {
					key = fmt.Sprintf("X-N%d", i)
				}
				hf.srcs = append(hf.srcs, hmSrc{kind, key})
			}
			f.Annos = c17AnnoList(hf.srcs)
			nbS.Fields = append(nbS.Fields, f)
			nb = append(nb, hf)
		}
		rootS := &gen.StructT{Name: "Req", Fields: []*gen.FieldT{
			{ID: 1, Name: "plain", T: &gen.Type{T: tref.STRING}, Req: gen.ReqOptional},
			{ID: int16(2 + cs.R.Intn(300)), Name: "nb", T: &gen.Type{T: tref.STRUCT, S: nbS}, Req: cs.R.Intn(3), Annos: []string{`api.no_body_struct=""`}},
		}}
		sc := &gen.Schema{Structs: []*gen.StructT{nbS, rootS}, Root: rootS}
		idl := sc.IDL()
		cs.Info("idl", idl)
		desc, _, err := ParseRoot(sc, thrift.NewDefaultOptions())
		if err != nil {
			cs.Viol("hm:parse-idl", "err", err)
			return
		}
		ob := cs.R.Intn(16)
		o := conv.Options{EnableHttpMapping: true, ReadHttpValueFallback: ob&1 != 0, WriteRequireField: ob&2 != 0, WriteDefaultField: ob&4 != 0, WriteOptionalField: ob&8 != 0}
		query := url.Values{}
		headers, cookies, params := map[string]string{}, map[string]string{}, map[string]string{}
		have := map[string]*tref.Val{}
		for _, hf := range nb {
			for _, s := range hf.srcs {
				if !cs.R.Chance(55) {
					continue
				}
				v := c17Val(cs.R, hf.f.T, s.kind, true)
				txt := c17Text(cs.R, v, hf.f.T, true)
				if txt == "" {
					continue
				}
				switch s.kind {
				case "query":
					query.Set(s.key, txt)
				case "header":
					headers[s.key] = txt
				case "path":
					params[s.key] = txt
				case "cookie":
					cookies[s.key] = txt
				}
				have[c17Key(s.kind, s.key)] = v
			}
		}
		want := tref.Struct()
		data := "{}"
		if cs.R.Bool() {
			w := c17Word(cs.R, false)
			data = `{"plain":` + jsonQuote(w) + `}`
			want.Fs = append(want.Fs, tref.Field{ID: 1, V: tref.Str(w)})
		} // an unset optional field carries no bit in the requires bitmap: never written
		wnb := tref.Struct()
		later, multi := 0, 0
		for _, hf := range nb {
			if len(hf.srcs) == 0 {
				continue // not an http-mapped member: never written by the routine
			}
			var found *tref.Val
			nhave := 0
			for i, s := range hf.srcs {
				if v := have[c17Key(s.kind, s.key)]; v != nil {
					nhave++
					if found == nil {
						found = v
						if i > 0 {
							later++
						}
					}
				}
			}
			if nhave > 1 {
				multi++
			}
			if found == nil {
				found = zeroOf(hf.f.T)
			}
			wnb.Fs = append(wnb.Fs, tref.Field{ID: hf.f.ID, V: found.Clone()})
		}
		want.Fs = append(want.Fs, tref.Field{ID: rootS.Fields[1].ID, V: wnb})
		u := "http://verif.example/nb"
		if len(query) > 0 {
			u += "?" + query.Encode()
		}
		sr, err := stdhttp.NewRequest("POST", u, bytes.NewReader([]byte(data)))
		if err != nil {
			cs.Cover("request_not_buildable")
			return
		}
		sr.Header.Set("Content-Type", "application/json")
		for _, k := range sortedKeys(headers) {
			sr.Header.Set(k, headers[k])
		}
		for _, k := range sortedKeys(cookies) {
			sr.AddCookie(&stdhttp.Cookie{Name: k, Value: cookies[k]})
		}
		for k, v := range cookies {
			if c, err := sr.Cookie(k); err != nil || c.Value != v {
				cs.Cover("cookie_not_representable")
				return
			}
		}
		var ps []dhttp.Param
		for _, k := range sortedKeys(params) {
			ps = append(ps, dhttp.Param{Key: k, Value: params[k]})
		}
		req, err := dhttp.NewHTTPRequestFromStdReq(sr, ps...)
		if err != nil {
			cs.Viol("hm:request-build", "err", err)
			return
		}
		cs.Info("request", fmt.Sprintf("url=%s headers=%v cookies=%v params=%v data=%s", u, headers, cookies, params, data))
		cs.Info("opts", fmt.Sprintf("fallback=%v wr=%v wd=%v wo=%v", o.ReadHttpValueFallback, o.WriteRequireField, o.WriteDefaultField, o.WriteOptionalField))
		ctx := context.WithValue(context.Background(), conv.CtxKeyHTTPRequest, req)
		cv := j2t.NewBinaryConv(o)
		out, err := cv.Do(ctx, desc, []byte(data))
		if err != nil {
			cs.Viol("hm:nbs:error-on-domain", "err", err)
			return
		}
		got, derr := tref.Decode(out, tref.STRUCT)
		if derr != nil {
			cs.Viol("hm:nbs:malformed-output", "decode-error", derr, "out", out)
			return
		}
		if !tref.EqualUnordered(got, want) {
			sig := "hm:nbs:value"
			if g := got.FieldByID(rootS.Fields[1].ID); g != nil && g.T == tref.STRUCT {
				for _, hf := range nb {
					gv, wv := g.FieldByID(hf.f.ID), wnb.FieldByID(hf.f.ID)
					if (gv == nil) != (wv == nil) || (gv != nil && !tref.EqualUnordered(gv, wv)) {
						src := "plain"
						if len(hf.srcs) > 0 {
							src = ""
							for _, s := range hf.srcs {
								src += s.kind + ","
							}
						}
						sig = fmt.Sprintf("hm:nbs:value:%s:%s", strings.TrimSuffix(src, ","), tref.TypeName(hf.f.T.T))
						cs.Info("field", fmt.Sprintf("%s got=%v want=%v", hf.f.Name, gv, wv))
						break
					}
				}
			}
			cs.Viol(sig, "got", got.String(), "want", want.String())
			return
		}
		cs.Cover("nbs_ok")
		cs.CoverN("nbs_member_from_later_source", later)
		cs.CoverN("nbs_member_with_several_populated_sources", multi)
		cs.Distinct(fmt.Sprintf("nbs-%d-%s", ob, shapeKey(want)[:min(len(shapeKey(want)), 16)]))
	})

	// ---- response side
	c.Run("response", c.N(3000, 100000), func(cs *h.Case) {
		mk := func(prefix string, n int, nested bool) (*gen.StructT, []hmField) {
			st := &gen.StructT{Name: prefix + "Resp"}
			var fs []hmField
			used := map[int16]bool{}
			status := false
			for i := 0; i < n; i++ {
				var id int16
				for {
					id = int16(1 + cs.R.Intn(30))
					if !used[id] {
						break
					}
				}
				used[id] = true
				t := []*gen.Type{{T: tref.STRING}, {T: tref.I32}, {T: tref.I64}, {T: tref.BOOL}, {T: tref.DOUBLE}, {T: tref.STRING}}[cs.R.Intn(6)]
				f := &gen.FieldT{ID: id, Name: fmt.Sprintf("%sR%d", prefix, i), T: t, Req: cs.R.Intn(3)}
				hf := hmField{f: f}
				switch x := cs.R.Intn(10); {
				case x < 3:
					hf.srcs = []hmSrc{{"header", fmt.Sprintf("X-%s%d", prefix, i)}}
				case x < 5:
					hf.srcs = []hmSrc{{"cookie", fmt.Sprintf("%sc%d", prefix, i)}}
				case x < 6 && !status && !nested:
					f.T = &gen.Type{T: tref.I32}
					hf.srcs = []hmSrc{{"http_code", "status"}}
					status = true
				}
				f.Annos = c17AnnoList(hf.srcs)
				st.Fields = append(st.Fields, f)
				fs = append(fs, hf)
			}
			return st, fs
		}
		subS, sub := mk("N", 1+cs.R.Intn(4), true)
		rootS, root := mk("", 2+cs.R.Intn(6), false)
		withSub := cs.R.Chance(60)
		structs := []*gen.StructT{rootS}
		if withSub {
			rootS.Fields = append(rootS.Fields, &gen.FieldT{ID: 100, Name: "Meta", T: &gen.Type{T: tref.STRUCT, S: subS}, Req: gen.ReqOptional})
			structs = []*gen.StructT{subS, rootS}
		}
		sc := &gen.Schema{Structs: structs, Root: rootS}
		cs.Info("idl", sc.IDL())
		desc, _, err := ParseRoot(sc, thrift.NewDefaultOptions())
		if err != nil {
			cs.Viol("hm:parse-idl", "err", err)
			return
		}
		ob := cs.R.Intn(8)
		o := conv.Options{EnableHttpMapping: true, WriteRequireField: ob&1 != 0, WriteDefaultField: ob&2 != 0, WriteOptionalField: ob&4 != 0}
		// the message: every required field present; others present with 75%
		type exp struct {
			hf hmField
			v  *tref.Val
		}
		var delivered []exp
		wantBody := map[string]map[string]*tref.Val{"": {}, "Meta": {}}
		build := func(fs []hmField, level string) *tref.Val {
			v := tref.Struct()
			for _, hf := range fs {
				if hf.f.Req != gen.ReqRequired && !cs.R.Chance(75) {
					continue
				}
				var x *tref.Val
				switch {
				case len(hf.srcs) > 0 && hf.srcs[0].kind == "http_code":
					x = tref.Int32(int32([]int{200, 201, 404, 500, 302}[cs.R.Intn(5)]))
				case hf.f.T.T == tref.STRING:
					x = tref.Str(c17Word(cs.R, false))
				default:
					x = c17Val(cs.R, hf.f.T, "response", false)
				}
				v.Fs = append(v.Fs, tref.Field{ID: hf.f.ID, V: x})
				if len(hf.srcs) > 0 {
					delivered = append(delivered, exp{hf, x})
				} else {
					wantBody[level][hf.f.Name] = x
				}
			}
			return v
		}
		msg := build(root, "")
		metaPresent := withSub && cs.R.Chance(80)
		if metaPresent {
			msg.Fs = append(msg.Fs, tref.Field{ID: 100, V: build(sub, "Meta")})
		}
		// absent fields may be filled by the write options: only assert what is present, and the absence of
		// delivered fields from the body
		b := tref.Encode(msg)
		cs.Info("message", msg.String())
		cs.Info("opts", fmt.Sprintf("wr=%v wd=%v wo=%v", o.WriteRequireField, o.WriteDefaultField, o.WriteOptionalField))
		resp := dhttp.NewHTTPResponse()
		ctx := context.WithValue(context.Background(), conv.CtxKeyHTTPResponse, resp)
		cv := t2j.NewBinaryConv(o)
		out, err := cv.Do(ctx, desc, b)
		if err != nil {
			cs.Viol("hm:resp:error-on-domain", "err", err)
			return
		}
		j, perr := ParseJSON(out)
		if perr != nil || j.K != 'o' {
			cs.Viol("hm:resp:malformed-json", "out", string(out))
			return
		}
		find := func(o *JV, k string) *JV {
			for i, kk := range o.Keys {
				if kk == k {
					return o.Vals[i]
				}
			}
			return nil
		}
		textOf := func(v *tref.Val) string {
			switch v.T {
			case tref.STRING:
				return string(v.S)
			case tref.BOOL:
				return strconv.FormatBool(v.B)
			case tref.DOUBLE:
				return ""
			}
			return strconv.FormatInt(v.I, 10)
		}
		cookies := map[string][]string{}
		for _, ck := range (&stdhttp.Response{Header: resp.Header}).Cookies() {
			cookies[ck.Name] = append(cookies[ck.Name], ck.Value)
		}
		for _, e := range delivered {
			s := e.hf.srcs[0]
			nested := strings.HasPrefix(e.hf.f.Name, "N")
			lvl := ""
			if nested {
				lvl = ":nested"
			}
			obj := j
			if nested {
				obj = find(j, "Meta")
			}
			if obj != nil && obj.K == 'o' && find(obj, e.hf.f.Name) != nil {
				cs.Viol("hm:resp:delivered-field-also-in-body:"+s.kind+lvl, "field", e.hf.f.Name, "out", string(out))
				return
			}
			wantTxt := textOf(e.v)
			switch s.kind {
			case "header":
				gotH := resp.Header.Values(s.key)
				if len(gotH) != 1 || (wantTxt != "" && gotH[0] != wantTxt) {
					cs.Viol("hm:resp:header"+lvl, "field", e.hf.f.Name, "key", s.key, "got", fmt.Sprint(gotH), "want", wantTxt)
					return
				}
			case "cookie":
				gotC := cookies[s.key]
				if len(gotC) != 1 || (wantTxt != "" && gotC[0] != wantTxt) {
					cs.Viol("hm:resp:cookie"+lvl, "field", e.hf.f.Name, "key", s.key, "got", fmt.Sprint(gotC), "want", wantTxt)
					return
				}
			case "http_code":
				if resp.StatusCode != int(e.v.I) {
					cs.Viol("hm:resp:status", "got", resp.StatusCode, "want", e.v.I)
					return
				}
			}
			cs.Cover("response_" + s.kind + "_delivered" + strings.ReplaceAll(lvl, ":", "_"))
		}
		// plain present fields are in the body with their values
		for level, fs := range wantBody {
			obj := j
			if level == "Meta" {
				if !metaPresent {
					continue
				}
				obj = find(j, "Meta")
				if obj == nil || obj.K != 'o' {
					cs.Viol("hm:resp:nested-object-missing", "out", string(out))
					return
				}
			}
			for name, v := range fs {
				jv := find(obj, name)
				ok := jv != nil
				if ok {
					switch v.T {
					case tref.STRING:
						ok = jv.K == 's' && jv.S == string(v.S)
					case tref.BOOL:
						ok = jv.K == 'b' && jv.B == v.B
					case tref.DOUBLE:
						f, e := strconv.ParseFloat(jv.N, 64)
						ok = jv.K == '#' && e == nil && f == v.F
					default:
						ok = jv.K == '#' && jv.N == strconv.FormatInt(v.I, 10)
					}
				}
				if !ok {
					cs.Viol("hm:resp:plain-field", "field", name, "want", v.String(), "out", string(out))
					return
				}
			}
		}
		cs.Cover("response_ok")
		cs.Distinct(fmt.Sprintf("rs-%d-%d-%v-%d", ob, len(root), metaPresent, len(delivered)))
	})
}

// c17RespOptions: response fields listing several annotations, some of which cannot deliver on the response side
// (api.query/path/form/body are request-only), under OmitHttpMappingErrors x WriteHttpValueFallback x
// UseKitexHttpEncoding.  The annotations are tried from left to right; a failing one is an error unless
// OmitHttpMappingErrors is set; the first that delivers wins and the field is left out of the JSON body; a field
// none of whose annotations delivered goes to the body only under WriteHttpValueFallback.
func c17RespOptions(c *h.Ctx) {
	c.Run("response-options", c.N(2500, 80000), func(cs *h.Case) {
		types := []*gen.Type{{T: tref.STRING}, {T: tref.I32}, {T: tref.I64}, {T: tref.BOOL}, {T: tref.STRING}, {T: tref.I16},
			{T: tref.LIST, Elem: &gen.Type{T: tref.STRING}}, {T: tref.LIST, Elem: &gen.Type{T: tref.I64}}, {T: tref.STRUCT, S: c17Inner}}
		rootS := &gen.StructT{Name: "Resp"}
		var fs []hmField
		used := map[int16]bool{}
		status, rawBody := false, false
		for i := 0; i < 2+cs.R.Intn(6); i++ {
			id := int16(1 + cs.R.Intn(40))
			for used[id] {
				id = int16(1 + cs.R.Intn(40))
			}
			used[id] = true
			t := types[cs.R.Intn(len(types))]
			f := &gen.FieldT{ID: id, Name: fmt.Sprintf("R%d", i), T: t, Req: cs.R.Intn(3)}
			hf := hmField{f: f}
			seen := map[string]bool{}
			for k := []int{0, 1, 1, 2, 2, 3}[cs.R.Intn(6)]; k > 0; k-- {
				kind := []string{"query", "path", "form", "body", "header", "header", "cookie", "http_code", "raw_body"}[cs.R.Intn(9)]
				switch {
				case kind == "cookie" && (t.T == tref.LIST || t.T == tref.STRUCT):
					kind = "header"
				case kind == "http_code" && (status || t.T != tref.I32):
					kind = "header"
				case kind == "raw_body" && (rawBody || (t.T != tref.STRING && t.T != tref.STRUCT)):
					kind = "header"
				}
				if seen[kind] {
					continue
				}
				seen[kind] = true
				key := fmt.Sprintf("%s%d", kind[:1], i)
				switch kind {
				case "header":
					key = fmt.Sprintf("X-R%d", i)
				case "http_code":
					key, status = "status", true
				case "raw_body":
					key, rawBody = "", true
				}
				hf.srcs = append(hf.srcs, hmSrc{kind, key})
			}
			f.Annos = c17AnnoList(hf.srcs)
			rootS.Fields = append(rootS.Fields, f)
			fs = append(fs, hf)
		}
		sc := &gen.Schema{Structs: []*gen.StructT{c17Inner, rootS}, Root: rootS}
		cs.Info("idl", sc.IDL())
		desc, _, err := ParseRoot(sc, thrift.NewDefaultOptions())
		if err != nil {
			cs.Viol("hm:parse-idl", "err", err)
			return
		}
		ob := cs.R.Intn(8)
		o := conv.Options{EnableHttpMapping: true, OmitHttpMappingErrors: ob&1 != 0, WriteHttpValueFallback: ob&2 != 0, UseKitexHttpEncoding: ob&4 != 0}
		cs.Info("opts", fmt.Sprintf("omit-errors=%v write-fallback=%v kitex=%v", o.OmitHttpMappingErrors, o.WriteHttpValueFallback, o.UseKitexHttpEncoding))
		delivers := func(kind string) bool {
			return kind == "header" || kind == "cookie" || kind == "http_code" || kind == "raw_body"
		}
		type exp struct {
			hf   hmField
			v    *tref.Val
			sink *hmSrc // nil: no annotation delivered
		}
		var exps []exp
		msg := tref.Struct()
		wantErr := false
		for _, hf := range fs {
			if hf.f.Req != gen.ReqRequired && !cs.R.Chance(80) {
				continue
			}
			var x *tref.Val
			switch {
			case hf.f.T.T == tref.I32 && len(hf.srcs) > 0:
				x = tref.Int32(int32([]int{200, 201, 404, 500, 302}[cs.R.Intn(5)]))
			default:
				x = c17Val(cs.R, hf.f.T, "response", false)
				if hf.f.T.T == tref.STRING && cs.R.Chance(20) {
					x = tref.Str("") // an empty value is a value
				}
				if hf.f.T.T == tref.LIST && hf.f.T.Elem.T == tref.STRING && len(x.L) > 0 && cs.R.Chance(35) {
					// empty elements, also in front
					x.L[0] = tref.Str("")
					if len(x.L) > 2 && cs.R.Bool() {
						x.L[1] = tref.Str("")
					}
					cs.Cover("respopt_list_with_empty_elements")
				}
			}
			msg.Fs = append(msg.Fs, tref.Field{ID: hf.f.ID, V: x})
			e := exp{hf: hf, v: x}
			for i := range hf.srcs {
				if delivers(hf.srcs[i].kind) {
					e.sink = &hf.srcs[i]
					break
				}
				if !o.OmitHttpMappingErrors {
					wantErr = true
					break
				}
			}
			exps = append(exps, e)
		}
		b := tref.Encode(msg)
		cs.Info("message", msg.String())
		resp := dhttp.NewHTTPResponse()
		ctx := context.WithValue(context.Background(), conv.CtxKeyHTTPResponse, resp)
		cv := t2j.NewBinaryConv(o)
		out, err := cv.Do(ctx, desc, b)
		if wantErr {
			if err == nil {
				cs.Viol("hm:respopt:failing-annotation-accepted", "out", string(out))
			} else {
				cs.Cover("respopt_failing_annotation_rejected")
			}
			return
		}
		if err != nil {
			cs.Viol("hm:respopt:error-on-domain", "err", err)
			return
		}
		j, perr := ParseJSON(out)
		if perr != nil || j.K != 'o' {
			cs.Viol("hm:resp:malformed-json", "out", string(out))
			return
		}
		find := func(k string) *JV {
			for i, kk := range j.Keys {
				if kk == k {
					return j.Vals[i]
				}
			}
			return nil
		}
		// text of a value as a response sink carries it
		var textOf func(v *tref.Val) string
		textOf = func(v *tref.Val) string {
			switch v.T {
			case tref.STRING:
				return string(v.S)
			case tref.BOOL:
				return strconv.FormatBool(v.B)
			case tref.LIST:
				var ps []string
				for _, e := range v.L {
					if o.UseKitexHttpEncoding {
						ps = append(ps, textOf(e))
					} else if e.T == tref.STRING {
						ps = append(ps, jsonQuote(string(e.S)))
					} else {
						ps = append(ps, textOf(e))
					}
				}
				if o.UseKitexHttpEncoding {
					return strings.Join(ps, ",")
				}
				return "[" + strings.Join(ps, ",") + "]"
			case tref.STRUCT:
				// the nested struct as a JSON object (c17Inner: a string, b i32), members in wire order
				var ps []string
				for _, f := range v.Fs {
					if f.V.T == tref.STRING {
						ps = append(ps, jsonQuote(c17Inner.Field(f.ID).Name)+":"+jsonQuote(string(f.V.S)))
					} else {
						ps = append(ps, jsonQuote(c17Inner.Field(f.ID).Name)+":"+strconv.FormatInt(f.V.I, 10))
					}
				}
				return "{" + strings.Join(ps, ",") + "}"
			}
			return strconv.FormatInt(v.I, 10)
		}
		inBody := func(e exp) bool {
			jv := find(e.hf.f.Name)
			if jv == nil {
				return false
			}
			return true
		}
		cookies := map[string][]string{}
		for _, ck := range (&stdhttp.Response{Header: resp.Header}).Cookies() {
			cookies[ck.Name] = append(cookies[ck.Name], ck.Value)
		}
		for _, e := range exps {
			cls := "plain"
			if len(e.hf.srcs) > 0 {
				cls = ""
				for _, s := range e.hf.srcs {
					cls += s.kind + ","
				}
				cls = strings.TrimSuffix(cls, ",")
			}
			switch {
			case len(e.hf.srcs) == 0:
				if !inBody(e) {
					cs.Viol("hm:respopt:plain-field-missing", "field", e.hf.f.Name, "out", string(out))
					return
				}
			case e.sink == nil:
				if inBody(e) != o.WriteHttpValueFallback {
					cs.Viol("hm:respopt:undelivered-field-body:"+cls, "field", e.hf.f.Name, "in-body", inBody(e), "write-fallback", o.WriteHttpValueFallback, "out", string(out))
					return
				}
				if o.WriteHttpValueFallback {
					cs.Cover("respopt_undelivered_field_written_to_body")
				} else {
					cs.Cover("respopt_undelivered_field_dropped")
				}
			default:
				if inBody(e) {
					cs.Viol("hm:respopt:delivered-field-also-in-body:"+cls, "field", e.hf.f.Name, "out", string(out))
					return
				}
				want := textOf(e.v)
				var got []string
				switch e.sink.kind {
				case "header":
					got = resp.Header.Values(e.sink.key)
				case "cookie":
					got = cookies[e.sink.key]
				case "http_code":
					got, want = []string{strconv.Itoa(resp.StatusCode)}, strconv.FormatInt(e.v.I, 10)
				case "raw_body":
					if resp.Response.Body != nil {
						bb, _ := io.ReadAll(resp.Response.Body)
						got = []string{string(bb)}
					}
				}
				if e.v.T == tref.STRUCT && o.UseKitexHttpEncoding {
					want = "" // Go's %v rendering of the decoded struct: only its delivery is asserted
					if len(got) == 1 {
						got[0] = ""
					}
				}
				if len(got) != 1 || got[0] != want {
					cs.Viol("hm:respopt:sink-value:"+cls+":"+tref.TypeName(e.hf.f.T.T), "field", e.hf.f.Name, "sink", e.sink.kind, "got", fmt.Sprint(got), "want", want)
					return
				}
				cs.Cover("respopt_" + e.sink.kind + "_delivered")
				if e.v.T == tref.STRING && len(e.v.S) == 0 {
					cs.Cover("respopt_empty_value_delivered")
					if e.sink != &e.hf.srcs[0] {
						cs.Cover("respopt_empty_value_delivered_by_later_annotation")
					}
				}
				if e.sink != &e.hf.srcs[0] {
					cs.Cover("respopt_later_annotation_delivered")
				}
				if e.v.T == tref.STRUCT && !o.UseKitexHttpEncoding {
					cs.Cover("respopt_struct_json_encoded")
				}
				if e.v.T == tref.LIST {
					if o.UseKitexHttpEncoding {
						cs.Cover("respopt_list_kitex_encoded")
					} else {
						cs.Cover("respopt_list_json_encoded")
					}
				}
			}
		}
		cs.Cover("respopt_ok")
		cs.Distinct(fmt.Sprintf("ro-%d-%d-%s", ob, len(exps), shapeKey(msg)[:min(len(shapeKey(msg)), 14)]))
	})
}

// c17RawBodyComplex: api.raw_body on struct- and map-typed request fields: the whole JSON body is parsed as the
// field's value (the root struct skips the members it does not declare).
func c17RawBodyComplex(c *h.Ctx) {
	c.Run("raw-body-complex", c.N(1200, 30000), func(cs *h.Case) {
		inS := &gen.StructT{Name: "In", Fields: []*gen.FieldT{
			{ID: 1, Name: "a", T: &gen.Type{T: tref.STRING}, Req: gen.ReqOptional},
			{ID: 2, Name: "b", T: &gen.Type{T: tref.I32}, Req: gen.ReqOptional},
			{ID: 3, Name: "l", T: &gen.Type{T: tref.LIST, Elem: &gen.Type{T: tref.STRING}}, Req: gen.ReqOptional},
		}}
		var bt *gen.Type
		if cs.R.Bool() {
			bt = &gen.Type{T: tref.STRUCT, S: inS}
		} else {
			bt = &gen.Type{T: tref.MAP, Key: &gen.Type{T: tref.STRING}, Elem: &gen.Type{T: tref.STRING}}
		}
		id := int16(1 + cs.R.Intn(20))
		rootS := &gen.StructT{Name: "Req", Fields: []*gen.FieldT{
			{ID: id, Name: "payload", T: bt, Req: cs.R.Intn(3), Annos: []string{`api.raw_body=""`}},
			{ID: id + 1, Name: "qfield", T: &gen.Type{T: tref.STRING}, Req: gen.ReqOptional, Annos: []string{`api.query="q"`}},
		}}
		sc := &gen.Schema{Structs: []*gen.StructT{inS, rootS}, Root: rootS}
		cs.Info("idl", sc.IDL())
		desc, _, err := ParseRoot(sc, thrift.NewDefaultOptions())
		if err != nil {
			cs.Viol("hm:parse-idl", "err", err)
			return
		}
		var v *tref.Val
		if bt.T == tref.STRUCT {
			v = tref.Struct()
			if cs.R.Chance(80) {
				v.Fs = append(v.Fs, tref.Field{ID: 1, V: tref.Str(c17Word(cs.R, true))})
			}
			if cs.R.Chance(80) {
				v.Fs = append(v.Fs, tref.Field{ID: 2, V: tref.Int32(int32(cs.R.Intn(100000)))})
			}
			if cs.R.Chance(50) {
				l := &tref.Val{T: tref.LIST, ET: tref.STRING}
				for k := cs.R.Intn(4); k > 0; k-- {
					l.L = append(l.L, tref.Str(c17Word(cs.R, true)))
				}
				v.Fs = append(v.Fs, tref.Field{ID: 3, V: l})
			}
		} else {
			v = c17Val(cs.R, bt, "json", false)
			for _, k := range v.K {
				if string(k.S) == "qfield" || string(k.S) == "payload" {
					return // a body member named like a root field is a body-fallback source of that field
				}
			}
		}
		body := RenderJSON(cs.R, v, bt, JSpell{WS: cs.R.Intn(2)}, JOpts{})
		want := tref.Struct(tref.Field{ID: id, V: v})
		u := "http://verif.example/rb"
		if cs.R.Bool() {
			w := c17Word(cs.R, false)
			u += "?q=" + url.QueryEscape(w)
			want.Fs = append(want.Fs, tref.Field{ID: id + 1, V: tref.Str(w)})
		}
		sr, err := stdhttp.NewRequest("POST", u, bytes.NewReader([]byte(body)))
		if err != nil {
			return
		}
		sr.Header.Set("Content-Type", "application/json")
		req, err := dhttp.NewHTTPRequestFromStdReq(sr)
		if err != nil {
			cs.Viol("hm:request-build", "err", err)
			return
		}
		cs.Info("request", fmt.Sprintf("url=%s body=%s", u, body))
		o := conv.Options{EnableHttpMapping: true, ReadHttpValueFallback: cs.R.Bool()}
		ctx := context.WithValue(context.Background(), conv.CtxKeyHTTPRequest, req)
		cv := j2t.NewBinaryConv(o)
		out, err := cv.Do(ctx, desc, []byte(body))
		cls := tref.TypeName(bt.T)
		if err != nil {
			cs.Viol("hm:rawbody:error-on-domain:"+cls, "err", err)
			return
		}
		got, derr := tref.Decode(out, tref.STRUCT)
		if derr != nil {
			cs.Viol("hm:rawbody:malformed-output", "decode-error", derr, "out", out)
			return
		}
		if !tref.EqualUnordered(got, want) {
			cs.Viol("hm:rawbody:value:"+cls, "got", got.String(), "want", want.String())
			return
		}
		cs.Cover("rawbody_complex_ok")
		cs.Cover("rawbody_complex_ok_" + cls)
		cs.Distinct(fmt.Sprintf("rb-%s-%s", cls, shapeKey(v)[:min(len(shapeKey(v)), 14)]))
	})
}

// c17WideRoot: root structs with more fields than the native field cache (4096): with body fallback and traceback all
// unset root fields are handed back to Go; the few that have a value under their own name in the query are filled.
func c17WideRoot(c *h.Ctx) {
	c.Run("wide-root", c.N(12, 48), func(cs *h.Case) {
		n := []int{100, 4095, 4096, 4097, 4100, 5000, 8192, 8193, 9000, 12289, 4098, 6000}[cs.I%12]
		st := &gen.StructT{Name: "Wide"}
		for i := 0; i < n; i++ {
			st.Fields = append(st.Fields, &gen.FieldT{ID: int16(1 + i), Name: fmt.Sprintf("w%d", i), T: &gen.Type{T: tref.I32}, Req: gen.ReqDefault})
		}
		sc := &gen.Schema{Structs: []*gen.StructT{st}, Root: st}
		desc, _, err := ParseRoot(sc, thrift.NewDefaultOptions())
		if err != nil {
			cs.Viol("hm:parse-idl", "err", err)
			return
		}
		want := tref.Struct()
		q := url.Values{}
		for k := 0; k < 3; k++ {
			i := cs.R.Intn(n)
			if want.FieldByID(int16(1+i)) != nil {
				continue
			}
			v := int32(cs.R.Intn(100000))
			q.Set(fmt.Sprintf("w%d", i), strconv.Itoa(int(v)))
			want.Fs = append(want.Fs, tref.Field{ID: int16(1 + i), V: tref.Int32(v)})
		}
		sr, _ := stdhttp.NewRequest("POST", "http://verif.example/w?"+q.Encode(), bytes.NewReader([]byte("{}")))
		sr.Header.Set("Content-Type", "application/json")
		req, err := dhttp.NewHTTPRequestFromStdReq(sr)
		if err != nil {
			cs.Viol("hm:request-build", "err", err)
			return
		}
		cs.Info("fields", n)
		ctx := context.WithValue(context.Background(), conv.CtxKeyHTTPRequest, req)
		var out []byte
		cs.Guarded("j2t.Do+wide-root", 30*time.Second, func() {
			cv := j2t.NewBinaryConv(conv.Options{EnableHttpMapping: true, ReadHttpValueFallback: true, TracebackRequredOrRootFields: true})
			out, err = cv.Do(ctx, desc, []byte("{}"))
		})
		if err != nil {
			cs.Viol("hm:wide-root:error-on-domain", "err", err, "fields", n)
			return
		}
		got, derr := tref.Decode(out, tref.STRUCT)
		if derr != nil {
			cs.Viol("hm:wide-root:malformed-output", "decode-error", derr)
			return
		}
		if !tref.EqualUnordered(got, want) {
			cs.Viol("hm:wide-root:value", "got", trunc(got.String()), "want", want.String(), "fields", n)
			return
		}
		cs.Cover("wide_root_ok")
		if n > 4096 {
			cs.Cover("wide_root_beyond_field_cache_ok")
		}
		cs.Distinct(fmt.Sprintf("wr-%d", n))
	})
}

func sortedKeys(m map[string]string) []string {
	var ks []string
	for k := range m {
		ks = append(ks, k)
	}
	sort.Strings(ks)
	return ks
}

// c17TracebackSubdoc: a struct-typed field supplied by an http source as JSON text (a sub-document). Under
// ReadHttpValueFallback + TracebackRequredOrRootFields a REQUIRED member that the text leaves out is looked up in
// the request under its own name (path parameter, query, header, cookie, body root); members that are not
// required are not. Without a value anywhere: missing-field error, or zero under WriteRequireField.
func c17TracebackSubdoc(c *h.Ctx) {
	const idl = `namespace go verif
struct Inner { 1: required string token, 2: optional i32 n, 3: string plain, 4: required i64 rid }
struct Req { 1: optional Inner h (api.header="X-In"), 2: optional Inner q (api.query="qin"), 3: optional string other }
service Svc { Req M(1: Req req) }
`
	var desc *thrift.TypeDescriptor
	c.Run("traceback-subdocument", c.N(600, 12000), func(cs *h.Case) {
		if desc == nil {
			svc, err := thrift.NewDescritorFromContent(context.Background(), "tb.thrift", idl, nil, false)
			if err != nil {
				cs.Viol("hm:parse-idl", "err", err)
				return
			}
			desc, _ = RootOf(svc, "M")
		}
		viaHeader := cs.R.Bool()
		n := cs.R.Intn(1000)
		tokInText, ridInText := cs.R.Chance(30), cs.R.Chance(50)
		tok, rid := "tok"+strconv.Itoa(cs.R.Intn(1000)), int64(cs.R.Intn(1000000))
		ms := []string{fmt.Sprintf(`"n":%d`, n)}
		if tokInText {
			ms = append(ms, `"token":"inner-`+tok+`"`)
		}
		if ridInText {
			ms = append(ms, fmt.Sprintf(`"rid":%d`, rid+1))
		}
		text := "{" + strings.Join(ms, ",") + "}"
		// where the request keeps values under the members' own names (one place each, or nowhere)
		place := func() string { return []string{"query", "header", "cookie", "param", "body", "none"}[cs.R.Intn(6)] }
		tokPlace, ridPlace := place(), place()
		q := url.Values{}
		hdr := map[string]string{}
		var cookies []*stdhttp.Cookie
		var params []dhttp.Param
		body := map[string]string{}
		put := func(where, k, v string, quote bool) {
			switch where {
			case "query":
				q.Set(k, v)
			case "header":
				hdr[k] = v
			case "cookie":
				cookies = append(cookies, &stdhttp.Cookie{Name: k, Value: v})
			case "param":
				params = append(params, dhttp.Param{Key: k, Value: v})
			case "body":
				if quote {
					v = strconv.Quote(v)
				}
				body[k] = v
			}
		}
		put(tokPlace, "token", tok, true)
		tokReq := tok // what a lookup of "token" in the request delivers
		put(ridPlace, "rid", strconv.FormatInt(rid, 10), false)
		// the same name in a second place with another value: the places are searched in a fixed order
		// (path parameter, query, header, cookie, body root) and the first one that has a value supplies it
		order := map[string]int{"param": 0, "query": 1, "header": 2, "cookie": 3, "body": 4}
		if second := place(); tokPlace != "none" && second != "none" && second != tokPlace && cs.R.Bool() {
			other := "second-" + tok
			put(second, "token", other, true)
			if order[second] < order[tokPlace] {
				tokReq = other
			}
			cs.Cover("traceback_subdoc_name_in_two_places")
		}
		q.Set("plain", "never-used") // not required: a sub-document's other members are not traced back
		if !viaHeader {
			q.Set("qin", text)
		}
		var bms []string
		for _, k := range sortedKeys(body) {
			bms = append(bms, fmt.Sprintf("%q:%s", k, body[k]))
		}
		data := "{" + strings.Join(bms, ",") + "}"
		sr, _ := stdhttp.NewRequest("POST", "http://verif.example/t?"+q.Encode(), bytes.NewReader([]byte(data)))
		sr.Header.Set("Content-Type", "application/json")
		if viaHeader {
			sr.Header.Set("X-In", text)
		}
		for k, v := range hdr {
			sr.Header.Set(k, v)
		}
		for _, ck := range cookies {
			sr.AddCookie(ck)
		}
		req, err := dhttp.NewHTTPRequestFromStdReq(sr, params...)
		if err != nil {
			cs.Viol("hm:request-build", "err", err)
			return
		}
		o := conv.Options{EnableHttpMapping: true, ReadHttpValueFallback: true, TracebackRequredOrRootFields: cs.R.Chance(75), WriteRequireField: cs.R.Bool()}
		cs.Info("request", fmt.Sprintf("text=%s via-header=%v token@%s rid@%s body=%s opts=%+v", text, viaHeader, tokPlace, ridPlace, data, o))
		// expectation
		inner := tref.Struct()
		missing := false
		if tokInText {
			inner.Fs = append(inner.Fs, tref.Field{ID: 1, V: tref.Str("inner-" + tok)})
		} else if o.TracebackRequredOrRootFields && tokPlace != "none" {
			inner.Fs = append(inner.Fs, tref.Field{ID: 1, V: tref.Str(tokReq)})
		} else if o.WriteRequireField {
			inner.Fs = append(inner.Fs, tref.Field{ID: 1, V: tref.Str("")})
		} else {
			missing = true
		}
		inner.Fs = append(inner.Fs, tref.Field{ID: 2, V: tref.Int32(int32(n))})
		if ridInText {
			inner.Fs = append(inner.Fs, tref.Field{ID: 4, V: tref.Int64(rid + 1)})
		} else if o.TracebackRequredOrRootFields && ridPlace != "none" {
			inner.Fs = append(inner.Fs, tref.Field{ID: 4, V: tref.Int64(rid)})
		} else if o.WriteRequireField {
			inner.Fs = append(inner.Fs, tref.Field{ID: 4, V: tref.Int64(0)})
		} else {
			missing = true
		}
		id := int16(2)
		if viaHeader {
			id = 1
		}
		want := tref.Struct(tref.Field{ID: id, V: inner})
		ctx := context.WithValue(context.Background(), conv.CtxKeyHTTPRequest, req)
		cv := j2t.NewBinaryConv(o)
		out, err := cv.Do(ctx, desc, []byte(data))
		if missing {
			if err == nil {
				cs.Viol("hm:traceback-subdoc:missing-required-accepted", "out", out)
			} else {
				cs.Cover("traceback_subdoc_missing_required_rejected")
			}
			return
		}
		if err != nil {
			cs.Viol("hm:traceback-subdoc:error-on-domain", "err", err)
			return
		}
		got, derr := tref.Decode(out, tref.STRUCT)
		if derr != nil || !tref.EqualUnordered(got, want) {
			cs.Viol("hm:traceback-subdoc:value", "got", fmt.Sprint(got), "want", want.String(), "decode-error", derr)
			return
		}
		cs.Cover("traceback_subdoc_ok")
		if o.TracebackRequredOrRootFields && ((!tokInText && tokPlace != "none") || (!ridInText && ridPlace != "none")) {
			cs.Cover("traceback_subdoc_member_filled_from_request")
		}
	})
}

// c17AbsentBodyMapped: response side, fields absent from the message whose only http annotation has no response side
// (api.body): under a write option and OmitHttpMappingErrors they are written into the JSON body with their zero
// value like any other absent field, with or without WriteHttpValueFallback (nothing can be delivered elsewhere);
// without OmitHttpMappingErrors the undeliverable annotation is an error.
func c17AbsentBodyMapped(c *h.Ctx) {
	c.Run("absent-body-mapped", c.N(300, 6000), func(cs *h.Case) {
		typ := []*gen.Type{{T: tref.I32}, {T: tref.STRING}, {T: tref.BOOL}, {T: tref.LIST, Elem: &gen.Type{T: tref.I64}}, {T: tref.DOUBLE}}[cs.R.Intn(5)]
		req := []int{gen.ReqDefault, gen.ReqRequired}[cs.R.Intn(2)]
		st := &gen.StructT{Name: "Resp", Fields: []*gen.FieldT{
			{ID: 1, Name: "present", T: &gen.Type{T: tref.STRING}, Req: gen.ReqDefault, Annos: []string{`api.header="X-P"`}},
			{ID: 2, Name: "absentBody", T: typ, Req: req, Annos: []string{`api.body="b2"`}},
			{ID: 3, Name: "plain", T: &gen.Type{T: tref.I32}, Req: gen.ReqDefault},
			{ID: 4, Name: "absentPlain", T: typ, Req: req},
		}}
		sc := &gen.Schema{Structs: []*gen.StructT{st}, Root: st}
		desc, _, err := ParseRoot(sc, thrift.NewDefaultOptions())
		if err != nil {
			cs.Viol("hm:parse-idl", "err", err)
			return
		}
		msg := tref.Struct(tref.Field{ID: 1, V: tref.Str("hv")}, tref.Field{ID: 3, V: tref.Int32(7)})
		o := conv.Options{EnableHttpMapping: true, OmitHttpMappingErrors: cs.R.Bool(), WriteHttpValueFallback: cs.R.Bool(), WriteDefaultField: req == gen.ReqDefault, WriteRequireField: req == gen.ReqRequired}
		cs.Info("idl", sc.IDL())
		cs.Info("opts", fmt.Sprintf("omit=%v fallback=%v", o.OmitHttpMappingErrors, o.WriteHttpValueFallback))
		resp := dhttp.NewHTTPResponse()
		ctx := context.WithValue(context.Background(), conv.CtxKeyHTTPResponse, resp)
		cv := t2j.NewBinaryConv(o)
		out, err := cv.Do(ctx, desc, tref.Encode(msg))
		if !o.OmitHttpMappingErrors {
			// an annotation that cannot deliver on the response side is an error unless such errors are omitted
			if err == nil {
				cs.Viol("hm:absent-body-mapped:undeliverable-accepted", "out", string(out))
			} else {
				cs.Cover("absent_body_mapped_rejected_without_omit")
			}
			return
		}
		if err != nil {
			cs.Viol("hm:absent-body-mapped:error-on-domain", "err", err)
			return
		}
		j, perr := ParseJSON(out)
		if perr != nil || j.K != 'o' {
			cs.Viol("hm:absent-body-mapped:malformed-json", "out", string(out))
			return
		}
		has := map[string]*JV{}
		for i, k := range j.Keys {
			has[k] = j.Vals[i]
		}
		zero := func(x *JV) bool {
			if x == nil {
				return false
			}
			switch typ.T {
			case tref.STRING:
				return x.K == 's' && x.S == ""
			case tref.BOOL:
				return x.String() == "false"
			case tref.LIST:
				return x.K == 'a' && len(x.A) == 0
			default:
				return x.K == '#' && (x.N == "0" || x.N == "0.0")
			}
		}
		// the plain absent field is the control: both absent fields are owed to the body alike
		if !zero(has["absentPlain"]) || !zero(has["absentBody"]) {
			cs.Viol("hm:absent-body-mapped:not-written", "out", string(out), "type", tref.TypeName(typ.T), "required", req == gen.ReqRequired)
			return
		}
		if has["plain"] == nil || resp.Header.Get("X-P") != "hv" {
			cs.Viol("hm:absent-body-mapped:present-fields", "out", string(out), "header", resp.Header.Get("X-P"))
			return
		}
		cs.Cover("absent_body_mapped_ok")
	})
}
