package props

import (
	"context"
	"encoding/binary"
	"fmt"
	"github.com/cloudwego/dynamicgo/thrift/base"
	"runtime"
	"strings"
	"time"
	"unsafe"

	"github.com/cloudwego/dynamicgo/conv"
	"github.com/cloudwego/dynamicgo/conv/j2p"
	"github.com/cloudwego/dynamicgo/conv/j2t"
	"github.com/cloudwego/dynamicgo/conv/p2j"
	"github.com/cloudwego/dynamicgo/conv/t2j"
	dhttp "github.com/cloudwego/dynamicgo/http"
	"github.com/cloudwego/dynamicgo/meta"
	dproto "github.com/cloudwego/dynamicgo/proto"
	dbin "github.com/cloudwego/dynamicgo/proto/binary"
	pg "github.com/cloudwego/dynamicgo/proto/generic"
	"github.com/cloudwego/dynamicgo/thrift"
	"github.com/cloudwego/dynamicgo/thrift/generic"
	rwire "google.golang.org/protobuf/encoding/protowire"

	"verifharness/gen"
	"verifharness/h"
	"verifharness/tref"
)

func init() { h.Register("C06", runC06) }

// allocation budget of one call: a fixed multiple of the input size plus a constant for pools and tables
const (
	c06AllocFactor = 2048 // one DOM node (a pre-sized child slice) per 2-3 input bytes of nesting is the worst legitimate ratio
	c06AllocConst  = 16 << 20
	c06Budget      = 20 * time.Second
)

type c06Target struct {
	name string
	run  func(in []byte)
}

// c06Call runs one entry point on one input under all monitors: read-only trap page flush against a guard
// page (over-read => fault), write-ahead of the input (fatal errors), per-call watchdog, allocation meter,
// and the panic recorder of the harness (a panic ends the case).
func c06Call(cs *h.Case, t c06Target, in []byte) {
	tr := h.TrapCopy(in, true, true)
	defer tr.Free()
	cs.Info("entry", t.name)
	cs.Info("input", hexs(in))
	cs.WriteAhead(t.name, in)
	var m0, m1 runtime.MemStats
	runtime.ReadMemStats(&m0)
	cs.Guarded(t.name, c06Budget, func() { t.run(tr.B) })
	runtime.ReadMemStats(&m1)
	d := m1.TotalAlloc - m0.TotalAlloc
	if d > uint64(c06AllocFactor*len(in)+c06AllocConst) {
		cs.Viol("alloc:"+t.name, "allocated", d, "input-len", len(in))
	}
	cs.Cover("call_" + t.name)
	cs.CoverN("calls", 1)
}

// c06Steps drives the single-step accessors of a container node and reads every node they hand back; a
// node that is not an error must be a sub-slice of the input.
func c06Steps(cs *h.Case, t thrift.Type, x *tref.Val, in []byte, gopts *generic.Options) {
	n := generic.NewNode(t, in)
	inside := func(api string, e generic.Node) {
		if e.IsError() {
			cs.CoverN("step_errors", 1)
			return
		}
		cs.CoverN("step_nodes", 1)
		raw := e.Raw()
		if len(raw) > 0 && len(in) > 0 {
			p := uintptr(unsafe.Pointer(&raw[0]))
			base := uintptr(unsafe.Pointer(&in[0]))
			if p < base || p+uintptr(len(raw)) > base+uintptr(len(in)) {
				cs.Viol("escape:"+api, "node-off", int64(p)-int64(base), "node-len", len(raw), "input-len", len(in))
				return
			}
		} else if len(raw) > 0 {
			cs.Viol("escape:"+api, "node-len", len(raw), "input-len", 0)
			return
		}
		e.Int()
		e.Bool()
		e.Byte()
		e.Float64()
		e.String()
		e.Binary()
		e.Interface(gopts)
	}
	switch t {
	case thrift.LIST, thrift.SET:
		for i := -1; i <= len(x.L)+2 && i < 12; i++ {
			inside("Node.Index", n.Index(i))
		}
		ins := make([]generic.PathNode, 0, 4)
		for i := 0; i < 4; i++ {
			ins = append(ins, generic.PathNode{Path: generic.NewPathIndex(i)})
		}
		if n.Indexes(ins, gopts) == nil {
			for _, e := range ins {
				inside("Node.Indexes", e.Node)
			}
		}
		n.List(gopts)
	case thrift.MAP:
		var keys []generic.PathNode
		for _, k := range x.K {
			switch k.T {
			case tref.STRING:
				inside("Node.GetByStr", n.GetByStr(string(k.S)))
				keys = append(keys, generic.PathNode{Path: generic.NewPathStrKey(string(k.S))})
			case tref.BYTE, tref.I16, tref.I32, tref.I64:
				inside("Node.GetByInt", n.GetByInt(int(k.I)))
				keys = append(keys, generic.PathNode{Path: generic.NewPathIntKey(int(k.I))})
			}
		}
		inside("Node.GetByStr", n.GetByStr("no-such-key"))
		inside("Node.GetByInt", n.GetByInt(123456))
		if len(keys) > 0 && n.Gets(keys, gopts) == nil {
			for _, e := range keys {
				inside("Node.Gets", e.Node)
			}
		}
		n.StrMap(gopts)
		n.IntMap(gopts)
		n.InterfaceMap(gopts)
	}
	n.Interface(gopts)
}

// ---- mutations ----------------------------------------------------------------------------------------

type c06Mut struct {
	class string
	b     []byte
}

func put32(b []byte, off int, v uint32) []byte {
	o := append([]byte{}, b...)
	if off+4 <= len(o) {
		binary.BigEndian.PutUint32(o[off:], v)
	}
	return o
}

var c06Counts = []uint32{0x7fffffff, 0xffffffff, 0x80000000, 0x00ffffff, 0x10000000, 0x7ffffff0, 1 << 20, 65536}

// thriftMuts derives mutants at the structurally interesting offsets of a well-formed message.
func thriftMuts(r *h.Rand, b []byte, v *tref.Val, n int) []c06Mut {
	type pos struct {
		off  int
		kind string
	}
	var ps []pos
	tref.Walk(v, func(x *tref.Val, d int) {
		switch x.T {
		case tref.STRUCT:
			for _, f := range x.Fs {
				ps = append(ps, pos{f.HdrStart, "type"}, pos{f.HdrStart + 1, "id"})
			}
			ps = append(ps, pos{x.End - 1, "stop"})
		case tref.LIST, tref.SET:
			ps = append(ps, pos{x.Start, "etype"}, pos{x.Start + 1, "count"})
		case tref.MAP:
			ps = append(ps, pos{x.Start, "etype"}, pos{x.Start + 1, "etype"}, pos{x.Start + 2, "count"})
		case tref.STRING:
			ps = append(ps, pos{x.Start, "len"})
		}
	})
	var out []c06Mut
	for k := 0; k < n && len(ps) > 0; k++ {
		p := ps[r.Intn(len(ps))]
		if p.off < 0 || p.off >= len(b) {
			continue
		}
		switch p.kind {
		case "type", "etype", "stop":
			o := append([]byte{}, b...)
			o[p.off] = []byte{0, 1, 2, 3, 4, 6, 8, 10, 11, 12, 13, 14, 15, 16, 0x7f, 0x80, 0xff, b[p.off] + 1}[r.Intn(18)]
			out = append(out, c06Mut{"thrift-" + p.kind, o})
		case "id":
			o := append([]byte{}, b...)
			o[p.off] = []byte{0, 0x7f, 0x80, 0xff}[r.Intn(4)]
			out = append(out, c06Mut{"thrift-id", o})
		case "count", "len":
			c := c06Counts[r.Intn(len(c06Counts))]
			if r.Chance(25) && p.off+4 <= len(b) {
				c = binary.BigEndian.Uint32(b[p.off:]) + uint32(1+r.Intn(3))
			}
			out = append(out, c06Mut{"thrift-" + p.kind, put32(b, p.off, c)})
		}
	}
	return out
}

// protoMuts mutates tags and length prefixes found by walking the wire format.
func protoMuts(r *h.Rand, b []byte, n int) []c06Mut {
	type pos struct {
		off, n int
		kind   string
	}
	var ps []pos
	var walk func(base int, x []byte, depth int)
	walk = func(base int, x []byte, depth int) {
		off := 0
		for off < len(x) && len(ps) < 400 {
			num, typ, tn := rwire.ConsumeTag(x[off:])
			if tn < 0 {
				return
			}
			ps = append(ps, pos{base + off, tn, "tag"})
			off += tn
			if typ == rwire.BytesType {
				l, ln := rwire.ConsumeVarint(x[off:])
				if ln < 0 || l > uint64(len(x)) || off+ln+int(l) > len(x) {
					return
				}
				ps = append(ps, pos{base + off, ln, "len"})
				if depth < 4 {
					walk(base+off+ln, x[off+ln:off+ln+int(l)], depth+1) // may or may not be a message: positions are only hints
				}
				off += ln + int(l)
			} else {
				vn := rwire.ConsumeFieldValue(num, typ, x[off:])
				if vn < 0 {
					return
				}
				if typ == rwire.VarintType {
					ps = append(ps, pos{base + off, vn, "varint"})
				}
				off += vn
			}
		}
	}
	walk(0, b, 0)
	var out []c06Mut
	for k := 0; k < n && len(ps) > 0; k++ {
		p := ps[r.Intn(len(ps))]
		head, tail := b[:p.off], b[p.off+p.n:]
		var mid []byte
		switch p.kind {
		case "tag":
			o := append([]byte{}, b[p.off:p.off+p.n]...)
			o[0] = (o[0] &^ 7) | byte(r.Intn(8)) // other wire type (incl. groups 3/4 and invalid 6/7)
			if r.Chance(30) {
				o = rwire.AppendVarint(nil, uint64(r.U64())) // arbitrary tag
			}
			mid = o
		case "len":
			mid = [][]byte{
				rwire.AppendVarint(nil, 0x7fffffff), rwire.AppendVarint(nil, 0xffffffff), rwire.AppendVarint(nil, 1<<63), rwire.AppendVarint(nil, ^uint64(0)),
				{0x80, 0x80, 0x80, 0x80, 0x80, 0x80, 0x80, 0x80, 0x80, 0x80, 0x01}, {0xff}, {0x80}, rwire.AppendVarint(nil, uint64(len(tail)+1)), rwire.AppendVarint(nil, uint64(len(tail))), {0},
			}[r.Intn(10)]
		default:
			mid = [][]byte{{0xff, 0xff, 0xff, 0xff, 0xff, 0xff, 0xff, 0xff, 0xff, 0x7f}, {0x80}, {0xff, 0xff, 0xff, 0xff, 0xff, 0xff, 0xff, 0xff, 0xff, 0xff, 0xff, 0x01}}[r.Intn(3)]
		}
		o := append(append(append([]byte{}, head...), mid...), tail...)
		out = append(out, c06Mut{"proto-" + p.kind, o})
	}
	return out
}

func genericMuts(r *h.Rand, b []byte, n int, tag string) []c06Mut {
	var out []c06Mut
	for k := 0; k < n; k++ {
		if len(b) == 0 {
			break
		}
		switch r.Intn(5) {
		case 0: // truncation
			out = append(out, c06Mut{tag + "-truncate", append([]byte{}, b[:r.Intn(len(b))]...)})
		case 1: // byte substitution
			o := append([]byte{}, b...)
			o[r.Intn(len(o))] = byte(r.Intn(256))
			out = append(out, c06Mut{tag + "-substitute", o})
		case 2: // deletion of a run
			i := r.Intn(len(b))
			j := i + 1 + r.Intn(4)
			if j > len(b) {
				j = len(b)
			}
			out = append(out, c06Mut{tag + "-delete", append(append([]byte{}, b[:i]...), b[j:]...)})
		case 3: // insertion
			i := r.Intn(len(b) + 1)
			ins := r.Bytes(1 + r.Intn(4))
			out = append(out, c06Mut{tag + "-insert", append(append(append([]byte{}, b[:i]...), ins...), b[i:]...)})
		default: // splice of two parts of the message
			i, j := r.Intn(len(b)), r.Intn(len(b))
			out = append(out, c06Mut{tag + "-splice", append(append([]byte{}, b[:i]...), b[j:]...)})
		}
	}
	return out
}

func jsonMuts(r *h.Rand, doc string, n int) []c06Mut {
	b := []byte(doc)
	var out []c06Mut
	for k := 0; k < n && len(b) > 0; k++ {
		switch r.Intn(7) {
		case 0:
			out = append(out, c06Mut{"json-truncate", append([]byte{}, b[:r.Intn(len(b))]...)})
		case 1:
			o := append([]byte{}, b...)
			o[r.Intn(len(o))] = []byte(`{}[]":,\ -+.eEtfn0189` + "\x00\x1f\x7f\x80\xff")[r.Intn(26)]
			out = append(out, c06Mut{"json-substitute", o})
		case 2:
			i := r.Intn(len(b) + 1)
			ins := []string{`\`, `\u`, `\ud800`, `\uDC00x`, `"`, `1e999999`, `-`, `0x10`, `99999999999999999999999999`, `{`, `[`, "\xff\xfe", `\u00`, `nul`, `tru`, `1.`, `.5`, `1e`, `--1`, `0123`}[r.Intn(20)]
			out = append(out, c06Mut{"json-insert", append(append(append([]byte{}, b[:i]...), ins...), b[i:]...)})
		case 3:
			i := r.Intn(len(b))
			j := i + 1 + r.Intn(3)
			if j > len(b) {
				j = len(b)
			}
			out = append(out, c06Mut{"json-delete", append(append([]byte{}, b[:i]...), b[j:]...)})
		case 4:
			out = append(out, c06Mut{"json-append", append(append([]byte{}, b...), []string{"}", "]", ",", " x", "{}", "\x00", `"`}[r.Intn(7)]...)})
		case 5:
			o := append([]byte{}, b...)
			i := r.Intn(len(o))
			o[i] ^= byte(1 << uint(r.Intn(8)))
			out = append(out, c06Mut{"json-bitflip", o})
		default:
			i, j := r.Intn(len(b)), r.Intn(len(b))
			out = append(out, c06Mut{"json-splice", append(append([]byte{}, b[:i]...), b[j:]...)})
		}
	}
	return out
}

// ---- entry points ---------------------------------------------------------------------------------------

func thriftTargets(r *h.Rand, desc *thrift.TypeDescriptor, v *tref.Val, root *gen.Type) []c06Target {
	gopts := &generic.Options{UseNativeSkip: r.Bool(), MapStructById: r.Bool(), StoreChildrenById: r.Bool(), StoreChildrenByHash: r.Bool(), NotScanParentNode: r.Bool(), DisallowUnknow: r.Bool()}
	copts := conv.Options{UseNativeSkip: r.Bool(), DisallowUnknownField: r.Bool(), WriteDefaultField: r.Bool(), Int642String: r.Bool()}
	paths := allPaths(v, 6)
	ts := []c06Target{
		{"thrift.generic.Value.Interface", func(in []byte) { generic.NewValue(desc, in).Interface(gopts) }},
		{"thrift.generic.Node.Interface", func(in []byte) { generic.NewNode(thrift.STRUCT, in).Interface(gopts) }},
		{"thrift.generic.Node.Children", func(in []byte) {
			var out []generic.PathNode
			generic.NewNode(thrift.STRUCT, in).Children(&out, true, gopts)
		}},
		{"thrift.generic.PathNode.Load-recursive", func(in []byte) {
			t := generic.PathNode{Node: generic.NewNode(thrift.STRUCT, in)}
			t.Load(true, gopts)
		}},
		{"thrift.generic.PathNode.Load-lazy", func(in []byte) {
			t := generic.PathNode{Node: generic.NewNode(thrift.STRUCT, in)}
			if t.Load(false, gopts) == nil {
				for i := range t.Next {
					t.Next[i].Load(false, gopts)
				}
			}
		}},
		{"thrift.generic.Value.GetByPath", func(in []byte) {
			val := generic.NewValue(desc, in)
			for _, p := range paths {
				gp := toGenericPath(p, root, false)
				x := val.GetByPath(gp...)
				if !x.IsError() {
					x.Interface(gopts)
				}
				generic.NewNode(thrift.STRUCT, in).GetByPath(gp...)
			}
		}},
		{"thrift.generic.Value.GetByPath(name)", func(in []byte) {
			val := generic.NewValue(desc, in)
			for _, p := range paths {
				x := val.GetByPath(toGenericPath(p, root, true)...)
				if !x.IsError() {
					x.Interface(gopts)
				}
			}
		}},
		{"thrift.generic.Value.Field+descend", func(in []byte) {
			// single typed steps, then every descriptor-driven reader on what they hand back (two levels)
			var walk func(x generic.Value, depth int)
			walk = func(x generic.Value, depth int) {
				if x.IsError() {
					return
				}
				// whatever an accessor hands back without an error is a piece of the input
				if raw := x.Raw(); len(raw) > len(in) {
					panic(fmt.Sprintf("accessor returned a node of %d bytes from an input of %d", len(raw), len(in)))
				}
				x.Fork()
				x.Len()
				x.Foreach(func(p generic.Path, v generic.Value) bool { return true }, gopts)
				x.ForeachKV(func(k, v generic.Value) bool { return true }, gopts)
				if depth > 0 {
					x.Interface(gopts) // (the root's Interface is a target of its own; one call's budget is not shared by several full passes)
				}
				if depth >= 2 {
					return
				}
				walk(x.Index(0), depth+1)
				walk(x.GetByStr("k"), depth+1)
				walk(x.GetByInt(1), depth+1)
				if x.Desc != nil && x.Desc.Type() == thrift.STRUCT && x.Desc.Struct() != nil {
					for i, f := range x.Desc.Struct().Fields() {
						if i >= 6 {
							break
						}
						walk(x.Field(f.ID()), depth+1)
						walk(x.FieldByName(f.Name()), depth+1)
					}
				}
			}
			walk(generic.NewValue(desc, in), 0)
		}},
		{"thrift.generic.Value.MarshalTo", func(in []byte) { generic.NewValue(desc, in).MarshalTo(desc, gopts) }},
		{"thrift.generic.Node.Fields-Foreach", func(in []byte) {
			n := generic.NewNode(thrift.STRUCT, in)
			n.Foreach(func(path generic.Path, node generic.Node) bool { return true }, gopts)
		}},
		{"t2j.Do", func(in []byte) { cv := t2j.NewBinaryConv(copts); cv.Do(context.Background(), desc, in) }},
		{"thrift.BinaryProtocol.Skip-go", func(in []byte) { p := &thrift.BinaryProtocol{Buf: in}; p.Skip(thrift.STRUCT, false) }},
		{"thrift.BinaryProtocol.Skip-native", func(in []byte) { p := &thrift.BinaryProtocol{Buf: in}; p.Skip(thrift.STRUCT, true) }},
		{"thrift.BinaryProtocol.ReadAnyWithDesc", func(in []byte) {
			p := &thrift.BinaryProtocol{Buf: in}
			p.ReadAnyWithDesc(desc, false, true, false, true)
		}},
		{"thrift.BinaryProtocol.ReadStringWithDesc", func(in []byte) {
			p := &thrift.BinaryProtocol{Buf: in}
			var out []byte
			p.ReadStringWithDesc(desc, &out, false, false, true)
		}},
		{"thrift.UnwrapBinaryMessage", func(in []byte) {
			if _, _, _, _, body, err := thrift.UnwrapBinaryMessage(in); err == nil {
				p := &thrift.BinaryProtocol{Buf: body}
				p.Skip(thrift.STRUCT, false)
			}
		}},
	}
	return ts
}

func protoTargets(r *h.Rand, desc *dproto.TypeDescriptor, nums ...int32) []c06Target {
	if len(nums) == 0 {
		nums = []int32{1, 2, 3, 4}
	}
	opts := &pg.Options{MapStructById: r.Bool(), UseNativeSkip: r.Bool()}
	copts := conv.Options{DisallowUnknownField: r.Bool(), Int642String: r.Bool()}
	return []c06Target{
		{"proto.generic.Value.Interface", func(in []byte) { pg.NewRootValue(desc, in).Interface(opts) }},
		{"proto.generic.PathNode.Load-recursive", func(in []byte) {
			root := pg.NewRootValue(desc, in)
			t := pg.PathNode{Node: root.Node}
			t.Load(true, opts, desc)
		}},
		{"proto.generic.PathNode.Load-lazy", func(in []byte) {
			root := pg.NewRootValue(desc, in)
			t := pg.PathNode{Node: root.Node}
			t.Load(false, opts, desc)
		}},
		{"proto.generic.Value.GetByPath", func(in []byte) {
			root := pg.NewRootValue(desc, in)
			for n := int32(1); n <= 20; n++ {
				x := root.GetByPath(pg.NewPathFieldId(dproto.FieldNumber(n)))
				if !x.IsError() {
					x.Interface(opts)
					x.GetByPath(pg.NewPathIndex(0))
					x.GetByPath(pg.NewPathIndex(1)).Interface(opts)
					x.GetByPath(pg.NewPathStrKey("k"))
					x.GetByPath(pg.NewPathIntKey(1))
					x.GetByPath(pg.NewPathFieldId(1)).Interface(opts)
				}
			}
		}},
		{"proto.generic.Value.step-accessors", func(in []byte) {
			root := pg.NewRootValue(desc, in)
			inside := func(x pg.Value) bool {
				if x.IsError() {
					return false
				}
				raw := x.Raw()
				if len(raw) > 0 {
					p := uintptr(unsafe.Pointer(&raw[0]))
					var base uintptr
					if len(in) > 0 {
						base = uintptr(unsafe.Pointer(&in[0]))
					}
					if len(in) == 0 || p < base || p+uintptr(len(raw)) > base+uintptr(len(in)) {
						panic(fmt.Sprintf("proto node outside the input: off=%d len=%d input=%d", int64(p)-int64(base), len(raw), len(in)))
					}
				}
				x.Interface(opts)
				return true
			}
			var many []pg.PathNode
			for _, n := range nums {
				many = append(many, pg.PathNode{Path: pg.NewPathFieldId(dproto.FieldNumber(n))})
				x := root.Field(dproto.FieldNumber(n))
				if !inside(x) {
					continue
				}
				for i := 0; i < 3; i++ {
					inside(x.Index(i))
				}
				inside(x.GetByStr("k"))
				inside(x.GetByInt(1))
				inside(x.Field(1))
				ins := []pg.PathNode{{Path: pg.NewPathIndex(0)}, {Path: pg.NewPathIndex(2)}}
				x.Indexes(ins, opts)
				ks := []pg.PathNode{{Path: pg.NewPathIntKey(1)}, {Path: pg.NewPathStrKey("k")}}
				x.Gets(ks[:1], opts)
				x.Gets(ks[1:], opts)
			}
			root.GetMany(many, opts)
		}},
		{"proto.generic.Value.Children", func(in []byte) {
			root := pg.NewRootValue(desc, in)
			var out []pg.PathNode
			root.Children(&out, true, opts, desc)
		}},
		{"proto.generic.Value.MarshalTo", func(in []byte) { pg.NewRootValue(desc, in).MarshalTo(desc, opts) }},
		{"p2j.Do", func(in []byte) { cv := p2j.NewBinaryConv(copts); cv.Do(context.Background(), desc, in) }},
		{"proto.BinaryProtocol.ReadAnyWithDesc", func(in []byte) {
			p := dbin.NewBinaryProtol(in)
			p.ReadAnyWithDesc(desc, false, true, false, true)
		}},
		{"proto.BinaryProtocol.Skip", func(in []byte) {
			p := dbin.NewBinaryProtol(in)
			for p.Read < len(p.Buf) {
				_, wt, _, err := p.ConsumeTag()
				if err != nil {
					break
				}
				if p.Skip(wt, false) != nil {
					break
				}
			}
		}},
	}
}

func runC06(c *h.Ctx) {
	// ---- Thrift messages
	c.Run("thrift", c.N(5000, 250000), func(cs *h.Case) {
		sc := gen.GenSchema(cs.R, gen.Cfg{MaxDepth: 3, MaxFields: 5, BigIDs: true, Recursive: true, StructKeys: cs.R.Chance(30)})
		root := structType(sc.Root)
		desc, svc, err := ParseRoot(sc, thrift.NewDefaultOptions())
		if err != nil {
			cs.Viol("robust:parse-idl", "err", err)
			return
		}
		cs.Info("idl", sc.IDL())
		v := gen.GenVal(cs.R, root, gen.ValCfg{MaxElems: 4, MaxStr: 40, NonFinite: true, InvalidUTF8: true}, 0)
		b := tref.Encode(v)
		// the HTTP response converter on top of the envelope parser: every message type (CALL, REPLY, EXCEPTION,
		// ONEWAY, undefined ones) with every kind of result-field id (0, a small one, undeclared, negative)
		var httpT c06Target
		if fn, _ := svc.LookupFunctionByMethod("M"); fn != nil {
			hc := t2j.NewHTTPConv(meta.EncodingThriftBinary, fn)
			into := cs.R.Bool()
			hopts := conv.Options{WriteDefaultField: cs.R.Bool(), DisallowUnknownField: cs.R.Bool()}
			httpT = c06Target{"t2j.HTTPConv.Do+envelope", func(in []byte) {
				resp := dhttp.NewHTTPResponse()
				if into {
					var buf []byte
					hc.DoInto(context.Background(), resp, in, &buf, hopts)
				} else {
					hc.Do(context.Background(), resp, in, hopts)
				}
			}}
		}
		var muts []c06Mut
		muts = append(muts, thriftMuts(cs.R, b, v, 4)...)
		muts = append(muts, genericMuts(cs.R, b, 3, "thrift")...)
		if cs.R.Chance(10) {
			muts = append(muts, c06Mut{"thrift-random", cs.R.Bytes(1 + cs.R.Intn(64))})
		}
		if cs.I%50 == 0 {
			// every truncation point of this message
			for i := 0; i < len(b) && i < 300; i++ {
				muts = append(muts, c06Mut{"thrift-truncate-all", append([]byte{}, b[:i]...)})
			}
		}
		ts := thriftTargets(cs.R, desc, v, root)
		wrap := cs.R.Chance(15)
		for _, m := range muts {
			cs.Info("mutation", m.class)
			in := m.b
			t := ts[cs.R.Intn(len(ts)-1)]
			if wrap && httpT.run != nil && cs.R.Bool() {
				mt := []byte{0, 1, 2, 2, 3, 4, 5, 255}[cs.R.Intn(8)]
				id := []int16{0, 0, 1, 2, 255, 32767, -1}[cs.R.Intn(7)]
				in = tref.WrapMessage("M", mt, 7, id, m.b)
				if cs.R.Chance(30) {
					in = genericMuts(cs.R, in, 1, "envelope")[0].b
				}
				t = httpT
				cs.Cover(fmt.Sprintf("http_envelope_type_%d", mt))
			} else if wrap {
				in = tref.WrapMessage("Method", 1, 7, 0, m.b)
				in = genericMuts(cs.R, in, 1, "envelope")[0].b
				t = ts[len(ts)-1]
			}
			c06Call(cs, t, in)
			cs.Cover("mut_" + m.class)
		}
		cs.Distinct(fmt.Sprintf("th-%d-%s", len(b)/8, shapeKey(v)[:min(len(shapeKey(v)), 12)]))
	})

	// ---- element types narrower than declared: the header of a list<double> / map<_,i64> ... says BYTE, I16, I32 or
	// BOOL with the count unchanged; every descriptor-driven reader must notice instead of reading 8 bytes of a 1-byte element
	c.Run("thrift-elem-narrow", c.N(120, 2400), func(cs *h.Case) {
		wide := []*gen.Type{{T: tref.DOUBLE}, {T: tref.I64}, {T: tref.I32}, {T: tref.I16}}[cs.R.Intn(4)]
		st := &gen.StructT{Name: "EN", Fields: []*gen.FieldT{
			{ID: 1, Name: "l", T: &gen.Type{T: tref.LIST, Elem: wide}}, {ID: 2, Name: "m", T: &gen.Type{T: tref.MAP, Key: &gen.Type{T: tref.STRING}, Elem: wide}},
			{ID: 3, Name: "s", T: &gen.Type{T: tref.SET, Elem: wide}}, {ID: 4, Name: "im", T: &gen.Type{T: tref.MAP, Key: &gen.Type{T: tref.I32}, Elem: wide}},
			{ID: 5, Name: "tail", T: &gen.Type{T: tref.STRING}}}}
		sc := &gen.Schema{Structs: []*gen.StructT{st}, Root: st}
		root := structType(st)
		desc, _, err := ParseRoot(sc, thrift.NewDefaultOptions())
		if err != nil {
			cs.Viol("robust:parse-idl", "err", err)
			return
		}
		v := gen.GenVal(cs.R, root, gen.ValCfg{MaxElems: 4, MaxStr: 8, AllFields: true}, 0)
		b := tref.Encode(v)
		var offs []int
		tref.Walk(v, func(x *tref.Val, d int) {
			switch x.T {
			case tref.LIST, tref.SET:
				offs = append(offs, x.Start)
			case tref.MAP:
				offs = append(offs, x.Start+1)
			}
		})
		if len(offs) == 0 {
			return
		}
		ts := thriftTargets(cs.R, desc, v, root)
		for _, off := range offs {
			for _, nt := range []byte{tref.BOOL, tref.BYTE, tref.I16, tref.I32, tref.STRUCT} {
				if off >= len(b) || nt == b[off] {
					continue
				}
				o := append([]byte{}, b...)
				o[off] = nt
				cs.Info("mutation", fmt.Sprintf("elem type %d at %d", nt, off))
				for _, t := range ts {
					switch t.name {
					case "thrift.generic.Value.Interface", "thrift.generic.Value.Field+descend", "thrift.generic.Value.GetByPath", "thrift.generic.Value.GetByPath(name)", "t2j.Do", "thrift.generic.Value.MarshalTo", "thrift.BinaryProtocol.ReadAnyWithDesc":
						c06Call(cs, t, o)
					}
				}
				cs.Cover("elem_narrow_mutations")
			}
		}
	})

	// ---- Thrift containers as root nodes: single-step accessors (Index / GetByStr / GetByInt / bulk) on
	// truncated and count-substituted lists, sets and maps; every node handed back must lie inside the input
	c.Run("thrift-containers", c.N(1500, 60000), func(cs *h.Case) {
		sc := gen.GenSchema(cs.R, gen.Cfg{MaxDepth: 2, MaxFields: 6, StructKeys: cs.R.Chance(20)})
		root := structType(sc.Root)
		v := gen.GenVal(cs.R, root, gen.ValCfg{MaxElems: 5, MaxStr: 12, NonFinite: true}, 0)
		var conts []*tref.Val
		tref.Walk(v, func(x *tref.Val, d int) {
			if x.T == tref.LIST || x.T == tref.SET || x.T == tref.MAP {
				conts = append(conts, x)
			}
		})
		if len(conts) == 0 {
			return
		}
		gopts := &generic.Options{UseNativeSkip: cs.R.Bool(), MapStructById: cs.R.Bool()}
		for k := 0; k < 2; k++ {
			x := conts[cs.R.Intn(len(conts))].Clone()
			b := tref.Encode(x)
			cs.Info("container", x.String())
			cntOff := 1
			if x.T == tref.MAP {
				cntOff = 2
			}
			var muts []c06Mut
			for i := 0; i <= len(b) && i < 120; i++ {
				muts = append(muts, c06Mut{"cont-truncate-all", append([]byte{}, b[:i]...)})
			}
			n := len(x.L)
			for _, c := range []int{n + 1, n + 2, 2*n + 1, len(b) - cntOff - 4, len(b), 1 << 20, -1} {
				if c != n {
					muts = append(muts, c06Mut{"cont-count", put32(b, cntOff, uint32(c))})
				}
			}
			for _, et := range []byte{2, 3, 4, 6, 8, 10, 11, 12, 13, 15} {
				o := append([]byte{}, b...)
				o[cs.R.Intn(cntOff)] = et
				muts = append(muts, c06Mut{"cont-etype", o})
			}
			t := c06Target{"thrift.generic.Node.step-accessors", func(in []byte) { c06Steps(cs, thrift.Type(x.T), x, in, gopts) }}
			for _, m := range muts {
				cs.Info("mutation", m.class)
				c06Call(cs, t, m.b)
				cs.Cover("mut_" + m.class)
			}
			cs.Distinct(fmt.Sprintf("cont-%s-%s-%s", tref.TypeName(x.T), tref.TypeName(x.KT), tref.TypeName(x.ET)))
		}
	})

	// ---- long containers: well-formed lists and maps of many small elements through every read-side entry point;
	// the allocation meter catches per-element costs that grow with the element count (quadratic totals)
	c.Run("long-containers", c.N(12, 48), func(cs *h.Case) {
		n := []int{20000, 50000, 30000}[cs.I%3]
		kind := (cs.I / 3) % 4
		cs.Info("elements", n)
		const idl = "namespace go verif\nstruct E { 1: optional i32 v }\nstruct R { 1: optional list<byte> l, 2: optional map<i32,byte> m, 3: optional list<E> e, 4: optional list<string> s }\nservice Svc { R M(1: R req) }\n"
		const ptext = "syntax = \"proto3\";\noption go_package = \"verif/pb\";\nmessage M { repeated int32 l = 1; repeated string s = 2; map<int32, int32> m = 3; repeated M e = 4; }\nservice Svc { rpc M(M) returns (M); }\n"
		be32 := func(b []byte, v int) []byte { return append(b, byte(v>>24), byte(v>>16), byte(v>>8), byte(v)) }
		// thrift
		{
			svc, err := thrift.NewDescritorFromContent(context.Background(), "verif.thrift", idl, nil, false)
			if err != nil {
				cs.Viol("robust:parse-idl", "err", err)
				return
			}
			desc, _ := RootOf(svc, "M")
			var b []byte
			switch kind {
			case 0:
				b = be32([]byte{15, 0, 1, 3}, n)
				b = append(b, make([]byte, n)...)
			case 1:
				b = be32([]byte{13, 0, 2, 8, 3}, n)
				for i := 0; i < n; i++ {
					b = append(be32(b, i), 1)
				}
			case 2:
				b = be32([]byte{15, 0, 3, 12}, n)
				b = append(b, make([]byte, n)...) // n empty structs (STOP)
			default:
				b = be32([]byte{15, 0, 4, 11}, n)
				for i := 0; i < n; i++ {
					b = append(b, 0, 0, 0, 1, 'a')
				}
			}
			b = append(b, 0)
			ts := thriftTargets(cs.R, desc, tref.Struct(), &gen.Type{T: tref.STRUCT, S: &gen.StructT{Name: "R"}})
			for _, t := range ts[:len(ts)-1] {
				c06Call(cs, t, b)
			}
			cs.Cover("long_thrift")
		}
		// protobuf
		{
			svc, err := dproto.NewDescritorFromContent(context.Background(), "verif.proto", ptext, nil)
			if err != nil {
				cs.Viol("robust:parse-proto", "err", err)
				return
			}
			desc := svc.LookupMethodByName("M").Input()
			var b []byte
			switch kind {
			case 0:
				b = rwire.AppendTag(nil, 1, rwire.BytesType)
				b = rwire.AppendVarint(b, uint64(n))
				b = append(b, make([]byte, n)...)
			case 1:
				for i := 0; i < n; i++ {
					b = append(b, 0x12, 1, 'a')
				}
			case 2:
				for i := 0; i < n; i++ {
					e := rwire.AppendVarint([]byte{0x08}, uint64(i))
					e = append(e, 0x10, 1)
					b = rwire.AppendTag(b, 3, rwire.BytesType)
					b = rwire.AppendBytes(b, e)
				}
			default:
				for i := 0; i < n; i++ {
					b = append(b, 0x22, 0)
				}
			}
			for _, t := range protoTargets(cs.R, desc) {
				c06Call(cs, t, b)
			}
			cs.Cover("long_proto")
		}
	})

	// ---- responses carrying a thrift base: with EnableThriftBase the BaseResp struct is decoded into the object the
	// caller put into the context (generated FastRead code); hostile lengths and counts inside it
	var baseFn *thrift.FunctionDescriptor
	c.Run("thrift-base", c.N(1200, 40000), func(cs *h.Case) {
		if baseFn == nil {
			o := thrift.Options{EnableThriftBase: true}
			svc, err := o.NewDescritorFromContent(context.Background(), "main.thrift", c03BaseIDL, map[string]string{"main.thrift": c03BaseIDL, "base.thrift": gen.TBaseIDL}, false)
			if err != nil {
				cs.Viol("robust:parse-idl", "err", err)
				return
			}
			baseFn, _ = svc.LookupFunctionByMethod("M")
		}
		respDesc := baseFn.Response().Struct().FieldById(0).Type()
		extra := &tref.Val{T: tref.MAP, KT: tref.STRING, ET: tref.STRING}
		for k := cs.R.Intn(4); k > 0; k-- {
			extra.K = append(extra.K, tref.Str(fmt.Sprintf("k%d", k)))
			extra.L = append(extra.L, tref.Str(string(gen.GenStr(cs.R, gen.ValCfg{PlainStr: true}))))
		}
		br := tref.Struct(tref.Field{ID: 1, V: tref.Str(string(gen.GenStr(cs.R, gen.ValCfg{PlainStr: true})))}, tref.Field{ID: 2, V: tref.Int32(int32(cs.R.Intn(1000)))}, tref.Field{ID: 3, V: extra})
		v := tref.Struct(tref.Field{ID: 1, V: tref.Str("msg")}, tref.Field{ID: 255, V: br}, tref.Field{ID: 2, V: tref.Int32(7)})
		b := tref.Encode(v)
		var muts []c06Mut
		muts = append(muts, thriftMuts(cs.R, b, v, 6)...)
		muts = append(muts, genericMuts(cs.R, b, 2, "thrift")...)
		if cs.I%20 == 0 {
			for i := 0; i < len(b); i++ {
				muts = append(muts, c06Mut{"thrift-truncate-all", append([]byte{}, b[:i]...)})
			}
		}
		t := c06Target{"t2j.Do+thrift-base", func(in []byte) {
			ctx := context.WithValue(context.Background(), conv.CtxKeyThriftRespBase, base.NewBaseResp())
			cv := t2j.NewBinaryConv(conv.Options{EnableThriftBase: true})
			cv.Do(ctx, respDesc, in)
		}}
		for _, m := range muts {
			cs.Info("mutation", m.class)
			c06Call(cs, t, m.b)
			cs.Cover("mut_base_" + m.class)
		}
		cs.Distinct(fmt.Sprintf("tb-%d-%d", len(b)/8, len(extra.K)))
	})

	// ---- Protobuf messages
	c.Run("proto", c.N(4000, 200000), func(cs *h.Case) {
		sc := gen.GenPSchema(cs.R, gen.PCfg{MaxDepth: 2, MaxFields: 6, Nested: cs.R.Bool(), Enums: true, BigNums: cs.R.Chance(30)})
		pc, err := PCompile(sc)
		if err != nil {
			cs.Cover("oracle_schema_rejected")
			return
		}
		cs.Info("proto", pc.Text)
		svc, err := dproto.NewDescritorFromContent(context.Background(), "verif.proto", pc.Text, nil)
		if err != nil {
			cs.Viol("robust:parse-proto", "err", err)
			return
		}
		desc := svc.LookupMethodByName("M").Input()
		m := PGenMsg(cs.R, pc.Root, PValCfg{NonFinite: true, MaxElems: 4, MaxDepth: 3}, 0)
		b := PMarshal(m)
		var muts []c06Mut
		muts = append(muts, protoMuts(cs.R, b, 4)...)
		muts = append(muts, genericMuts(cs.R, b, 3, "proto")...)
		if cs.R.Chance(10) {
			muts = append(muts, c06Mut{"proto-random", cs.R.Bytes(1 + cs.R.Intn(64))})
		}
		if cs.I%50 == 0 {
			for i := 0; i < len(b) && i < 300; i++ {
				muts = append(muts, c06Mut{"proto-truncate-all", append([]byte{}, b[:i]...)})
			}
		}
		var nums []int32
		for i := 0; i < pc.Root.Fields().Len(); i++ {
			nums = append(nums, int32(pc.Root.Fields().Get(i).Number()))
		}
		ts := protoTargets(cs.R, desc, nums...)
		for _, mu := range muts {
			cs.Info("mutation", mu.class)
			c06Call(cs, ts[cs.R.Intn(len(ts))], mu.b)
			cs.Cover("mut_" + mu.class)
		}
		cs.Distinct(fmt.Sprintf("pb-%d-%s", len(b)/8, c20Shape(m)))
	})

	// ---- JSON documents for both JSON readers
	c.Run("json", c.N(4000, 200000), func(cs *h.Case) {
		var doc string
		var ts []c06Target
		if cs.R.Bool() {
			sc := gen.GenSchema(cs.R, gen.Cfg{MaxDepth: 3, MaxFields: 5, BigIDs: true, Recursive: true})
			root := structType(sc.Root)
			desc, _, err := ParseRoot(sc, thrift.NewDefaultOptions())
			if err != nil {
				cs.Viol("robust:parse-idl", "err", err)
				return
			}
			cs.Info("idl", sc.IDL())
			v := gen.GenVal(cs.R, root, gen.ValCfg{MaxElems: 4, MaxStr: 30}, 0)
			doc = RenderJSON(cs.R, v, root, JSpell{WS: cs.R.Intn(3), EscapeMix: cs.R.Bool(), NumExp: true}, JOpts{})
			o := conv.Options{DisallowUnknownField: cs.R.Bool(), String2Int64: cs.R.Bool(), WriteDefaultField: cs.R.Bool()}
			ts = []c06Target{{"j2t.Do", func(in []byte) { cv := j2t.NewBinaryConv(o); cv.Do(context.Background(), desc, in) }}}
		} else {
			sc := gen.GenPSchema(cs.R, gen.PCfg{MaxDepth: 2, MaxFields: 6, Enums: true})
			pc, err := PCompile(sc)
			if err != nil {
				cs.Cover("oracle_schema_rejected")
				return
			}
			cs.Info("proto", pc.Text)
			svc, err := dproto.NewDescritorFromContent(context.Background(), "verif.proto", pc.Text, nil)
			if err != nil {
				cs.Viol("robust:parse-proto", "err", err)
				return
			}
			desc := svc.LookupMethodByName("M").Input()
			m := PGenMsg(cs.R, pc.Root, PValCfg{MaxElems: 4, MaxDepth: 3}, 0)
			doc, _ = PRenderJSON(cs.R, m, PJSpell{WS: cs.R.Intn(3), Escape: cs.R.Bool(), Unknowns: cs.R.Bool(), Nulls: cs.R.Bool()})
			o := conv.Options{DisallowUnknownField: cs.R.Bool()}
			ts = []c06Target{{"j2p.Do", func(in []byte) { cv := j2p.NewBinaryConv(o); cv.Do(context.Background(), desc, in) }}}
		}
		muts := jsonMuts(cs.R, doc, 6)
		if cs.I%50 == 0 {
			for i := 0; i < len(doc) && i < 400; i++ {
				muts = append(muts, c06Mut{"json-truncate-all", []byte(doc[:i])})
			}
		}
		for _, mu := range muts {
			cs.Info("mutation", mu.class)
			c06Call(cs, ts[0], mu.b)
			cs.Cover("mut_" + mu.class)
		}
		cs.Distinct(fmt.Sprintf("js-%s-%d", ts[0].name, len(doc)/16))
	})

	// ---- JSON documents with very large keys and strings (escaped and plain), beyond every pooled cache
	c.Run("json-huge", c.N(16, 64), func(cs *h.Case) {
		const idl = "namespace go verif\nstruct R { 1: optional map<string,i32> m, 2: optional string s, 3: optional R r, 4: optional list<string> l }\nservice Svc { R M(1: R req) }\n"
		const ptext = "syntax = \"proto3\";\noption go_package = \"verif/pb\";\nmessage M { map<string, int32> m = 1; string s = 2; M r = 3; repeated string l = 4; }\nservice Svc { rpc M(M) returns (M); }\n"
		n := []int{70000, 100000, 200000, 66000}[cs.I%4]
		esc := (cs.I/4)%2 == 0
		unit := "abcdefgh"
		if esc {
			unit = `ab\ncd\"e` // 10 source bytes, 7 decoded
		}
		big := strings.Repeat(unit, n/len(unit)+1)
		var doc string
		switch (cs.I / 8) % 4 {
		case 0:
			doc = `{"m":{"` + big + `":1,"k":2}}`
		case 1:
			doc = `{"` + big + `":{"a":[1,2]},"s":"x"}` // an unknown member with a huge name
		case 2:
			doc = `{"s":"` + big + `","r":{"l":["` + big + `"]}}`
		default:
			doc = `{"r":{"r":{"m":{"` + big + `":7}}}}`
		}
		cs.Info("doc-len", len(doc))
		svc, err := thrift.NewDescritorFromContent(context.Background(), "verif.thrift", idl, nil, false)
		if err != nil {
			cs.Viol("robust:parse-idl", "err", err)
			return
		}
		desc, _ := RootOf(svc, "M")
		psvc, err := dproto.NewDescritorFromContent(context.Background(), "verif.proto", ptext, nil)
		if err != nil {
			cs.Viol("robust:parse-proto", "err", err)
			return
		}
		pdesc := psvc.LookupMethodByName("M").Input()
		o := conv.Options{DisallowUnknownField: cs.R.Bool()}
		ts := []c06Target{
			{"j2t.Do", func(in []byte) { cv := j2t.NewBinaryConv(o); cv.Do(context.Background(), desc, in) }},
			{"j2p.Do", func(in []byte) { cv := j2p.NewBinaryConv(o); cv.Do(context.Background(), pdesc, in) }},
		}
		for _, t := range ts {
			c06Call(cs, t, []byte(doc))
			// and cut inside the big token
			c06Call(cs, t, []byte(doc[:len(doc)/2]))
		}
		cs.Cover("json_huge_docs")
		cs.Distinct(fmt.Sprintf("jh-%d-%v-%d", n, esc, (cs.I/8)%4))
	})

	// ---- converters with http mapping / value mapping switched on (control returns to Go mid-struct)
	c.Run("http-paths", c.N(1500, 60000), func(cs *h.Case) {
		hs, err := thrift.NewDescritorFromContent(context.Background(), "h.thrift", c12HTTPIDL, nil, false)
		if err != nil {
			cs.Viol("robust:parse-idl", "err", err)
			return
		}
		hreq, _ := RootOf(hs, "M")
		fn, _ := hs.LookupFunctionByMethod("M")
		hresp := fn.Response().Struct().FieldById(0).Type()
		if cs.R.Bool() {
			doc := []string{`{"Plain":123456789012,"Dflt":"d","Q":"x","H":5,"C":"c","RQ":9}`, `{"Plain":1}`, `{}`, `{"Q":null,"H":{"a":[1,2]},"Plain":-1,"zz":[{}]}`}[cs.R.Intn(4)]
			o := conv.Options{EnableHttpMapping: true, ReadHttpValueFallback: cs.R.Bool(), TracebackRequredOrRootFields: cs.R.Bool(), WriteDefaultField: cs.R.Bool(), WriteRequireField: cs.R.Bool(), EnableValueMapping: cs.R.Bool(), DisallowUnknownField: cs.R.Bool()}
			withQuery := cs.R.Bool()
			for _, mu := range jsonMuts(cs.R, doc, 8) {
				cs.Info("mutation", mu.class)
				body := mu.b
				c06Call(cs, c06Target{"j2t.Do+http-mapping", func(in []byte) {
					ctx := context.WithValue(context.Background(), conv.CtxKeyHTTPRequest, c12HTTPReq(body, withQuery))
					cv := j2t.NewBinaryConv(o)
					cv.Do(ctx, hreq, in)
				}}, mu.b)
				cs.Cover("mut_" + mu.class)
			}
		} else {
			v := tref.Struct(tref.Field{ID: 1, V: tref.Str("message")}, tref.Field{ID: 2, V: tref.Int32(201)}, tref.Field{ID: 3, V: tref.Str("hdr")}, tref.Field{ID: 4, V: tref.Str("cookie")})
			b := tref.Encode(v)
			o := conv.Options{EnableHttpMapping: true, WriteHttpValueFallback: cs.R.Bool(), OmitHttpMappingErrors: cs.R.Bool(), WriteDefaultField: cs.R.Bool(), UseKitexHttpEncoding: cs.R.Bool()}
			muts := append(thriftMuts(cs.R, b, v, 5), genericMuts(cs.R, b, 4, "thrift")...)
			for _, mu := range muts {
				cs.Info("mutation", mu.class)
				c06Call(cs, c06Target{"t2j.Do+http-response", func(in []byte) {
					ctx := context.WithValue(context.Background(), conv.CtxKeyHTTPResponse, dhttp.NewHTTPResponse())
					cv := t2j.NewBinaryConv(o)
					cv.Do(ctx, hresp, in)
				}}, mu.b)
				cs.Cover("mut_" + mu.class)
			}
		}
		cs.Distinct(fmt.Sprintf("http-%d", cs.I%400))
	})

	// ---- nesting beyond the depth limits
	c.Run("depth", c.N(160, 1600), func(cs *h.Case) {
		depths := []int{10, 100, 1000, 4096, 10000, 65536, 100000, 300000}
		d := depths[cs.I%len(depths)]
		kind := (cs.I / len(depths)) % 10
		cs.Info("depth", d)
		const recIDL = "namespace go verif\nstruct R { 1: optional R r, 2: optional list<R> l, 3: optional map<string,R> m, 4: optional i32 v }\nservice Svc { R M(1: R req) }\n"
		const recProto = "syntax = \"proto3\";\noption go_package = \"verif/pb\";\nmessage R { R r = 1; repeated R l = 2; map<string, R> m = 3; int32 v = 4; }\nservice Svc { rpc M(R) returns (R); }\n"
		switch kind {
		case 0, 1, 2, 3:
			svc, err := thrift.NewDescritorFromContent(context.Background(), "verif.thrift", recIDL, nil, false)
			if err != nil {
				cs.Viol("robust:parse-idl", "err", err)
				return
			}
			desc, _ := RootOf(svc, "M")
			// struct nesting: field 1 (STRUCT) d times, then STOPs
			var b []byte
			switch kind {
			case 0, 1:
				for i := 0; i < d; i++ {
					b = append(b, 12, 0, 1)
				}
			case 2: // list<R> with one element, nested
				for i := 0; i < d; i++ {
					b = append(b, 15, 0, 2, 12, 0, 0, 0, 1)
				}
			default: // map<string,R>
				for i := 0; i < d; i++ {
					b = append(b, 13, 0, 3, 11, 12, 0, 0, 0, 1, 0, 0, 0, 1, 'k')
				}
			}
			if kind != 1 { // kind 1: unterminated
				for i := 0; i <= d; i++ {
					b = append(b, 0)
				}
			}
			ts := thriftTargets(cs.R, desc, tref.Struct(), &gen.Type{T: tref.STRUCT, S: &gen.StructT{Name: "R"}})
			c06Call(cs, ts[cs.R.Intn(len(ts)-1)], b)
			cs.Cover("depth_thrift")
		case 4, 5:
			svc, err := dproto.NewDescritorFromContent(context.Background(), "verif.proto", recProto, nil)
			if err != nil {
				cs.Viol("robust:parse-proto", "err", err)
				return
			}
			desc := svc.LookupMethodByName("M").Input()
			if d > 65536 {
				d = 65536 // quadratic size of nested length prefixes
			}
			b := []byte{0x20, 0x01}
			for i := 0; i < d; i++ {
				nb := rwire.AppendTag(nil, 1+rwire.Number(kind-4), rwire.BytesType)
				nb = rwire.AppendVarint(nb, uint64(len(b)))
				b = append(nb, b...)
				if len(b) > 8<<20 {
					break
				}
			}
			ts := protoTargets(cs.R, desc)
			c06Call(cs, ts[cs.R.Intn(len(ts))], b)
			cs.Cover("depth_proto")
		default:
			var doc string
			open := []string{`{"r":`, `{"l":[`, `{"m":{"k":`, `[`, `{"zz":`}[kind-5]
			closer := []string{`}`, `]}`, `}}`, `]`, `}`}[kind-5]
			doc = strings.Repeat(open, d) + `{"v":1}` + strings.Repeat(closer, d)
			if cs.R.Chance(30) {
				doc = strings.Repeat(open, d) // unterminated
			}
			if cs.R.Bool() {
				svc, err := thrift.NewDescritorFromContent(context.Background(), "verif.thrift", recIDL, nil, false)
				if err != nil {
					cs.Viol("robust:parse-idl", "err", err)
					return
				}
				desc, _ := RootOf(svc, "M")
				c06Call(cs, c06Target{"j2t.Do", func(in []byte) { cv := j2t.NewBinaryConv(conv.Options{}); cv.Do(context.Background(), desc, in) }}, []byte(doc))
			} else {
				svc, err := dproto.NewDescritorFromContent(context.Background(), "verif.proto", recProto, nil)
				if err != nil {
					cs.Viol("robust:parse-proto", "err", err)
					return
				}
				desc := svc.LookupMethodByName("M").Input()
				c06Call(cs, c06Target{"j2p.Do", func(in []byte) { cv := j2p.NewBinaryConv(conv.Options{}); cv.Do(context.Background(), desc, in) }}, []byte(doc))
			}
			cs.Cover("depth_json")
		}
		cs.Distinct(fmt.Sprintf("depth-%d-%d", kind, d))
	})
}
