package props

import (
	"bytes"
	"context"
	"fmt"
	rwire "google.golang.org/protobuf/encoding/protowire"

	dproto "github.com/cloudwego/dynamicgo/proto"
	pg "github.com/cloudwego/dynamicgo/proto/generic"
	"github.com/cloudwego/dynamicgo/thrift"
	"github.com/cloudwego/dynamicgo/thrift/generic"
	"google.golang.org/protobuf/proto"
	"google.golang.org/protobuf/reflect/protoreflect"
	"google.golang.org/protobuf/types/dynamicpb"

	"verifharness/gen"
	"verifharness/h"
	"verifharness/tref"
)

func init() { h.Register("C11", runC11) }

// pClearFields removes, at every nesting level, the fields named in skip.
func pClearFields(m protoreflect.Message, skip map[protoreflect.FullName]bool) {
	var clear []protoreflect.FieldDescriptor
	m.Range(func(fd protoreflect.FieldDescriptor, v protoreflect.Value) bool {
		if skip[fd.FullName()] {
			clear = append(clear, fd)
			return true
		}
		switch {
		case fd.IsMap():
			if fd.MapValue().Kind() == protoreflect.MessageKind {
				v.Map().Range(func(k protoreflect.MapKey, mv protoreflect.Value) bool {
					pClearFields(mv.Message(), skip)
					return true
				})
			}
		case fd.IsList():
			if fd.Kind() == protoreflect.MessageKind {
				for i := 0; i < v.List().Len(); i++ {
					pClearFields(v.List().Get(i).Message(), skip)
				}
			}
		case fd.Kind() == protoreflect.MessageKind:
			pClearFields(v.Message(), skip)
		}
		return true
	})
	for _, fd := range clear {
		m.Clear(fd)
	}
}

// deriveTarget copies the struct graph below src, deleting and adding fields at every level.
// With probability shareP a referenced struct is shared (same *StructT => same descriptor pointer).
type deriver struct {
	r      *h.Rand
	memo   map[*gen.StructT]*gen.StructT
	out    []*gen.StructT
	n      int
	shareP int
	reqP   int
}

func (d *deriver) typ(t *gen.Type, top bool) *gen.Type {
	switch t.T {
	case tref.STRUCT:
		return &gen.Type{T: tref.STRUCT, S: d.strct(t.S, top)}
	case tref.LIST, tref.SET:
		return &gen.Type{T: t.T, Elem: d.typ(t.Elem, false)}
	case tref.MAP:
		return &gen.Type{T: tref.MAP, Key: d.typ(t.Key, false), Elem: d.typ(t.Elem, false)}
	}
	return t
}

func (d *deriver) strct(s *gen.StructT, top bool) *gen.StructT {
	if n, ok := d.memo[s]; ok {
		return n
	}
	if !top && d.r.Chance(d.shareP) {
		d.memo[s] = s
		return s
	}
	d.n++
	n := &gen.StructT{Name: fmt.Sprintf("T%d_%s", d.n, s.Name)}
	d.memo[s] = n
	used := map[int16]bool{}
	for _, f := range s.Fields {
		used[f.ID] = true
	}
	for _, f := range s.Fields {
		if d.r.Chance(30) {
			continue // deleted in the target
		}
		nf := &gen.FieldT{ID: f.ID, Name: f.Name, Alias: f.Alias, Req: f.Req, T: d.typ(f.T, false)}
		if d.r.Chance(30) {
			nf.Req = d.r.Intn(3) // the target may ask for another requiredness than the source declares
		}
		n.Fields = append(n.Fields, nf)
	}
	// added fields
	for k := d.r.Intn(3); k > 0; k-- {
		id := int16(1 + d.r.Intn(300))
		if used[id] {
			continue
		}
		used[id] = true
		ts := []byte{tref.BOOL, tref.BYTE, tref.I16, tref.I32, tref.I64, tref.DOUBLE, tref.STRING, tref.LIST, tref.MAP, tref.STRUCT}
		var t *gen.Type
		switch tt := ts[d.r.Intn(len(ts))]; tt {
		case tref.LIST:
			t = &gen.Type{T: tref.LIST, Elem: &gen.Type{T: tref.I32}}
		case tref.MAP:
			t = &gen.Type{T: tref.MAP, Key: &gen.Type{T: tref.STRING}, Elem: &gen.Type{T: tref.I64}}
		case tref.STRUCT:
			t = &gen.Type{T: tref.STRUCT, S: n} // self reference: exercises "just write empty struct"
		default:
			t = &gen.Type{T: tt}
		}
		req := gen.ReqDefault
		switch x := d.r.Intn(100); {
		case x < d.reqP:
			req = gen.ReqRequired
		case x < 50:
			req = gen.ReqOptional
		}
		if t.T == tref.STRUCT && req == gen.ReqRequired {
			req = gen.ReqOptional
		}
		nf := &gen.FieldT{ID: id, Name: fmt.Sprintf("add%d_%d", d.n, id), T: t, Req: req}
		// a declared IDL default is not what cutting fills in: absent default-requiredness fields are ZERO-filled
		switch {
		case t.T == tref.I32 && d.r.Bool():
			nf.Default = tref.Int32(int32(7 + d.r.Intn(1000)))
		case t.T == tref.STRING && !t.Bin && d.r.Bool():
			nf.Default = tref.Str(fmt.Sprintf("dflt%d", d.r.Intn(100)))
		case t.T == tref.BOOL && d.r.Bool():
			nf.Default = tref.Bool(true)
		case t.T == tref.I64 && d.r.Bool():
			nf.Default = tref.Int64(int64(1 + d.r.Intn(100000)))
		}
		n.Fields = append(n.Fields, nf)
	}
	if len(n.Fields) == 0 {
		n.Fields = append(n.Fields, &gen.FieldT{ID: 299, Name: "only", T: &gen.Type{T: tref.I32}, Req: gen.ReqOptional})
	}
	d.out = append(d.out, n)
	return n
}

type c11opts struct {
	DisallowUnknow, NotCheckRequireNess, WriteDefault bool
}

func zeroOf(t *gen.Type) *tref.Val {
	switch t.T {
	case tref.BOOL:
		return tref.Bool(false)
	case tref.BYTE, tref.I16, tref.I32, tref.I64:
		return &tref.Val{T: t.T}
	case tref.DOUBLE:
		return tref.Double(0)
	case tref.STRING:
		return &tref.Val{T: tref.STRING, S: []byte{}}
	case tref.LIST, tref.SET:
		return &tref.Val{T: t.T, ET: t.Elem.T}
	case tref.MAP:
		return &tref.Val{T: tref.MAP, KT: t.Key.T, ET: t.Elem.T}
	}
	return &tref.Val{T: tref.STRUCT}
}

// projErr tells whether the projection of v (typed S) onto T must fail: 1 = missing required, 2 = unknown field.
func projErr(v *tref.Val, S, T *gen.Type, o c11opts) int {
	if S == T {
		return 0 // identical descriptor: copied as is
	}
	switch v.T {
	case tref.STRUCT:
		present := map[int16]bool{}
		for _, f := range v.Fs {
			sf := S.S.Field(f.ID)
			if sf == nil {
				if o.DisallowUnknow {
					return 2
				}
				continue
			}
			tf := T.S.Field(f.ID)
			if tf == nil {
				continue
			}
			present[f.ID] = true
			if e := projErr(f.V, sf.T, tf.T, o); e != 0 {
				return e
			}
		}
		if !o.NotCheckRequireNess {
			for _, tf := range T.S.Fields {
				if tf.Req == gen.ReqRequired && !present[tf.ID] {
					return 1
				}
			}
		}
	case tref.LIST, tref.SET:
		for _, e := range v.L {
			if x := projErr(e, S.Elem, T.Elem, o); x != 0 {
				return x
			}
		}
	case tref.MAP:
		for i := range v.L {
			if x := projErr(v.K[i], S.Key, T.Key, o); x != 0 {
				return x
			}
			if x := projErr(v.L[i], S.Elem, T.Elem, o); x != 0 {
				return x
			}
		}
	}
	return 0
}

// cmpProj verifies that dec is the projection of v (typed S) onto T. Returns "" or a mismatch description.
func cmpProj(dec, v *tref.Val, S, T *gen.Type, o c11opts) string {
	if dec.T != v.T {
		return fmt.Sprintf("type %s vs %s", tref.TypeName(dec.T), tref.TypeName(v.T))
	}
	if (S == T || (S.T == tref.STRUCT && S.S == T.S)) && tref.Equal(dec, v) {
		// the same declared type on both sides may be copied as is (pointer-equal descriptors) or projected
		// onto itself (zero-filling absent default fields under WriteDefault): both satisfy the statement.
		// The root-level identical-descriptor case is checked byte for byte by the caller.
		return ""
	}
	switch v.T {
	case tref.STRUCT:
		var exp []tref.Field
		present := map[int16]bool{}
		for _, f := range v.Fs {
			if S.S.Field(f.ID) == nil {
				continue
			}
			if T.S.Field(f.ID) == nil {
				continue
			}
			exp = append(exp, f)
			present[f.ID] = true
		}
		fills := map[int16]*gen.FieldT{}
		if !o.NotCheckRequireNess && o.WriteDefault {
			for _, tf := range T.S.Fields {
				if tf.Req == gen.ReqDefault && !present[tf.ID] {
					fills[tf.ID] = tf
				}
			}
		}
		j := 0
		for _, df := range dec.Fs {
			if j < len(exp) && exp[j].ID == df.ID {
				if m := cmpProj(df.V, exp[j].V, S.S.Field(df.ID).T, T.S.Field(df.ID).T, o); m != "" {
					return fmt.Sprintf("field %d: %s", df.ID, m)
				}
				j++
				continue
			}
			if tf, ok := fills[df.ID]; ok {
				if !tref.Equal(df.V, zeroOf(tf.T)) {
					return fmt.Sprintf("zero-filled field %d is %s", df.ID, df.V.String())
				}
				delete(fills, df.ID)
				continue
			}
			return fmt.Sprintf("unexpected field %d (%s) in output (or out of source order)", df.ID, df.V.String())
		}
		if j != len(exp) {
			return fmt.Sprintf("field %d missing in output", exp[j].ID)
		}
		for id := range fills {
			return fmt.Sprintf("default-requiredness field %d not zero-filled under WriteDefault", id)
		}
	case tref.LIST, tref.SET:
		if dec.ET != v.ET || len(dec.L) != len(v.L) {
			return "list header"
		}
		for i := range v.L {
			if m := cmpProj(dec.L[i], v.L[i], S.Elem, T.Elem, o); m != "" {
				return fmt.Sprintf("[%d]: %s", i, m)
			}
		}
	case tref.MAP:
		if dec.ET != v.ET || dec.KT != v.KT || len(dec.L) != len(v.L) {
			return "map header"
		}
		for i := range v.L {
			if m := cmpProj(dec.K[i], v.K[i], S.Key, T.Key, o); m != "" {
				return fmt.Sprintf("key %d: %s", i, m)
			}
			if m := cmpProj(dec.L[i], v.L[i], S.Elem, T.Elem, o); m != "" {
				return fmt.Sprintf("val %d: %s", i, m)
			}
		}
	default:
		if !tref.Equal(dec, v) {
			return "scalar " + dec.String() + " vs " + v.String()
		}
	}
	return ""
}

// pUnknownReach walks a message the way the projection does (a field missing from the target is skipped as a
// whole, a field present in both is entered) and reports whether a field missing from the SOURCE descriptor is met:
// direct = met along singular messages and list elements, viaMap = met only inside map values.
func pUnknownReach(m protoreflect.Message, skipS, skipT map[protoreflect.FullName]bool, inMap bool) (direct, viaMap bool) {
	m.Range(func(fd protoreflect.FieldDescriptor, v protoreflect.Value) bool {
		if skipS[fd.FullName()] {
			if inMap {
				viaMap = true
			} else {
				direct = true
			}
			return true
		}
		if skipT[fd.FullName()] {
			return true
		}
		sub := func(mm protoreflect.Message, im bool) {
			d, vm := pUnknownReach(mm, skipS, skipT, im)
			direct, viaMap = direct || d, viaMap || vm
		}
		switch {
		case fd.IsMap():
			if fd.MapValue().Kind() == protoreflect.MessageKind {
				v.Map().Range(func(k protoreflect.MapKey, mv protoreflect.Value) bool {
					sub(mv.Message(), true)
					return true
				})
			}
		case fd.IsList():
			if fd.Kind() == protoreflect.MessageKind {
				for i := 0; i < v.List().Len(); i++ {
					sub(v.List().Get(i).Message(), inMap)
				}
			}
		case fd.Kind() == protoreflect.MessageKind:
			sub(v.Message(), inMap)
		}
		return true
	})
	return
}

// renumSchema renders sc as a target schema in which every field named in skip is either left out or - with
// probability 1/2 - kept under its name but with a different, unused number: the projection is by field NUMBER, so
// such a field must stay empty in the output just as if it had been left out.  Returns the text and the count of
// renumbered fields.
func renumSchema(r *h.Rand, sc *gen.PSchema, skip map[protoreflect.FullName]bool) (string, int) {
	var saved []func()
	renum := 0
	var rec func(ms []*gen.PMsg)
	rec = func(ms []*gen.PMsg) {
		for _, m := range ms {
			m := m
			orig := m.Fields
			usedNums := map[int32]bool{}
			for _, f := range orig {
				usedNums[f.Num] = true
			}
			var keep []*gen.PField
			for i, f := range orig {
				if !skip[protoreflect.FullName(m.FullName()+"."+f.Name)] {
					keep = append(keep, f)
					continue
				}
				nn := int32(20000 + i)
				if r.Bool() && !usedNums[nn] {
					cp := *f
					cp.Num = nn
					usedNums[nn] = true
					keep = append(keep, &cp)
					renum++
				}
			}
			m.Fields = keep
			saved = append(saved, func() { m.Fields = orig })
			rec(m.Nested)
		}
	}
	rec(sc.Msgs)
	text := sc.Proto()
	for _, f := range saved {
		f()
	}
	return text, renum
}

// c11NestedUnknown: an unknown field inside a sub-message under DisallowUnknown whose following bytes would parse as
// fields of the enclosing message: the projection must fail (and must not take the rest of the sub-message for
// fields of the parent).
func c11NestedUnknown(c *h.Ctx) {
	const text = "syntax = \"proto3\";\noption go_package = \"verif/pb\";\nmessage B { int32 y = 1; }\nmessage A { B b = 1; int32 x = 2; repeated B l = 3; string s = 4; }\nservice Svc { rpc M(A) returns (A); }\n"
	c.Run("proto-cut-nested-unknown", c.N(60, 600), func(cs *h.Case) {
		svc, err := dproto.NewDescritorFromContent(context.Background(), "verif.proto", text, nil)
		if err != nil {
			cs.Viol("pcut:parse", "err", err)
			return
		}
		d := svc.LookupMethodByName("M").Input()
		unk := rwire.AppendTag(nil, rwire.Number(5+cs.R.Intn(20)), rwire.VarintType) // unknown in B
		// the value of the unknown field (0x10) doubles as the tag of A.x; then B.y = v follows (0x08 v), which read at
		// A's level would be the value of x and a further tag
		tail := []byte{0x10, 0x08, byte(1 + cs.R.Intn(100))}
		inner := append(append([]byte{}, unk...), tail...)
		var in []byte
		host := rwire.Number([]int{1, 3}[cs.R.Intn(2)])
		in = rwire.AppendTag(in, host, rwire.BytesType)
		in = rwire.AppendBytes(in, inner)
		if cs.R.Bool() {
			in = append(rwire.AppendTag(in, 2, rwire.VarintType), 9)
		}
		cs.Info("input", hexs(in))
		out, err := pg.NewRootValue(d, in).MarshalTo(d, &pg.Options{DisallowUnknown: true, UseNativeSkip: cs.R.Bool()})
		if err == nil {
			cs.Viol("pcut:nested-unknown-accepted", "out", out)
			return
		}
		cs.Cover("pcut_nested_unknown_rejected")
		// without the option the unknown field is dropped and the rest is kept
		out, err = pg.NewRootValue(d, in).MarshalTo(d, &pg.Options{})
		if err != nil {
			cs.Viol("pcut:nested-unknown:error-without-option", "err", err)
			return
		}
		cs.Info("out", hexs(out))
		cs.Cover("pcut_nested_unknown_dropped")
		cs.Distinct(fmt.Sprintf("nu-%d-%x", host, tail))
	})
}

func runC11(c *h.Ctx) {
	defer c11NestedUnknown(c)
	c.Run("thrift-cut", c.N(6000, 150000), func(cs *h.Case) {
		sc := gen.GenSchema(cs.R, gen.Cfg{MaxDepth: 3, MaxFields: 6, StructKeys: cs.R.Chance(40), BigIDs: true, Recursive: true, Requiredness: cs.R.Bool()})
		S := structType(sc.Root)
		identical := cs.R.Chance(12)
		var T *gen.Type
		if identical {
			T = S
		} else {
			d := &deriver{r: cs.R, memo: map[*gen.StructT]*gen.StructT{}, shareP: 30, reqP: 12}
			troot := d.strct(sc.Root, true)
			T = structType(troot)
			sc.Structs = append(sc.Structs, d.out...)
			sc.ExtraRoots = []*gen.StructT{troot}
		}
		idl := sc.IDL()
		cs.Info("idl", idl)
		popts := thrift.NewDefaultOptions()
		popts.UseDefaultValue = cs.R.Bool()
		if popts.UseDefaultValue {
			cs.Cover("cut_target_parsed_with_default_values")
		}
		_, svc, err := ParseRoot(sc, popts)
		if err != nil {
			cs.Viol("cut:parse-idl", "err", err)
			return
		}
		from, err := RootOf(svc, "M")
		to := from
		if !identical && err == nil {
			to, err = RootOf(svc, "M1")
		}
		if err != nil {
			cs.Viol("cut:parse-idl", "err", err)
			return
		}
		v := gen.GenVal(cs.R, S, gen.ValCfg{NonFinite: true, InvalidUTF8: true, ShuffleFlds: cs.R.Bool(), MaxElems: 5}, 0)
		unknown := false
		if !identical && cs.R.Chance(20) {
			// an unknown field (not in the source descriptor) at the root
			id := int16(30000 + cs.R.Intn(100))
			pos := cs.R.Intn(len(v.Fs) + 1)
			fs := append([]tref.Field{}, v.Fs[:pos]...)
			fs = append(fs, tref.Field{ID: id, V: gen.GenVal(cs.R, &gen.Type{T: []byte{tref.I32, tref.STRING, tref.LIST}[cs.R.Intn(3)], Elem: &gen.Type{T: tref.I64}}, gen.ValCfg{MaxElems: 3}, 2)})
			v.Fs = append(fs, v.Fs[pos:]...)
			unknown = true
		}
		b := tref.Encode(v)
		cs.Info("value", v.String())
		cs.Info("bytes", hexs(b))
		ob := cs.R.Intn(16)
		o := c11opts{DisallowUnknow: ob&1 != 0, NotCheckRequireNess: ob&2 != 0, WriteDefault: ob&4 != 0}
		gopts := &generic.Options{DisallowUnknow: o.DisallowUnknow, NotCheckRequireNess: o.NotCheckRequireNess, WriteDefault: o.WriteDefault, UseNativeSkip: ob&8 != 0}
		cs.Info("opts", fmt.Sprintf("%+v native=%v identical=%v unknown=%v", o, gopts.UseNativeSkip, identical, unknown))
		tr := h.TrapCopy(b, cs.R.Bool(), true)
		defer tr.Free()
		val := generic.NewValue(from, tr.B)
		out, err := val.MarshalTo(to, gopts)
		if err == nil {
			// the result belongs to the caller: a second cut (identical descriptor, other option vector) must not touch it
			held := append([]byte{}, out...)
			generic.NewValue(from, tr.B).MarshalTo(from, &generic.Options{NotCheckRequireNess: true})
			if !bytes.Equal(out, held) {
				cs.Viol("cut:result-changed-by-later-call", "was", held, "now", out)
				return
			}
			cs.Cover("cut_result_held_intact")
		}
		want := projErr(v, S, T, o)
		cs.Cover(fmt.Sprintf("cut_opts_%02d", ob))
		kind := "cut"
		if identical {
			kind = "cut:identical"
		}
		switch {
		case want != 0:
			if err == nil {
				cs.Viol(fmt.Sprintf("%s:no-error:expected-%d", kind, want), "out", out)
			}
			cs.Cover(fmt.Sprintf("cut_expected_error_%d", want))
		case err != nil:
			cs.Viol(kind+":unexpected-error", "err", err)
		default:
			dec, derr := tref.Decode(out, tref.STRUCT)
			if derr != nil {
				cs.Viol(kind+":malformed", "decode-error", derr, "out", out)
			} else if m := cmpProj(dec, v, S, T, o); m != "" {
				cs.Viol(kind+":projection", "mismatch", m, "got", dec.String())
			} else if identical && !bytes.Equal(out, b) {
				cs.Viol(kind+":not-identical-bytes", "out", out)
			}
			cs.Cover("cut_ok")
		}
		cs.Distinct(fmt.Sprintf("cut-%v-%d-%d-%s", identical, ob&7, want, shapeKey(v)[:min(len(shapeKey(v)), 20)]))
		if cs.I == 4 {
			cs.Sample(map[string]interface{}{"idl": idl, "value": v.String(), "opts": fmt.Sprintf("%+v", o)})
		}
	})

	// ---- Protobuf: projection by field number
	c.Run("proto-cut", c.N(4000, 100000), func(cs *h.Case) {
		sc := gen.GenPSchema(cs.R, gen.PCfg{Unpacked: true, MaxDepth: 2, MaxFields: 6, Nested: cs.R.Bool(), Enums: true, BigNums: cs.R.Chance(30)})
		pc, err := PCompile(sc)
		if err != nil {
			cs.Cover("oracle_schema_rejected")
			return
		}
		// source and target descriptors: two independent subsets of the same schema
		identical := cs.R.Chance(15)
		srcText, skipS := readerSchema(cs.R, sc)
		tgtText, skipT := srcText, skipS
		renumbered := 0
		if !identical {
			tgtText, skipT = readerSchema(cs.R, sc)
			if cs.R.Bool() {
				// same field sets by number, but some of the left-out fields reappear under another number
				tgtText, renumbered = renumSchema(cs.R, sc, skipT)
			}
		}
		cs.Info("source-proto", srcText)
		cs.Info("target-proto", tgtText)
		ssvc, err := dproto.NewDescritorFromContent(context.Background(), "verif.proto", srcText, nil)
		if err != nil {
			cs.Viol("pcut:parse", "err", err)
			return
		}
		tsvc, err := dproto.NewDescritorFromContent(context.Background(), "verif.proto", tgtText, nil)
		if err != nil {
			cs.Viol("pcut:parse", "err", err)
			return
		}
		from, to := ssvc.LookupMethodByName("M").Input(), tsvc.LookupMethodByName("M").Input()
		m := PGenMsg(cs.R, pc.Root, PValCfg{NonFinite: true, MaxElems: 4, MaxDepth: 3}, 0)
		// usually a value described by the source descriptor; in a fifth of the cases the fields the source
		// descriptor lacks stay in: they are unknown fields at whatever depth they sit
		unknownSrc := !identical && cs.R.Chance(20)
		unkDirect, unkViaMap := false, false
		if unknownSrc {
			unkDirect, unkViaMap = pUnknownReach(m, skipS, skipT, false)
		} else {
			pClearFields(m, skipS)
		}
		b := PMarshal(m)
		want := proto.Clone(m).(*dynamicpb.Message)
		pClearFields(want, skipS)
		pClearFields(want, skipT)
		cs.Info("message", trunc(fmt.Sprint(m)))
		cs.Info("bytes", hexs(b))
		opts := &pg.Options{UseNativeSkip: cs.R.Bool(), DisallowUnknown: cs.R.Bool()}
		tr := h.TrapCopy(b, cs.R.Bool(), true)
		defer tr.Free()
		out, err := pg.NewRootValue(from, tr.B).MarshalTo(to, opts)
		if err == nil {
			held := append([]byte{}, out...)
			pg.NewRootValue(from, tr.B).MarshalTo(from, &pg.Options{})
			m9 := PGenMsg(cs.R, pc.Root, PValCfg{MaxElems: 3, MaxDepth: 2}, 0)
			pg.NewRootValue(to, PMarshal(m9)).MarshalTo(to, &pg.Options{})
			if !bytes.Equal(out, held) {
				cs.Viol("pcut:result-changed-by-later-call", "was", held, "now", out)
				return
			}
			cs.Cover("pcut_result_held_intact")
		}
		kind := "pcut"
		if identical {
			kind = "pcut:identical"
		}
		if unknownSrc && opts.DisallowUnknown && (unkDirect || unkViaMap) {
			if unkDirect {
				if err == nil {
					cs.Viol("pcut:unknown-field-accepted", "out", out)
				} else {
					cs.Cover("pcut_unknown_rejected")
				}
			} else {
				cs.Cover("pcut_unknown_only_inside_map_values_unasserted")
			}
			return
		}
		if err != nil {
			cs.Viol(kind+":unexpected-error", "err", err)
			return
		}
		if unknownSrc && (unkDirect || unkViaMap) {
			cs.Cover("pcut_unknown_fields_dropped")
		}
		got := dynamicpb.NewMessage(pc.Root)
		if uerr := PUnmarshal(out, got); uerr != nil {
			cs.Viol(kind+":rejected-by-reference", "err", uerr, "out", out)
			return
		}
		PNormEmpty(got)
		wn := proto.Clone(want).(*dynamicpb.Message)
		PNormEmpty(wn)
		if !proto.Equal(got, wn) {
			cs.Viol(kind+":projection", "got", trunc(fmt.Sprint(got)), "want", trunc(fmt.Sprint(want)), "out", out)
			return
		}
		if identical && !bytes.Equal(out, b) {
			cs.Viol(kind+":not-identical-bytes", "out", out)
			return
		}
		cs.Cover("pcut_ok")
		if renumbered > 0 {
			cs.Cover("pcut_target_with_renumbered_names_ok")
		}
		if identical {
			cs.Cover("pcut_identical_ok")
		}
		cs.Distinct(fmt.Sprintf("pcut-%v-%d-%d-%s", identical, len(skipS), len(skipT), c20Shape(m)))
	})
}
