package props

import (
	"context"
	"fmt"
	"math"
	"strconv"
	"strings"

	"github.com/cloudwego/dynamicgo/conv"
	"github.com/cloudwego/dynamicgo/conv/j2t"
	"github.com/cloudwego/dynamicgo/conv/t2j"
	"github.com/cloudwego/dynamicgo/thrift"
	"github.com/cloudwego/gopkg/protocol/thrift/base"

	"verifharness/gen"
	"verifharness/h"
	"verifharness/tref"
)

// api.js_conv value mapping (EnableValueMapping): JSON -> Thrift accepts the number or its quoted decimal
// text for integer/double fields; Thrift -> JSON writes the annotated integers (and lists of them) as strings.

func jsConvSchema(r *h.Rand) (*gen.Schema, []*gen.FieldT) {
	js := []string{`api.js_conv=""`}
	types := []*gen.Type{{T: tref.I64}, {T: tref.I32}, {T: tref.I16}, {T: tref.BYTE}, {T: tref.DOUBLE}, {T: tref.STRING}}
	st := &gen.StructT{Name: "JS"}
	n := 2 + r.Intn(7)
	used := map[int16]bool{}
	for i := 0; i < n; i++ {
		var id int16
		for {
			id = int16(1 + r.Intn(30))
			if r.Chance(10) {
				id = []int16{64, 255, 256, 1000}[r.Intn(4)]
			}
			if !used[id] {
				break
			}
		}
		used[id] = true
		f := &gen.FieldT{ID: id, Name: fmt.Sprintf("v%d", i), T: types[r.Intn(len(types))], Req: r.Intn(3)}
		if r.Chance(70) {
			f.Annos = js
		}
		st.Fields = append(st.Fields, f)
	}
	sc := &gen.Schema{Structs: []*gen.StructT{st}, Root: st}
	return sc, st.Fields
}

func isJSConv(f *gen.FieldT) bool { return len(f.Annos) > 0 }

type jsConvCaseT struct {
	sc            *gen.Schema
	desc          *thrift.TypeDescriptor
	doc           string
	want          *tref.Val
	quotedNumeric bool
	emptySpelled  map[int16]bool
	mappedI16     bool // a mapped i16 field is present with a non-empty spelling (subject of C02-K2)
}

func jsConvCase(cs *h.Case) *jsConvCaseT {
	sc, fields := jsConvSchema(cs.R)
	cs.Info("idl", sc.IDL())
	desc, _, err := ParseRoot(sc, thrift.NewDefaultOptions())
	if err != nil {
		cs.Viol("j2t:js-conv:parse-idl", "err", err)
		return nil
	}
	root := structType(sc.Root)
	want := tref.Struct()
	var ms []string
	quotedNumeric := false
	emptySpelled := map[int16]bool{}
	for _, f := range fields {
		if !cs.R.Chance(80) {
			if f.Req == gen.ReqRequired {
				// keep the document conforming
			} else {
				continue
			}
		}
		v := gen.GenVal(cs.R, f.T, gen.ValCfg{MaxStr: 20, PlainStr: true}, 2)
		if f.T.T == tref.BYTE && v.I < 0 {
			v.I = -(v.I + 1)
		}
		var txt string
		switch f.T.T {
		case tref.STRING:
			txt = RenderJSON(cs.R, v, f.T, JSpell{}, JOpts{})
		case tref.DOUBLE:
			if v.F == 0 && math.Signbit(v.F) {
				v.F = 0 // the sign of zero through the native scanner is C02-K1's subject
			}
			txt = strconv.FormatFloat(v.F, 'g', -1, 64)
			if isJSConv(f) && cs.R.Bool() {
				txt = `"` + txt + `"`
				quotedNumeric = true
			}
		default:
			txt = strconv.FormatInt(v.I, 10)
			if isJSConv(f) && cs.R.Bool() {
				txt = `"` + txt + `"`
				quotedNumeric = true
				if v.I == 0 && cs.R.Chance(30) {
					txt = `""` // documented: the empty string stands for 0
					emptySpelled[f.ID] = true
				}
			}
		}
		ms = append(ms, fmt.Sprintf("%q:%s", f.Name, txt))
		want.Fs = append(want.Fs, tref.Field{ID: f.ID, V: v})
	}
	doc := "{" + strings.Join(ms, ",") + "}"
	cs.Info("json", doc)
	k := &jsConvCaseT{sc: sc, desc: desc, doc: doc, want: want, quotedNumeric: quotedNumeric, emptySpelled: emptySpelled}
	for _, f := range want.Fs {
		if fd := sc.Root.Field(f.ID); fd.T.T == tref.I16 && isJSConv(fd) && !emptySpelled[f.ID] {
			k.mappedI16 = true
		}
	}
	_ = root
	return k
}

func runJSConvJ2T(c *h.Ctx) {
	c.Run("js-conv", c.N(3000, 100000), func(cs *h.Case) {
		k := jsConvCase(cs)
		if k == nil {
			return
		}
		sc, desc, doc, want, quotedNumeric, emptySpelled := k.sc, k.desc, k.doc, k.want, k.quotedNumeric, k.emptySpelled
		mapping := cs.R.Chance(75)
		o := conv.Options{EnableValueMapping: mapping}
		cv := j2t.NewBinaryConv(o)
		tr := h.TrapCopy([]byte(doc), cs.R.Bool(), true)
		defer tr.Free()
		out, err := cv.Do(context.Background(), desc, tr.B)
		if !mapping && quotedNumeric {
			// without value mapping a quoted number is a kind mismatch
			if err == nil {
				cs.Viol("j2t:js-conv:quoted-number-accepted-without-mapping", "out", out)
			} else {
				cs.Cover("js_conv_rejected_without_mapping")
			}
			return
		}
		if err != nil {
			cs.Viol("j2t:js-conv:error-on-conforming", "err", err)
			return
		}
		// defect model of the known finding C02-K2: the native inline js_conv writer falls through from its
		// I16 case into the I08 case and appends the value's low byte after every mapped i16 value
		if mapping {
			pred := []byte{}
			stray := false
			for _, f := range want.Fs {
				fd := sc.Root.Field(f.ID)
				one := tref.Struct(tref.Field{ID: f.ID, V: f.V})
				enc := tref.Encode(one)
				pred = append(pred, enc[:len(enc)-1]...)
				if fd.T.T == tref.I16 && isJSConv(fd) && !emptySpelled[f.ID] { // "" takes the Go path
					pred = append(pred, byte(f.V.I))
					stray = true
				}
			}
			pred = append(pred, 0)
			if stray && string(pred) == string(out) {
				cs.Viol("j2t:js-conv:i16-stray-byte", "out", out)
				return
			}
		}
		got, derr := tref.Decode(out, tref.STRUCT)
		if derr != nil {
			cs.Viol("j2t:js-conv:malformed-output", "decode-error", derr, "out", out)
			return
		}
		if !tref.Equal(got, want) {
			cs.Viol("j2t:js-conv:value", "got", got.String(), "want", want.String(), "first-diff", firstDiff(got, want, ""))
			return
		}
		cs.Cover("js_conv_j2t_ok")
		if quotedNumeric {
			cs.Cover("js_conv_j2t_quoted_number_ok")
		}
		cs.Distinct(fmt.Sprintf("jsc-%v-%v-%s", mapping, quotedNumeric, shapeKey(want)[:min(len(shapeKey(want)), 14)]))
	})
}

func runJSConvT2J(c *h.Ctx) {
	c.Run("js-conv", c.N(3000, 100000), func(cs *h.Case) {
		sc, fields := jsConvSchema(cs.R)
		// lists of integers are also mapped on the way out
		lf := &gen.FieldT{ID: 2000, Name: "lst", T: &gen.Type{T: tref.LIST, Elem: &gen.Type{T: tref.I64}}, Annos: []string{`api.js_conv=""`}}
		if cs.R.Bool() {
			sc.Root.Fields = append(sc.Root.Fields, lf)
			fields = sc.Root.Fields
		}
		cs.Info("idl", sc.IDL())
		desc, _, err := ParseRoot(sc, thrift.NewDefaultOptions())
		if err != nil {
			cs.Viol("t2j:js-conv:parse-idl", "err", err)
			return
		}
		inner := sc.Root
		mk := func() *tref.Val {
			v := tref.Struct()
			for _, f := range fields {
				if cs.R.Chance(85) {
					x := gen.GenVal(cs.R, f.T, gen.ValCfg{MaxStr: 24, MaxElems: 4}, 2)
					if f.T.T == tref.BYTE && x.I < 0 {
						x.I = -(x.I + 1)
					}
					v.Fs = append(v.Fs, tref.Field{ID: f.ID, V: x})
				}
			}
			return v
		}
		v := mk()
		// the annotated struct one level down as well: field value, list element, map value
		nested := cs.R.Chance(40)
		var parts []*tref.Val
		if nested {
			parts = []*tref.Val{mk(), mk(), mk(), mk()}
			st := &gen.Type{T: tref.STRUCT, S: inner}
			wrap := &gen.StructT{Name: "Wrap", Fields: []*gen.FieldT{
				{ID: 1, Name: "inner", T: st}, {ID: 2, Name: "items", T: &gen.Type{T: tref.LIST, Elem: st}},
				{ID: 3, Name: "byKey", T: &gen.Type{T: tref.MAP, Key: &gen.Type{T: tref.STRING}, Elem: st}}}}
			sc.Structs = append(sc.Structs, wrap)
			sc.Root = wrap
			v = tref.Struct(tref.Field{ID: 1, V: parts[0]}, tref.Field{ID: 2, V: tref.List(tref.STRUCT, parts[1], parts[2])},
				tref.Field{ID: 3, V: &tref.Val{T: tref.MAP, KT: tref.STRING, ET: tref.STRUCT, K: []*tref.Val{tref.Str("k")}, L: []*tref.Val{parts[3]}}})
			cs.Info("idl-nested", sc.IDL())
			var err error
			if desc, _, err = ParseRoot(sc, thrift.NewDefaultOptions()); err != nil {
				cs.Viol("t2j:js-conv:parse-idl", "err", err)
				return
			}
			cs.Cover("js_conv_t2j_nested")
		}
		b := tref.Encode(v)
		cs.Info("model", v.String())
		mapping := cs.R.Chance(80)
		cv := t2j.NewBinaryConv(conv.Options{EnableValueMapping: mapping})
		tr := h.TrapCopy(b, cs.R.Bool(), true)
		defer tr.Free()
		out, err := cv.Do(context.Background(), desc, tr.B)
		if err != nil {
			cs.Cover("t2j_error_returned")
			return
		}
		top, perr := ParseJSON(out)
		if perr != nil || top.K != 'o' {
			cs.Viol("t2j:js-conv:malformed-json", "out", trunc(string(out)))
			return
		}
		cmp := func(j *JV, v *tref.Val) bool {
			if j == nil || j.K != 'o' {
				cs.Viol("t2j:js-conv:malformed-json", "out", trunc(string(out)))
				return false
			}
			if len(j.Keys) != len(v.Fs) {
				cs.Viol("t2j:js-conv:member-count", "out", trunc(string(out)))
				return false
			}
			for i, fv := range v.Fs {
				f := inner.Field(fv.ID)
				jv := j.Vals[i]
				if j.Keys[i] != f.Name {
					cs.Viol("t2j:js-conv:member-key", "out", trunc(string(out)))
					return false
				}
				mapped := mapping && isJSConv(f)
				bad := ""
				num := func(x *JV, want *tref.Val) string {
					txt := x.N
					if mapped {
						if x.K != 's' {
							return "mapped number not written as string"
						}
						txt = x.S
					} else if x.K != '#' {
						return "number expected"
					}
					if want.T == tref.DOUBLE {
						if math.IsNaN(want.F) || math.IsInf(want.F, 0) {
							return ""
						}
						g, e := strconv.ParseFloat(txt, 64)
						if e != nil || math.Float64bits(g) != math.Float64bits(want.F) {
							return "double differs"
						}
						return ""
					}
					g, e := strconv.ParseInt(txt, 10, 64)
					if e != nil || g != want.I {
						return "integer differs"
					}
					return ""
				}
				switch fv.V.T {
				case tref.STRING:
					if jv.K != 's' || jv.S != replaceInvalidUTF8(fv.V.S) {
						bad = "string differs"
					}
				case tref.LIST:
					if jv.K != 'a' || len(jv.A) != len(fv.V.L) {
						bad = "array differs"
					} else {
						for k := range fv.V.L {
							if m := num(jv.A[k], fv.V.L[k]); m != "" {
								bad = m
							}
						}
					}
				default:
					bad = num(jv, fv.V)
				}
				if bad != "" {
					cs.Viol("t2j:js-conv:value:"+tref.TypeName(fv.V.T), "field", f.Name, "mismatch", bad, "mapped", mapped, "out", trunc(string(out)))
					return false
				}
			}
			return true
		}
		if !nested {
			if !cmp(top, v) {
				return
			}
		} else {
			get := func(o *JV, k string) *JV {
				for i := range o.Keys {
					if o.Keys[i] == k {
						return o.Vals[i]
					}
				}
				return nil
			}
			items, byKey := get(top, "items"), get(top, "byKey")
			if items == nil || items.K != 'a' || len(items.A) != 2 || byKey == nil || byKey.K != 'o' {
				cs.Viol("t2j:js-conv:nested-shape", "out", trunc(string(out)))
				return
			}
			if !cmp(get(top, "inner"), parts[0]) || !cmp(items.A[0], parts[1]) || !cmp(items.A[1], parts[2]) || !cmp(get(byKey, "k"), parts[3]) {
				return
			}
		}
		cs.Cover("js_conv_t2j_ok")
		cs.Distinct(fmt.Sprintf("jsc-%v-%s", mapping, shapeKey(v)[:min(len(shapeKey(v)), 14)]))
	})
}

// ---- EnableThriftBase (response base extracted into the context) and ConvertException -------------------

const c03BaseIDL = `namespace go verif
include "base.thrift"
exception Err { 1: i32 code, 2: string msg }
struct Resp { 1: string Msg, 2: i32 Code, 255: base.BaseResp BaseResp, 3: optional list<i64> L }
struct Req { 1: string A }
service S { Resp M(1: Req r) throws (1: Err e) }
`

func runBaseExceptionT2J(c *h.Ctx) {
	var fn *thrift.FunctionDescriptor
	c.Run("base-exception", c.N(1500, 40000), func(cs *h.Case) {
		if fn == nil {
			o := thrift.Options{EnableThriftBase: true}
			svc, err := o.NewDescritorFromContent(context.Background(), "main.thrift", c03BaseIDL, map[string]string{"main.thrift": c03BaseIDL, "base.thrift": gen.TBaseIDL}, false)
			if err != nil {
				cs.Viol("t2j:base:parse-idl", "err", err)
				return
			}
			fn, _ = svc.LookupFunctionByMethod("M")
		}
		respDesc := fn.Response().Struct().FieldById(0).Type()
		msg := string(gen.GenStr(cs.R, gen.ValCfg{PlainStr: true}))
		code := int32(gen.GenInt(cs.R, tref.I32))
		status := string(gen.GenStr(cs.R, gen.ValCfg{PlainStr: true}))
		scode := int32(gen.GenInt(cs.R, tref.I32))
		extra := &tref.Val{T: tref.MAP, KT: tref.STRING, ET: tref.STRING}
		wantExtra := map[string]string{}
		for k := cs.R.Intn(3); k > 0; k-- {
			key := fmt.Sprintf("k%d", k)
			val := string(gen.GenStr(cs.R, gen.ValCfg{PlainStr: true}))
			extra.K = append(extra.K, tref.Str(key))
			extra.L = append(extra.L, tref.Str(val))
			wantExtra[key] = val
		}
		br := tref.Struct(tref.Field{ID: 1, V: tref.Str(status)}, tref.Field{ID: 2, V: tref.Int32(scode)})
		if len(extra.L) > 0 {
			br.Fs = append(br.Fs, tref.Field{ID: 3, V: extra})
		}
		resp := tref.Struct(tref.Field{ID: 1, V: tref.Str(msg)}, tref.Field{ID: 255, V: br}, tref.Field{ID: 2, V: tref.Int32(code)})
		mode := cs.R.Intn(4)
		ctx := context.Background()
		switch mode {
		case 0, 1: // base extracted into the context object
			obj := base.NewBaseResp()
			ctx = context.WithValue(ctx, conv.CtxKeyThriftRespBase, obj)
			cv := t2j.NewBinaryConv(conv.Options{EnableThriftBase: true})
			tr := h.TrapCopy(tref.Encode(resp), cs.R.Bool(), true)
			defer tr.Free()
			out, err := cv.Do(ctx, respDesc, tr.B)
			if err != nil {
				cs.Viol("t2j:base:error-on-domain", "err", err)
				return
			}
			j, perr := ParseJSON(out)
			if perr != nil || j.K != 'o' {
				cs.Viol("t2j:base:malformed-json", "out", trunc(string(out)))
				return
			}
			if strings.Join(j.Keys, ",") != "Msg,Code" || j.Vals[0].S != replaceInvalidUTF8([]byte(msg)) || j.Vals[1].N != strconv.FormatInt(int64(code), 10) {
				cs.Viol("t2j:base:body-members", "out", trunc(string(out)), "want-keys", "Msg,Code")
				return
			}
			okExtra := len(obj.Extra) == len(wantExtra)
			for k, v := range wantExtra {
				if obj.Extra[k] != v {
					okExtra = false
				}
			}
			if obj.StatusMessage != status || obj.StatusCode != scode || !okExtra {
				cs.Viol("t2j:base:context-object", "got", fmt.Sprintf("%q %d %v", obj.StatusMessage, obj.StatusCode, obj.Extra), "want", fmt.Sprintf("%q %d %v", status, scode, wantExtra))
				return
			}
			cs.Cover("base_extracted_ok")
		case 2: // no object in the context: the base field is an ordinary member
			cv := t2j.NewBinaryConv(conv.Options{EnableThriftBase: cs.R.Bool()})
			out, err := cv.Do(ctx, respDesc, tref.Encode(resp))
			if err != nil {
				cs.Viol("t2j:base:error-on-domain", "err", err)
				return
			}
			j, perr := ParseJSON(out)
			if perr != nil || j.K != 'o' || strings.Join(j.Keys, ",") != "Msg,BaseResp,Code" {
				cs.Viol("t2j:base:plain-members", "out", trunc(string(out)))
				return
			}
			b := j.Vals[1]
			if b.K != 'o' || len(b.Keys) < 2 || b.Vals[0].S != replaceInvalidUTF8([]byte(status)) || b.Vals[1].N != strconv.FormatInt(int64(scode), 10) {
				cs.Viol("t2j:base:plain-base-value", "out", trunc(string(out)))
				return
			}
			cs.Cover("base_as_plain_member_ok")
		default: // exception field of the response wrapper
			ecode := int32(gen.GenInt(cs.R, tref.I32))
			emsg := string(gen.GenStr(cs.R, gen.ValCfg{PlainStr: true}))
			wrapper := tref.Struct(tref.Field{ID: 1, V: tref.Struct(tref.Field{ID: 1, V: tref.Int32(ecode)}, tref.Field{ID: 2, V: tref.Str(emsg)})})
			cv := t2j.NewBinaryConv(conv.Options{ConvertException: true})
			out, err := cv.Do(ctx, fn.Response(), tref.Encode(wrapper))
			if err == nil {
				cs.Viol("t2j:exception:no-error", "out", trunc(string(out)))
				return
			}
			j, perr := ParseJSON([]byte(err.Error()))
			if perr != nil || j.K != 'o' || strings.Join(j.Keys, ",") != "code,msg" || j.Vals[0].N != strconv.FormatInt(int64(ecode), 10) || j.Vals[1].S != replaceInvalidUTF8([]byte(emsg)) {
				cs.Viol("t2j:exception:error-text", "err", trunc(err.Error()), "want", fmt.Sprintf("code=%d msg=%q", ecode, emsg))
				return
			}
			cs.Cover("exception_converted_ok")
		}
		cs.Distinct(fmt.Sprintf("be-%d-%d-%d", mode, len(msg)%7, len(extra.L)))
	})
}
