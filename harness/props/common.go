package props

import (
	"context"
	"fmt"
	"unsafe"

	"github.com/cloudwego/dynamicgo/meta"
	"github.com/cloudwego/dynamicgo/thrift"
	_ "github.com/cloudwego/dynamicgo/thrift/annotation"

	"verifharness/gen"
	"verifharness/tref"
)

// ParseRoot parses the schema's IDL with dynamicgo and returns the descriptor of
// the Root struct (the type of argument 1 of method M).
func ParseRoot(sc *gen.Schema, opts thrift.Options) (*thrift.TypeDescriptor, *thrift.ServiceDescriptor, error) {
	svc, err := opts.NewDescritorFromContent(context.Background(), "verif.thrift", sc.IDL(), nil, false)
	if err != nil {
		return nil, nil, err
	}
	fn, err := svc.LookupFunctionByMethod("M")
	if err != nil {
		return nil, nil, err
	}
	req := fn.Request()
	if req == nil || req.Struct() == nil {
		return nil, nil, fmt.Errorf("no request struct")
	}
	f := req.Struct().FieldById(1)
	if f == nil {
		return nil, nil, fmt.Errorf("no request field 1")
	}
	return f.Type(), svc, nil
}

// RootOf returns the descriptor of argument 1 of the given method of a parsed service.
func RootOf(svc *thrift.ServiceDescriptor, method string) (*thrift.TypeDescriptor, error) {
	fn, err := svc.LookupFunctionByMethod(method)
	if err != nil {
		return nil, err
	}
	req := fn.Request()
	if req == nil || req.Struct() == nil {
		return nil, fmt.Errorf("no request struct")
	}
	f := req.Struct().FieldById(1)
	if f == nil {
		return nil, fmt.Errorf("no request field 1")
	}
	return f.Type(), nil
}

func errCode(err error) string {
	if err == nil {
		return "nil"
	}
	if me, ok := err.(meta.Error); ok {
		return me.Code.Behavior().String() + fmt.Sprintf("/%d", me.Code)
	}
	return "other"
}

func tt(t byte) thrift.Type { return thrift.Type(t) }

// typeOfVal wraps a root struct into a gen.Type.
func structType(s *gen.StructT) *gen.Type { return &gen.Type{T: tref.STRUCT, S: s} }

func hexs(b []byte) string {
	const hexd = "0123456789abcdef"
	if len(b) > 600 {
		b = b[:600]
	}
	out := make([]byte, 0, len(b)*2)
	for _, c := range b {
		out = append(out, hexd[c>>4], hexd[c&15])
	}
	return string(out)
}

// bytesToStringAlias views b as a string without copying (so that a trap-page placement stays effective).
func bytesToStringAlias(b []byte) string {
	if len(b) == 0 {
		return ""
	}
	return unsafe.String(&b[0], len(b))
}
