package props

import (
	"sync/atomic"
	"bytes"
	"context"
	"encoding/base64"
	"fmt"
	"io"
	"math"
	stdhttp "net/http"
	"reflect"
	"sort"
	"strings"
	"sync"
	"unsafe"

	"github.com/cloudwego/dynamicgo/conv"
	"github.com/cloudwego/dynamicgo/conv/j2p"
	"github.com/cloudwego/dynamicgo/conv/j2t"
	"github.com/cloudwego/dynamicgo/conv/p2j"
	"github.com/cloudwego/dynamicgo/conv/t2j"
	dhttp "github.com/cloudwego/dynamicgo/http"
	"github.com/cloudwego/dynamicgo/meta"
	dproto "github.com/cloudwego/dynamicgo/proto"
	pg "github.com/cloudwego/dynamicgo/proto/generic"
	"github.com/cloudwego/dynamicgo/thrift"
	"github.com/cloudwego/dynamicgo/thrift/generic"

	"verifharness/gen"
	"verifharness/h"
	"verifharness/tref"
)

func init() { h.Register("C12", runC12) }

const c12HTTPIDL = `namespace go verif
struct HReq {
  1: required string Q (api.query="q"),
  2: i32 H (api.header="X-H"),
  3: optional string C (api.cookie="c"),
  4: required i64 Plain,
  5: string Dflt,
  6: required i32 RQ (api.query="rq"),
}
struct HResp {
  1: string Msg,
  2: i32 Code (api.http_code="code"),
  3: string Hd (api.header="X-R"),
  4: required string Ck (api.cookie="rc"),
}
exception Ex {
  1: string Msg,
  2: i32 Code,
  3: list<string> Details,
}
service S {
  HResp M(1: HReq req)
  HResp X(1: HReq req) throws (1: Ex e)
}
`

// c12Fix is everything one session shares: descriptors, converter instances, read-only inputs.
type c12Fix struct {
	idl, protoText string
	root           *gen.Type
	// inputs (on read-only trap pages)
	tb, tj, pb, pj, hj, hrespb []byte
	bbJ                        []byte // JSON with long base64 values, start-aligned
	tjSpare, pjSpare           []byte // the JSON inputs as sub-slices with spare capacity, ending just in front of a page boundary
	hrespMsg, hrespMsgTrunc    []byte // reply envelope around hrespb (and a truncated one)
	excb                       []byte // response wrapper carrying the exception field
	bigT, bigJ                 []byte // a message whose encodings exceed every pooled buffer's default size
	tbTrunc, tjTrunc, pbTrunc  []byte
	tjMissing                  []byte
	paths                      [][]generic.Path
	npaths, npathsCopy         [][]generic.Path // name-addressed paths shared by all goroutines (caller's input, read-only)
	traps                      []*h.Trap
}

type c12Descs struct {
	t      *thrift.TypeDescriptor
	hreq   *thrift.TypeDescriptor
	hresp  *thrift.TypeDescriptor
	p      *dproto.TypeDescriptor
	hfn    *thrift.FunctionDescriptor
	bb     *dproto.TypeDescriptor // message with long bytes values
	hconv  *j2t.HTTPConv
	thconv *t2j.HTTPConv
	xresp  *thrift.TypeDescriptor // response wrapper of X (field 0: HResp, field 1: Ex)
	t2jExc *t2j.BinaryConv
	big    *thrift.TypeDescriptor
	wide   *thrift.TypeDescriptor // many look-alike field names (dense name-index buckets)
	// shared converter instances
	t2j, t2jHTTP            *t2j.BinaryConv
	j2t, j2tStrict, j2tHTTP *j2t.BinaryConv
	j2tHTTPTb               *j2t.BinaryConv // + ReadHttpValueFallback + TracebackRequredOrRootFields
	p2j                     *p2j.BinaryConv
	j2p                     *j2p.BinaryConv
}

func (f *c12Fix) parse() (*c12Descs, error) {
	d := &c12Descs{}
	svc, err := thrift.NewDescritorFromContent(context.Background(), "verif.thrift", f.idl, nil, false)
	if err != nil {
		return nil, err
	}
	if d.t, err = RootOf(svc, "M"); err != nil {
		return nil, err
	}
	hs, err := thrift.NewDescritorFromContent(context.Background(), "h.thrift", c12HTTPIDL, nil, false)
	if err != nil {
		return nil, err
	}
	if d.hreq, err = RootOf(hs, "M"); err != nil {
		return nil, err
	}
	fn, _ := hs.LookupFunctionByMethod("M")
	d.hresp = fn.Response().Struct().FieldById(0).Type()
	d.hfn = fn
	d.hconv = j2t.NewHTTPConv(meta.EncodingThriftBinary, fn)
	d.thconv = t2j.NewHTTPConv(meta.EncodingThriftBinary, fn)
	if xfn, _ := hs.LookupFunctionByMethod("X"); xfn != nil {
		d.xresp = xfn.Response()
	}
	if bs, err := thrift.NewDescritorFromContent(context.Background(), "big.thrift", "namespace go verif\nstruct Big { 1: list<i64> l, 2: string s }\nservice B { Big M(1: Big req) }\n", nil, false); err == nil {
		d.big, _ = RootOf(bs, "M")
	}
	{
		var sb strings.Builder
		sb.WriteString("namespace go verif\nstruct Wide {\n")
		id := 1
		for _, a := range []string{"a", "b"} {
			for _, b := range []string{"a", "b"} {
				for _, c := range []string{"a", "b"} {
					for _, e := range []string{"a", "b", "c"} {
						fmt.Fprintf(&sb, "  %d: optional i32 %s%s%s%s,\n", id, a, b, c, e)
						id++
					}
				}
			}
		}
		sb.WriteString("}\nservice W { Wide M(1: Wide req) }\n")
		if ws, err := thrift.NewDescritorFromContent(context.Background(), "wide.thrift", sb.String(), nil, false); err == nil {
			d.wide, _ = RootOf(ws, "M")
		}
	}
	xc := t2j.NewBinaryConv(conv.Options{ConvertException: true})
	d.t2jExc = &xc
	ps, err := dproto.NewDescritorFromContent(context.Background(), "verif.proto", f.protoText, nil)
	if err != nil {
		return nil, err
	}
	d.p = ps.LookupMethodByName("M").Input()
	if bs, err := dproto.NewDescritorFromContent(context.Background(), "bb.proto", c12BigBytesProto, nil); err == nil {
		d.bb = bs.LookupMethodByName("M").Input()
	}
	mk := func(o conv.Options) conv.Options { return o }
	a := t2j.NewBinaryConv(mk(conv.Options{}))
	b := t2j.NewBinaryConv(mk(conv.Options{EnableHttpMapping: true, WriteDefaultField: true}))
	c := j2t.NewBinaryConv(mk(conv.Options{WriteDefaultField: true}))
	e := j2t.NewBinaryConv(mk(conv.Options{DisallowUnknownField: true}))
	g := j2t.NewBinaryConv(mk(conv.Options{EnableHttpMapping: true, WriteDefaultField: true}))
	tb := j2t.NewBinaryConv(mk(conv.Options{EnableHttpMapping: true, ReadHttpValueFallback: true, TracebackRequredOrRootFields: true}))
	d.j2tHTTPTb = &tb
	x := p2j.NewBinaryConv(mk(conv.Options{}))
	y := j2p.NewBinaryConv(mk(conv.Options{}))
	d.t2j, d.t2jHTTP, d.j2t, d.j2tStrict, d.j2tHTTP, d.p2j, d.j2p = &a, &b, &c, &e, &g, &x, &y
	return d, nil
}

func (f *c12Fix) trap(b []byte) []byte {
	t := h.TrapCopy(b, true, true)
	f.traps = append(f.traps, t)
	return t.B
}

func (f *c12Fix) free() {
	for _, t := range f.traps {
		t.Free()
	}
}

// c12DumpThrift renders everything observable of a thrift descriptor graph (for the before/after comparison).
func c12DumpThrift(td *thrift.TypeDescriptor) string {
	var sb strings.Builder
	seen := map[*thrift.StructDescriptor]bool{}
	var rec func(t *thrift.TypeDescriptor)
	rec = func(t *thrift.TypeDescriptor) {
		if t == nil {
			sb.WriteString("nil;")
			return
		}
		fmt.Fprintf(&sb, "%s/%d;", t.Name(), t.Type())
		switch t.Type() {
		case thrift.LIST, thrift.SET:
			rec(t.Elem())
		case thrift.MAP:
			rec(t.Key())
			rec(t.Elem())
		case thrift.STRUCT:
			st := t.Struct()
			if seen[st] {
				return
			}
			seen[st] = true
			fmt.Fprintf(&sb, "{%s bm=%x hm=%d ", st.Name(), []uint64(st.Requires()), len(st.HttpMappingFields()))
			// the order in which Fields() lists them is observable too
			sb.WriteString("order=")
			for _, fd := range st.Fields() {
				fmt.Fprintf(&sb, "%d,", fd.ID())
			}
			fs := append([]*thrift.FieldDescriptor{}, st.Fields()...)
			sort.Slice(fs, func(i, j int) bool { return fs[i].ID() < fs[j].ID() })
			for _, fd := range fs {
				fmt.Fprintf(&sb, "%d:%s:%s:%d:%d:", fd.ID(), fd.Name(), fd.Alias(), fd.Required(), len(fd.HTTPMappings()))
				if dv := fd.DefaultValue(); dv != nil {
					fmt.Fprintf(&sb, "dv=%q,", dv.JSONValue())
				}
				if st.FieldByKey(fd.Alias()) != fd || st.FieldById(fd.ID()) != fd {
					sb.WriteString("LOOKUP-BROKEN,")
				}
				rec(fd.Type())
			}
			sb.WriteString("}")
		}
	}
	rec(td)
	return h.Sha([]byte(sb.String()))
}

func c12DumpProto(td *dproto.TypeDescriptor) string {
	var sb strings.Builder
	seen := map[*dproto.MessageDescriptor]bool{}
	var rec func(m *dproto.MessageDescriptor)
	rec = func(m *dproto.MessageDescriptor) {
		if m == nil || seen[m] {
			return
		}
		seen[m] = true
		fmt.Fprintf(&sb, "{%s %d ", m.Name(), m.FieldsCount())
		for n := int32(1); n <= 2100; n++ {
			f := m.ByNumber(dproto.FieldNumber(n))
			if f == nil {
				continue
			}
			fmt.Fprintf(&sb, "%d:%s:%s:%d:%d;", f.Number(), f.Name(), f.JSONName(), f.Kind(), f.Type().Type())
			if m.ByName(f.Name()) != f {
				sb.WriteString("LOOKUP-BROKEN,")
			}
			rec(f.Message())
			if f.IsMap() && f.MapValue() != nil {
				rec(f.MapValue().Message())
			}
		}
		sb.WriteString("}")
	}
	rec(td.Message())
	return h.Sha([]byte(sb.String()))
}

// canonGo renders a decoded Go value deterministically (map entries sorted by rendered key).
func canonGo(v interface{}) string {
	if v == nil {
		return "nil"
	}
	rv := reflect.ValueOf(v)
	switch rv.Kind() {
	case reflect.Map:
		var es []string
		it := rv.MapRange()
		for it.Next() {
			es = append(es, canonGo(it.Key().Interface())+"=>"+canonGo(it.Value().Interface()))
		}
		sort.Strings(es)
		return "{" + strings.Join(es, ",") + "}"
	case reflect.Slice:
		if b, ok := v.([]byte); ok {
			return fmt.Sprintf("b%x", b)
		}
		var es []string
		for i := 0; i < rv.Len(); i++ {
			es = append(es, canonGo(rv.Index(i).Interface()))
		}
		return "[" + strings.Join(es, ",") + "]"
	case reflect.Ptr, reflect.Interface:
		if rv.IsNil() {
			return "nil"
		}
		return canonGo(rv.Elem().Interface())
	case reflect.Float64, reflect.Float32:
		return fmt.Sprintf("f%x", math.Float64bits(rv.Float()))
	}
	return fmt.Sprintf("%T:%v", v, v)
}

type c12Op struct {
	name string
	// run returns a canonical rendering of the outcome and, for byte-slice results, the slice itself
	run func(d *c12Descs) (string, []byte)
}

func resStr(out []byte, err error) (string, []byte) {
	if err != nil {
		return "error:" + errCode(err), nil
	}
	return "ok:" + h.Sha(out) + fmt.Sprintf(":%d", len(out)), out
}

func c12HTTPReq(body []byte, withQuery bool) *dhttp.HTTPRequest {
	u := "http://verif.example/p"
	if withQuery {
		u += "?q=queryval&rq=77"
	}
	method := "POST"
	if body == nil {
		method = "GET"
	}
	sr, _ := stdhttp.NewRequest(method, u, bytes.NewReader(body))
	sr.Header.Set("X-H", "42")
	if body != nil {
		sr.Header.Set("Content-Type", "application/json")
	}
	sr.AddCookie(&stdhttp.Cookie{Name: "c", Value: "cookieval"})
	rq, _ := dhttp.NewHTTPRequestFromStdReq(sr)
	return rq
}

func (f *c12Fix) ops() []c12Op {
	gopts := func() *generic.Options { return &generic.Options{} }
	ctx := context.Background()
	ops := []c12Op{
		{"t2j.Do", func(d *c12Descs) (string, []byte) { return resStr(d.t2j.Do(ctx, d.t, f.tb)) }},
		{"t2j.Do-truncated", func(d *c12Descs) (string, []byte) { return resStr(d.t2j.Do(ctx, d.t, f.tbTrunc)) }},
		{"j2t.Do", func(d *c12Descs) (string, []byte) { return resStr(d.j2t.Do(ctx, d.t, f.tj)) }},
		{"j2t.Do-truncated", func(d *c12Descs) (string, []byte) { return resStr(d.j2tStrict.Do(ctx, d.t, f.tjTrunc)) }},
		{"j2t.DoInto", func(d *c12Descs) (string, []byte) {
			buf := make([]byte, 0, 16)
			err := d.j2t.DoInto(ctx, d.t, f.tj, &buf)
			return resStr(buf, err)
		}},
		{"j2t.http-body", func(d *c12Descs) (string, []byte) {
			c := context.WithValue(ctx, conv.CtxKeyHTTPRequest, c12HTTPReq(f.hj, true))
			return resStr(d.j2tHTTP.Do(c, d.hreq, f.hj))
		}},
		{"j2t.HTTPConv.Do", func(d *c12Descs) (string, []byte) {
			return resStr(d.hconv.Do(ctx, c12HTTPReq(f.hj, true), conv.Options{WriteDefaultField: true}))
		}},
		{"j2t.http-bodyless", func(d *c12Descs) (string, []byte) {
			c := context.WithValue(ctx, conv.CtxKeyHTTPRequest, c12HTTPReq(nil, true))
			return resStr(d.j2tHTTP.Do(c, d.hreq, nil))
		}},
		{"j2t.http-missing-required", func(d *c12Descs) (string, []byte) {
			// no query: the required mapped fields Q and RQ have no source => error expected
			c := context.WithValue(ctx, conv.CtxKeyHTTPRequest, c12HTTPReq(f.hj, false))
			return resStr(d.j2tHTTP.Do(c, d.hreq, f.hj))
		}},
		{"j2t.http-traceback-body", func(d *c12Descs) (string, []byte) {
			c := context.WithValue(ctx, conv.CtxKeyHTTPRequest, c12HTTPReq(f.hj, true))
			return resStr(d.j2tHTTPTb.Do(c, d.hreq, f.hj))
		}},
		{"j2t.http-traceback-missing-required", func(d *c12Descs) (string, []byte) {
			// the required mapped fields have no source and are not in the body: the call fails after the native
			// scanner has handed the unset fields back to Go
			c := context.WithValue(ctx, conv.CtxKeyHTTPRequest, c12HTTPReq(f.hj, false))
			return resStr(d.j2tHTTPTb.Do(c, d.hreq, f.hj))
		}},
		{"j2t.plain-on-http-desc", func(d *c12Descs) (string, []byte) {
			// same descriptor without mapping: required fields must come from the body (absent => error)
			return resStr(d.j2tStrict.Do(ctx, d.hreq, f.hj))
		}},
		{"t2j.http-response", func(d *c12Descs) (string, []byte) {
			resp := dhttp.NewHTTPResponse()
			c := context.WithValue(ctx, conv.CtxKeyHTTPResponse, resp)
			out, err := d.t2jHTTP.Do(c, d.hresp, f.hrespb)
			s, b := resStr(out, err)
			var ck []string
			for _, x := range (&stdhttp.Response{Header: resp.Header}).Cookies() {
				ck = append(ck, x.Name+"="+x.Value)
			}
			return s + fmt.Sprintf("|%d|%s|%v", resp.StatusCode, resp.Header.Get("X-R"), ck), b
		}},
		{"t2j.HTTPConv.Do", func(d *c12Descs) (string, []byte) {
			resp := dhttp.NewHTTPResponse()
			err := d.thconv.Do(ctx, resp, f.hrespMsg, conv.Options{WriteDefaultField: true})
			var body []byte
			if err == nil && resp.Response.Body != nil {
				body, _ = io.ReadAll(resp.Response.Body)
			}
			s, b := resStr(body, err)
			var ck []string
			for _, x := range (&stdhttp.Response{Header: resp.Header}).Cookies() {
				ck = append(ck, x.Name+"="+x.Value)
			}
			return s + fmt.Sprintf("|%d|%s|%v", resp.StatusCode, resp.Header.Get("X-R"), ck), b
		}},
		{"t2j.HTTPConv.DoInto", func(d *c12Descs) (string, []byte) {
			resp := dhttp.NewHTTPResponse()
			buf := make([]byte, 0, 8)
			err := d.thconv.DoInto(ctx, resp, f.hrespMsg, &buf, conv.Options{})
			s, b := resStr(buf, err)
			return s + fmt.Sprintf("|%d|%s", resp.StatusCode, resp.Header.Get("X-R")), b
		}},
		{"t2j.HTTPConv.Do-truncated", func(d *c12Descs) (string, []byte) {
			resp := dhttp.NewHTTPResponse()
			err := d.thconv.Do(ctx, resp, f.hrespMsgTrunc, conv.Options{})
			return resStr(nil, err)
		}},
		{"t2j.exception-as-error", func(d *c12Descs) (string, []byte) {
			// ConvertException: the exception comes back as an error whose text is its JSON; the text is a result
			// like any other and is held (as a view of the string's bytes) across later calls
			if d.xresp == nil {
				return "no-desc", nil
			}
			out, err := d.t2jExc.Do(ctx, d.xresp, f.excb)
			if err == nil {
				return "ok-without-exception:" + h.Sha(out), out
			}
			msg := err.Error()
			return "exception:" + h.Sha([]byte(msg)), unsafe.Slice(unsafe.StringData(msg), len(msg))
		}},
		{"thrift.DescriptorToPathNode", func(d *c12Descs) (string, []byte) {
			// builds a zero-valued tree from the shared descriptor (read-only use of the descriptor)
			var pn generic.PathNode
			o := &generic.Options{DescriptorToPathNodeMaxDepth: 3, DescriptorToPathNodeWriteDefualt: true, DescriptorToPathNodeWriteOptional: true, DescriptorToPathNodeArraySize: 1, DescriptorToPathNodeMapSize: 1}
			if err := generic.DescriptorToPathNode(d.t, &pn, o); err != nil {
				return "error:" + errCode(err), nil
			}
			out, err := pn.Marshal(o)
			return resStr(out, err)
		}},
		{"j2t.Do-large", func(d *c12Descs) (string, []byte) {
			if d.big == nil {
				return "no-desc", nil
			}
			return resStr(d.j2t.Do(ctx, d.big, f.bigJ))
		}},
		{"t2j.Do-large", func(d *c12Descs) (string, []byte) {
			if d.big == nil {
				return "no-desc", nil
			}
			return resStr(d.t2j.Do(ctx, d.big, f.bigT))
		}},
		{"thrift.Value.Interface", func(d *c12Descs) (string, []byte) {
			v, err := generic.NewValue(d.t, f.tb).Interface(gopts())
			if err != nil {
				return "error:" + errCode(err), nil
			}
			return "ok:" + h.Sha([]byte(canonGo(v))), nil
		}},
		{"thrift.Value.GetByPath", func(d *c12Descs) (string, []byte) {
			var sb strings.Builder
			val := generic.NewValue(d.t, f.tb)
			for _, p := range f.paths {
				x := val.GetByPath(p...)
				if x.IsError() {
					sb.WriteString("E;")
					continue
				}
				sb.WriteString(h.Sha(x.Raw()) + ";")
			}
			return "ok:" + h.Sha([]byte(sb.String())), nil
		}},
		{"thrift.Value.GetByPath(name)", func(d *c12Descs) (string, []byte) {
			// the path slices are the caller's: shared by every goroutine and compared with a copy afterwards
			var sb strings.Builder
			val := generic.NewValue(d.t, f.tb)
			for _, p := range f.npaths {
				x := val.GetByPath(p...)
				if x.IsError() {
					sb.WriteString("E;")
					continue
				}
				sb.WriteString(h.Sha(x.Raw()) + ";")
			}
			return "ok:" + h.Sha([]byte(sb.String())), nil
		}},
		{"thrift.PathNode.Load+Marshal", func(d *c12Descs) (string, []byte) {
			t := generic.PathNode{Node: generic.NewNode(thrift.STRUCT, f.tb)}
			if err := t.Load(true, gopts()); err != nil {
				return "error:" + errCode(err), nil
			}
			return resStr(t.Marshal(gopts()))
		}},
		{"thrift.Value.MarshalTo", func(d *c12Descs) (string, []byte) {
			return resStr(generic.NewValue(d.t, f.tb).MarshalTo(d.t, gopts()))
		}},
		{"thrift.desc.lookups", func(d *c12Descs) (string, []byte) {
			var sb strings.Builder
			st := d.t.Struct()
			for _, fd := range st.Fields() {
				if st.FieldByKey(fd.Alias()) != fd || st.FieldById(fd.ID()) != fd {
					sb.WriteString("BROKEN")
				}
				sb.WriteString(fd.Name())
			}
			if st.FieldByKey("no-such-key") != nil || st.FieldById(29999) != nil {
				sb.WriteString("GHOST")
			}
			return "ok:" + h.Sha([]byte(sb.String())), nil
		}},
		{"thrift.desc.lookups-wide", func(d *c12Descs) (string, []byte) {
			if d.wide == nil {
				return "no-desc", nil
			}
			var sb strings.Builder
			st := d.wide.Struct()
			for _, fd := range st.Fields() {
				if g := st.FieldByKey(fd.Name()); g != fd {
					if g == nil {
						sb.WriteString("LOST:" + fd.Name() + ";")
					} else {
						sb.WriteString("WRONG:" + fd.Name() + "->" + g.Name() + ";")
					}
				}
			}
			for _, k := range []string{"aaaz", "zzzz", "aaa", "aaaaa"} {
				if st.FieldByKey(k) != nil {
					sb.WriteString("GHOST:" + k + ";")
				}
			}
			return "ok:" + sb.String(), nil
		}},
		{"t2j.DoInto", func(d *c12Descs) (string, []byte) {
			buf := make([]byte, 0, 8)
			err := d.t2j.DoInto(ctx, d.t, f.tb, &buf)
			return resStr(buf, err)
		}},
		{"p2j.DoInto", func(d *c12Descs) (string, []byte) {
			buf := make([]byte, 0, 8)
			err := d.p2j.DoInto(ctx, d.p, f.pb, &buf)
			return resStr(buf, err)
		}},
		{"p2j.Do", func(d *c12Descs) (string, []byte) { return resStr(d.p2j.Do(ctx, d.p, f.pb)) }},
		{"p2j.Do-truncated", func(d *c12Descs) (string, []byte) { return resStr(d.p2j.Do(ctx, d.p, f.pbTrunc)) }},
		{"j2p.Do", func(d *c12Descs) (string, []byte) { return resStr(d.j2p.Do(ctx, d.p, f.pj)) }},
		{"j2p.DoInto", func(d *c12Descs) (string, []byte) {
			buf := make([]byte, 0, 16)
			err := d.j2p.DoInto(ctx, d.p, f.pj, &buf)
			return resStr(buf, err)
		}},
		{"j2t.Do-spare-capacity", func(d *c12Descs) (string, []byte) { return resStr(d.j2t.Do(ctx, d.t, f.tjSpare)) }},
		{"j2p.Do-spare-capacity", func(d *c12Descs) (string, []byte) { return resStr(d.j2p.Do(ctx, d.p, f.pjSpare)) }},
		{"j2p.Do-long-bytes", func(d *c12Descs) (string, []byte) {
			// long base64 texts, on a read-only input that starts (not ends) at a page boundary: the converter
			// sees the caller's memory itself, and a write to it faults
			if d.bb == nil {
				return "no-desc", nil
			}
			return resStr(d.j2p.Do(ctx, d.bb, f.bbJ))
		}},
		{"j2p.Do-truncated", func(d *c12Descs) (string, []byte) { return resStr(d.j2p.Do(ctx, d.p, f.pj[:len(f.pj)*2/3])) }},
		{"proto.Value.MarshalTo", func(d *c12Descs) (string, []byte) {
			return resStr(pg.NewRootValue(d.p, f.pb).MarshalTo(d.p, &pg.Options{}))
		}},
		{"proto.Value.Field+GetMany", func(d *c12Descs) (string, []byte) {
			var sb strings.Builder
			root := pg.NewRootValue(d.p, f.pb)
			var many []pg.PathNode
			for n := 1; n <= 24; n++ {
				x := root.Field(dproto.FieldNumber(n))
				if x.IsError() {
					sb.WriteString("E;")
					continue
				}
				many = append(many, pg.PathNode{Path: pg.NewPathFieldId(dproto.FieldNumber(n))})
				sb.WriteString(h.Sha(x.Raw()) + ";")
			}
			if len(many) > 0 {
				if err := root.GetMany(many, &pg.Options{}); err != nil {
					sb.WriteString("GetMany-error;")
				} else {
					for _, pn := range many {
						sb.WriteString(h.Sha(pn.Node.Raw()) + ";")
					}
				}
			}
			return "ok:" + h.Sha([]byte(sb.String())), nil
		}},
		{"proto.desc.lookups", func(d *c12Descs) (string, []byte) {
			var sb strings.Builder
			md := d.p.Message()
			for n := 1; n <= 24; n++ {
				if fd := md.ByNumber(dproto.FieldNumber(n)); fd != nil {
					if md.ByName(fd.Name()) != fd || md.ByJSONName(fd.JSONName()) != fd {
						sb.WriteString("BROKEN")
					}
					sb.WriteString(fd.Name())
				}
			}
			if md.ByName("no-such-field") != nil || md.ByNumber(29999) != nil {
				sb.WriteString("GHOST")
			}
			return "ok:" + h.Sha([]byte(sb.String())), nil
		}},
		{"thrift.Node.not-found-held", func(d *c12Descs) (string, []byte) {
			// an error result is a result: the text of a miss is held while other lookups (here and in the other
			// goroutines) miss other things, and is read again afterwards
			n := generic.NewNode(thrift.STRUCT, f.tb)
			a := n.Field(31999)
			first := a.Error()
			k := atomic.AddInt64(&c12MissSeq, 1)
			n.Field(thrift.FieldID(20000 + k%5000))
			n.GetByPath(generic.NewPathFieldId(thrift.FieldID(25000 + k%5000)))
			generic.NewNode(thrift.MAP, []byte{11, 8, 0, 0, 0, 0}).GetByStr(fmt.Sprintf("missing-%d", k))
			if again := a.Error(); again != first {
				return "held-miss-text-changed:" + again, nil
			}
			return "ok:" + first, nil
		}},
		{"thrift.Value.GetMany", func(d *c12Descs) (string, []byte) {
			var sb strings.Builder
			val := generic.NewValue(d.t, f.tb)
			var many []generic.PathNode
			for _, fd := range d.t.Struct().Fields() {
				many = append(many, generic.PathNode{Path: generic.NewPathFieldId(fd.ID())})
			}
			if err := val.GetMany(many, gopts()); err != nil {
				return "error:" + errCode(err), nil
			}
			for _, pn := range many {
				if pn.Node.IsError() {
					sb.WriteString("E;")
				} else {
					sb.WriteString(h.Sha(pn.Node.Raw()) + ";")
				}
			}
			return "ok:" + h.Sha([]byte(sb.String())), nil
		}},
		{"proto.Value.Interface", func(d *c12Descs) (string, []byte) {
			v, err := pg.NewRootValue(d.p, f.pb).Interface(&pg.Options{})
			if err != nil {
				return "error:" + errCode(err), nil
			}
			return "ok:" + h.Sha([]byte(canonGo(v))), nil
		}},
		{"proto.PathNode.Load+Marshal", func(d *c12Descs) (string, []byte) {
			root := pg.NewRootValue(d.p, f.pb)
			t := pg.PathNode{Node: root.Node}
			if err := t.Load(true, &pg.Options{}, d.p); err != nil {
				return "error:" + errCode(err), nil
			}
			return resStr(t.Marshal(&pg.Options{}))
		}},
	}
	return ops
}

var c12MissSeq int64

const c12BigBytesProto = `syntax = "proto3";
package verif;
message BB { bytes b = 1; repeated bytes rb = 2; map<string, bytes> mb = 3; string s = 4; }
service S { rpc M(BB) returns (BB); }
`

// c12Fixture generates the shared material of one case.
func c12Fixture(cs *h.Case) *c12Fix {
	f := &c12Fix{}
	sc := gen.GenSchema(cs.R, gen.Cfg{MaxDepth: 2, MaxFields: 5, Requiredness: true, Recursive: true})
	f.root = structType(sc.Root)
	f.idl = sc.IDL()
	v := gen.GenVal(cs.R, f.root, gen.ValCfg{MaxElems: 4, MaxStr: 30, AllFields: true}, 0)
	tb := tref.Encode(v)
	tj := RenderJSON(cs.R, v, f.root, JSpell{}, JOpts{})
	for _, p := range allPaths(v, 5) {
		f.paths = append(f.paths, toGenericPath(p, f.root, false))
		f.npaths = append(f.npaths, toGenericPath(p, f.root, true))
		f.npathsCopy = append(f.npathsCopy, toGenericPath(p, f.root, true))
	}
	psc := gen.GenPSchema(cs.R, gen.PCfg{MaxDepth: 2, MaxFields: 5, Enums: true})
	pc, err := PCompile(psc)
	if err != nil {
		return nil
	}
	f.protoText = pc.Text
	m := PGenMsg(cs.R, pc.Root, PValCfg{MaxElems: 4, MaxDepth: 2}, 0)
	pb := PMarshal(m)
	pj, _ := PRenderJSON(cs.R, m, PJSpell{})
	hresp := tref.Struct(tref.Field{ID: 1, V: tref.Str("message")}, tref.Field{ID: 2, V: tref.Int32(201)}, tref.Field{ID: 3, V: tref.Str("hdr")}, tref.Field{ID: 4, V: tref.Str("cookie")})
	f.tb, f.tj, f.pb, f.pj = f.trap(tb), f.trap([]byte(tj)), f.trap(pb), f.trap([]byte(pj))
	{
		// a document inside a larger read-only buffer: what lies behind len() belongs to the caller as well
		a := h.TrapSpare([]byte(tj), cs.R.Intn(64), true)
		b := h.TrapSpare([]byte(pj), cs.R.Intn(64), true)
		f.traps = append(f.traps, a, b)
		f.tjSpare, f.pjSpare = a.B, b.B
	}
	f.hj = f.trap([]byte(`{"Plain":123456789012,"Dflt":"d"}`))
	f.hrespb = f.trap(tref.Encode(hresp))
	f.excb = f.trap(tref.Encode(tref.Struct(tref.Field{ID: 1, V: tref.Struct(
		tref.Field{ID: 1, V: tref.Str("exception message " + strings.Repeat("x", cs.R.Intn(200)))},
		tref.Field{ID: 2, V: tref.Int32(int32(cs.R.Intn(1000)))},
		tref.Field{ID: 3, V: tref.List(tref.STRING, tref.Str("d1"), tref.Str("d2"))})})))
	{
		l := &tref.Val{T: tref.LIST, ET: tref.I64}
		for i := 0; i < 700+cs.R.Intn(600); i++ {
			l.L = append(l.L, tref.Int64(int64(cs.R.Intn(1000))-500))
		}
		big := tref.Struct(tref.Field{ID: 1, V: l}, tref.Field{ID: 2, V: tref.Str(strings.Repeat("s", cs.R.Intn(3000)))})
		bt := &gen.Type{T: tref.STRUCT, S: &gen.StructT{Name: "Big", Fields: []*gen.FieldT{
			{ID: 1, Name: "l", T: &gen.Type{T: tref.LIST, Elem: &gen.Type{T: tref.I64}}}, {ID: 2, Name: "s", T: &gen.Type{T: tref.STRING}}}}}
		f.bigT = f.trap(tref.Encode(big))
		f.bigJ = f.trap([]byte(RenderJSON(cs.R, big, bt, JSpell{}, JOpts{})))
	}
	{
		b64 := func(n int) string { return base64.StdEncoding.EncodeToString(cs.R.Bytes(n)) }
		doc := fmt.Sprintf(`{"b":"%s","rb":["%s","%s"],"mb":{"k":"%s"},"s":"tail"}`,
			b64(768+cs.R.Intn(2500)), b64(cs.R.Intn(40)), b64(768+cs.R.Intn(800)), b64(760+cs.R.Intn(1200)))
		t := h.TrapCopy([]byte(doc), false, true)
		f.traps = append(f.traps, t)
		f.bbJ = t.B
	}
	env := tref.WrapMessage("M", 2, 9, 0, tref.Encode(hresp))
	f.hrespMsg = f.trap(env)
	f.hrespMsgTrunc = f.trap(env[:len(env)-7])
	if len(tb) > 1 {
		f.tbTrunc = f.trap(tb[:1+cs.R.Intn(len(tb)-1)])
	} else {
		f.tbTrunc = f.trap([]byte{0x0b})
	}
	f.tjTrunc = f.trap([]byte(tj[:1+cs.R.Intn(len(tj)-1)] + "@"))
	if len(pb) > 1 {
		f.pbTrunc = f.trap(append(append([]byte{}, pb[:cs.R.Intn(len(pb))]...), 0x0a, 0x7f))
	} else {
		f.pbTrunc = f.trap([]byte{0x0a, 0x7f})
	}
	cs.Info("idl", f.idl)
	cs.Info("proto", f.protoText)
	return f
}

func runC12(c *h.Ctx) {
	// ---- concurrent sessions on shared descriptors, converters and read-only inputs
	c.Run("sessions", c.N(160, 4000), func(cs *h.Case) {
		f := c12Fixture(cs)
		if f == nil {
			cs.Cover("oracle_schema_rejected")
			return
		}
		defer f.free()
		ops := f.ops()
		// baseline: every operation alone, on freshly parsed descriptors
		base := make([]string, len(ops))
		for i, op := range ops {
			d, err := f.parse()
			if err != nil {
				cs.Viol("conc:parse", "err", err)
				return
			}
			base[i], _ = op.run(d)
			if op.name == "j2p.Do-long-bytes" && strings.HasPrefix(base[i], "ok") {
				cs.Cover("long_bytes_converted")
			}
		}
		fresh, err := f.parse()
		if err != nil {
			cs.Viol("conc:parse", "err", err)
			return
		}
		dumpT, dumpH, dumpR, dumpP := c12DumpThrift(fresh.t), c12DumpThrift(fresh.hreq), c12DumpThrift(fresh.hresp), c12DumpProto(fresh.p)
		shared, err := f.parse()
		if err != nil {
			cs.Viol("conc:parse", "err", err)
			return
		}
		G := 4 + cs.R.Intn(9)
		M := 12 + cs.R.Intn(30)
		plans := make([][]int, G)
		for g := range plans {
			for k := 0; k < M; k++ {
				plans[g] = append(plans[g], cs.R.Intn(len(ops)))
			}
		}
		type mis struct{ op, got, want string }
		var mu sync.Mutex
		var wrong []mis
		var panics []string
		counts := make([]int, len(ops))
		var wg sync.WaitGroup
		start := make(chan struct{})
		for g := 0; g < G; g++ {
			wg.Add(1)
			go func(plan []int) {
				defer wg.Done()
				defer func() {
					if r := recover(); r != nil {
						mu.Lock()
						panics = append(panics, fmt.Sprint(r)+" @ "+h.PanicSite(2))
						mu.Unlock()
					}
				}()
				<-start
				for _, i := range plan {
					got, _ := ops[i].run(shared)
					mu.Lock()
					counts[i]++
					if got != base[i] {
						wrong = append(wrong, mis{ops[i].name, got, base[i]})
					}
					mu.Unlock()
				}
			}(plans[g])
		}
		close(start)
		wg.Wait()
		for _, p := range panics {
			cs.Viol("conc:panic-in-session", "panic", p)
		}
		seen := map[string]bool{}
		for _, w := range wrong {
			if !seen[w.op] {
				seen[w.op] = true
				cs.Viol("conc:result-differs-from-solo:"+w.op, "got", w.got, "want", w.want, "goroutines", G)
			}
		}
		for i := range f.npaths {
			for k := range f.npaths[i] {
				if f.npaths[i][k].Type() != f.npathsCopy[i][k].Type() || f.npaths[i][k].String() != f.npathsCopy[i][k].String() {
					cs.Viol("conc:input-path-modified", "path", i, "step", k, "now", f.npaths[i][k].String(), "was", f.npathsCopy[i][k].String())
					break
				}
			}
		}
		if a, b, c2, d := c12DumpThrift(shared.t), c12DumpThrift(shared.hreq), c12DumpThrift(shared.hresp), c12DumpProto(shared.p); a != dumpT || b != dumpH || c2 != dumpR || d != dumpP {
			which := ""
			if a != dumpT {
				which += "thrift,"
			}
			if b != dumpH {
				which += "http-req,"
			}
			if c2 != dumpR {
				which += "http-resp,"
			}
			if d != dumpP {
				which += "proto,"
			}
			cs.Viol("conc:descriptor-modified:"+strings.TrimSuffix(which, ","), "goroutines", G)
		}
		if len(panics) == 0 && len(wrong) == 0 {
			cs.Cover("session_ok")
		}
		for i, n := range counts {
			cs.CoverN("op_"+ops[i].name, n)
		}
		cs.CoverN("session_ops", G*M)
		cs.CoverN("session_goroutines", G)
		// distinct interleavings cannot be observed directly; record the distinct (plan) shapes driven
		cs.Distinct(fmt.Sprintf("sess-%d-%d-%d", G, M, cs.I))
	})

	// ---- histories on one goroutine: a held result must survive later calls that recycle pooled objects
	c.Run("held-results", c.N(300, 8000), func(cs *h.Case) {
		f := c12Fixture(cs)
		if f == nil {
			cs.Cover("oracle_schema_rejected")
			return
		}
		defer f.free()
		f2 := c12Fixture(cs) // a second fixture drives the churn with different content
		if f2 == nil {
			return
		}
		defer f2.free()
		d, err := f.parse()
		if err != nil {
			cs.Viol("conc:parse", "err", err)
			return
		}
		d2, err := f2.parse()
		if err != nil {
			cs.Viol("conc:parse", "err", err)
			return
		}
		ops, churn := f.ops(), f2.ops()
		type held struct {
			name string
			r    []byte
			c    []byte
			s    string
		}
		var hs []held
		var log []string
		steps := 20 + cs.R.Intn(40)
		for k := 0; k < steps; k++ {
			if cs.R.Chance(35) {
				i := cs.R.Intn(len(ops))
				s, r := ops[i].run(d)
				log = append(log, ops[i].name)
				if r != nil {
					hs = append(hs, held{ops[i].name, r, append([]byte{}, r...), s})
				}
			} else {
				i := cs.R.Intn(len(churn))
				churn[i].run(d2)
				log = append(log, "churn:"+churn[i].name)
			}
			// all results held so far must be intact
			for _, x := range hs {
				if !bytes.Equal(x.r, x.c) {
					cs.Viol("alias:held-result-changed:"+x.name, "after", log[len(log)-1], "history", strings.Join(log, " "), "was", x.c, "now", x.r)
					return
				}
			}
		}
		// the same operation again still gives the same answer (no state left behind by failing calls)
		for i, op := range ops {
			s1, _ := op.run(d)
			dFresh, _ := f.parse()
			s2, _ := ops[i].run(dFresh)
			if s1 != s2 {
				cs.Viol("alias:result-depends-on-history:"+op.name, "after-history", s1, "fresh", s2, "history", strings.Join(log, " "))
				return
			}
		}
		cs.CoverN("held_results_checked", len(hs))
		cs.Cover("history_ok")
		cs.Distinct(fmt.Sprintf("hist-%d-%d", steps, len(hs)))
	})
}
