package pref

import (
	"github.com/golang/protobuf/proto"
	"github.com/jhump/protoreflect/desc"
	"google.golang.org/protobuf/types/descriptorpb"
)

// protoV2 converts jhump's (golang/protobuf v1 API) FileDescriptorProto to the v2 message.
func protoV2(fd *desc.FileDescriptor) *descriptorpb.FileDescriptorProto {
	v1 := fd.AsFileDescriptorProto()
	m := proto.MessageV2(v1)
	if x, ok := m.(*descriptorpb.FileDescriptorProto); ok {
		return x
	}
	// fall back to a wire round trip
	b, err := proto.Marshal(v1)
	if err != nil {
		panic(err)
	}
	out := &descriptorpb.FileDescriptorProto{}
	if err := proto.Unmarshal(b, proto.MessageV1(out)); err != nil {
		panic(err)
	}
	return out
}
