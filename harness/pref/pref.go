// Package pref is the Protobuf reference: .proto text -> protoparse -> FileDescriptorProto ->
// protodesc -> dynamicpb (google.golang.org/protobuf). It shares no code with dynamicgo's
// proto packages (dynamicgo also uses protoparse for parsing; descriptors and the wire codec
// here come from protobuf-go).
package pref

import (
	"fmt"
	"io"
	"io/ioutil"
	"strings"

	"github.com/jhump/protoreflect/desc"
	"github.com/jhump/protoreflect/desc/protoparse"
	"google.golang.org/protobuf/reflect/protodesc"
	"google.golang.org/protobuf/reflect/protoreflect"
	"google.golang.org/protobuf/reflect/protoregistry"
	"google.golang.org/protobuf/types/descriptorpb"
)

// Compile parses the main file (named main) given all files by name.
func Compile(main string, files map[string]string) (protoreflect.FileDescriptor, *desc.FileDescriptor, error) {
	p := protoparse.Parser{
		Accessor: func(name string) (io.ReadCloser, error) {
			if c, ok := files[name]; ok {
				return ioutil.NopCloser(strings.NewReader(c)), nil
			}
			return nil, fmt.Errorf("file %q not found", name)
		},
	}
	fds, err := p.ParseFiles(main)
	if err != nil {
		return nil, nil, err
	}
	reg := &protoregistry.Files{}
	fd, err := register(reg, fds[0])
	if err != nil {
		return nil, nil, err
	}
	return fd, fds[0], nil
}

func register(reg *protoregistry.Files, fd *desc.FileDescriptor) (protoreflect.FileDescriptor, error) {
	if f, err := reg.FindFileByPath(fd.GetName()); err == nil {
		return f, nil
	}
	for _, dep := range fd.GetDependencies() {
		if _, err := register(reg, dep); err != nil {
			return nil, err
		}
	}
	var fdp *descriptorpb.FileDescriptorProto = protoV2(fd)
	f, err := protodesc.NewFile(fdp, reg)
	if err != nil {
		return nil, err
	}
	if err := reg.RegisterFile(f); err != nil {
		return nil, err
	}
	return f, nil
}
