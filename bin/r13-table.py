#!/usr/bin/env python3
# Rewrites the table of DESIGN.md section R1.3 from evidence/*.json (quick size) and seeded/MATRIX.json.
import json, re, glob
V = '/verif'
m = json.load(open(V + '/seeded/MATRIX.json'))
s = open(V + '/DESIGN.md').read()
rows = re.findall(r'^\| (C\d\d) \| ([^|]*) \| *[^|]* \| [^|]* \|$', s, re.M)
desc = {r[0]: r[1].strip() for r in rows}
def evals(p):
    e = json.load(open('%s/evidence/%s.json' % (V, p)))
    c = e.get('coverage', {})
    for k in ('evaluations', 'cases'):
        if isinstance(c.get(k), int):
            return c[k]
    t = json.dumps(e)
    mm = re.search(r'"evaluations": (\d+)', t)
    return int(mm.group(1)) if mm else 0
out = []
for p in sorted(desc):
    own = sorted(k for k, v in m.items() if k.startswith(p + '-') and p in v.get('caught_by', []))
    other = sorted(k for k, v in m.items() if not k.startswith(p + '-') and p in v.get('caught_by', []))
    neut = sorted(k for k, v in m.items() if k.startswith(p + '-') and v.get('status') != 'caught')
    def rng(ks):
        return ', '.join(ks)
    cell = '%d own: %s' % (len(own), rng([k.split('-')[1] for k in own]))
    if other:
        cell += ' (also %s)' % rng(other)
    if neut:
        cell += '; not caught (neutralised by fixes): %s' % rng(neut)
    out.append('| %s | %s | %d | %s |' % (p, desc[p], evals(p), cell))
new_table = '\n'.join(out)
start = s.index('| C01 |')
end = s.index('\n\n', start)
s = s[:start] + new_table + s[end:]
open(V + '/DESIGN.md', 'w').write(s)
print(new_table[:600])
