#!/usr/bin/env python3
# usage: seed-tasks.py <scratch-root>   creates <root>/<P> worktrees of /repo HEAD and <root>/<P>-out/TASK.md for every property
import sys
ROOT=sys.argv[1]
import json,os,subprocess,glob
ex={}; glob_ideas=[]
for d in sorted(glob.glob('/verif/seeded/C*/')):
    name=os.path.basename(d.rstrip('/'))
    pid=name.split('-')[0]
    m=json.load(open(d+'meta.json'))
    ch=m.get('change','')
    if not ch:
        notes=open(d+'NOTES.md').read() if os.path.exists(d+'NOTES.md') else ''
        ch=' '.join(notes.split())[:400]
    ex.setdefault(pid,[]).append(name+': '+ch[:260])
    glob_ideas.append(name+': '+ch[:95])
props={}
for l in open('/verif/properties.jsonl'):
    p=json.loads(l); props[p['id']]=p
for pid,p in props.items():
    wt=ROOT+'/%s'%pid; out=ROOT+'/%s-out'%pid
    subprocess.run(['git','-C','/repo','worktree','add','-q','--detach',wt,'HEAD'],check=True)
    os.makedirs(out,exist_ok=True)
    open(out+'/PROPERTY.json','w').write(json.dumps(p,indent=1))
    files=', '.join(p['anchors'].get('files',[]))
    others=[g for g in glob_ideas if not g.startswith(pid)]
    task=f'''# Task: seed one defect that breaks property {pid}

You are helping test a verification framework for the Go library cloudwego/dynamicgo. Invent ONE realistic code change
("seeded defect") to the library that BREAKS the semantic property below while the library still compiles and its
whole existing test suite still passes.

## The property ({pid}: {p['title']})
{p['statement']}

Quantified over: {p['quantifier']['text']}

Code anchors: {files}
(The full record incl. mechanisms is in {out}/PROPERTY.json.)

## Where to work
- Working copy: a scratch git worktree of the library at {wt}. Work ONLY there; never touch or read /repo or /verif.
- NEVER use `git stash` (the stash is shared by all worktrees and other agents work in parallel): to test "without the
  change" save your diff with `git diff > {out}/patch.diff`, undo with `git apply -R {out}/patch.diff`, redo with `git apply`.
- Deliverables go to {out}/ .
- Every shell command needs: export GOFLAGS=-mod=mod GOPROXY=off GOSUMDB=off GOTOOLCHAIN=local   (no network).
- Change Go code only. Never edit the assembly (.s) files under internal/native/{{avx,avx2,sse}} nor native/*.c (they cannot
  be regenerated here). Do NOT touch tests, do not add build tags.

## Requirements for the change
- a small, plausible edit a developer could make by mistake or as a "harmless" refactor/optimisation in non-test library code;
- it must break the property for some inputs / options / schedules / histories, but `go build ./... && go test -vet=off -count=1 ./...`
  must still pass with the change applied, STABLY: run the full suite 3 times (some tests use random data); the check is that
  `go test -vet=off -count=1 ./... 2>&1 | grep -i "^FAIL\\|^--- FAIL\\|^panic"` prints nothing;
- the change must not make the library hang or loop forever, and must not need more than ~1 GiB of memory to demonstrate;
- prefer a defect that needs a specific condition to manifest (a particular option combination, type, size, position, API
  entry point, or call history) rather than one that breaks everything; look for corners of the property's quantifier that a
  sampling checker could easily leave out: rarely used options, the less common API entry points and variants named in the
  property (read it word by word), unusual but legal inputs, sizes beyond internal thresholds, second and later calls on a
  reused object, interactions of two options, values at the edges of their range, rarely combined type shapes;
- it must be DIFFERENT from the changes listed below, which already exist. Do not reuse their code site or idea. These ideas
  are used up across the board and must NOT be used again in any form: "return / retain a pooled buffer instead of a copy",
  "option flags accumulate or are not reset", "early exit assuming ascending field order", "typedef/alias loses binary-ness",
  "int32 overflow of field number << 3", "defects that only exist in the portable (-tags=go1.25) build".
  Already existing for this property:
''' + ''.join('  - %s\n'%e for e in ex.get(pid,[])) + '''  Already existing for the other properties (one line each):
''' + ''.join('  - %s\n'%e for e in others) + f'''
## Deliverables in {out}/
1. patch.diff - output of `git diff` in the worktree (library change only, without the demo test).
2. seed_demo_test.go - a Go test file (func name starting with TestSeedDemo) that FAILS with your change applied and PASSES
   on the unchanged code, demonstrating the property violation through the public API; and DEMO_PATH.txt containing the
   repo-relative path where this file must be copied to run (package clause matching that directory). If the demo needs the
   race detector also write DEMO_RACE.txt.
   (api.* thrift annotations are registered by importing _ "github.com/cloudwego/dynamicgo/thrift/annotation"; tests in package
   thrift cannot import it - put such a demo into thrift/annotation or a conv package.)
3. NOTES.md with sections "## Change", "## Property clause broken", "## What is needed to manifest", "## Commands run"
   (with outcomes: (i) suite passes with the change, (ii) demo fails with the change, (iii) demo passes without the change).
When done, leave the worktree clean of the demo file. Report briefly what you did (5 lines at most).
'''
    open(out+'/TASK.md','w').write(task)
print(len(props), len(glob_ideas))