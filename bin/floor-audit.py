import json,sys
f=json.load(open('/verif/floors.json'))
for p in sorted(f):
    e=json.load(open('/verif/evidence/%s.json'%p))
    ev=e['coverage'].get('events',{})
    for k,fl in f[p].get('cover',{}).items():
        v=ev.get(k,0)
        if fl>0 and v < 1.6*fl:
            print(p,k,'floor',fl,'observed',v, 'ratio %.2f'%(v/fl if fl else 0))
